#!/venv/bin/python
"""Hand-run triage aid: the failing inputs behind the findings F1..F29 of DESIGN.md §5.

NOT part of any registered check (the checks are static and never import pysmi).
Run:  /venv/bin/python /verif/triage/witnesses.py [F9 F11 ...]
Each witness prints what today's tree does; the expected (property-conforming)
behaviour is in the comment.  F14 and F26 need fault injection / a zipped egg and
are argued from the source only.
"""
import json
import signal
import sys

from pysmi import error
from pysmi.codegen.jsondoc import JsonCodeGen
from pysmi.codegen.pysnmp import PySnmpCodeGen
from pysmi.codegen.symtable import SymtableCodeGen
from pysmi.compiler import MibCompiler
from pysmi.mibinfo import MibInfo
from pysmi.parser.dialect import smiV1, smiV2
from pysmi.parser.smi import parserFactory
from pysmi.reader.callback import CallbackReader
from pysmi.reader.url import getReadersFromUrls
from pysmi.writer.callback import CallbackWriter

SMI = """
SNMPv2-SMI DEFINITIONS ::= BEGIN
org OBJECT IDENTIFIER ::= { iso 3 }
dod OBJECT IDENTIFIER ::= { org 6 }
internet OBJECT IDENTIFIER ::= { dod 1 }
private OBJECT IDENTIFIER ::= { internet 4 }
enterprises OBJECT IDENTIFIER ::= { private 1 }
zeroDotZero OBJECT IDENTIFIER ::= { 0 0 }
END
"""
BASE = {'SNMPv2-SMI': SMI,
        'SNMPv2-TC': 'SNMPv2-TC DEFINITIONS ::= BEGIN END',
        'SNMPv2-CONF': 'SNMPv2-CONF DEFINITIONS ::= BEGIN END'}
HDR = "IMPORTS enterprises, OBJECT-TYPE, MODULE-IDENTITY FROM SNMPv2-SMI;\n"
OT = " MAX-ACCESS read-only STATUS current DESCRIPTION \"x\" "


def parse(text, dialect=smiV2, parser=None):
    p = parser or parserFactory(**dialect)()
    try:
        return 'OK', p.parse(text)
    except error.PySmiError as e:
        return 'PYSMI', type(e).__name__, str(e)
    except Exception as e:  # foreign
        return 'FOREIGN', '%s.%s' % (type(e).__module__, type(e).__name__), str(e)[:70]


def gen(texts, codegen, dialect=smiV2, **kw):
    p = parserFactory(**dialect)()
    sg, stm, trees, out = SymtableCodeGen(), {}, [], {}
    for t in [SMI] + list(texts):
        for tree in p.parse(t):
            mi, st = sg.genCode(tree, stm)
            stm[mi.name] = st
            trees.append(tree)
    for tree in trees[1:]:
        try:
            mi, txt = codegen.genCode(tree, stm, **kw)
            out[mi.name] = txt
        except error.PySmiError as e:
            out[tree[0]] = ('PYSMI', type(e).__name__, str(e))
        except Exception as e:
            out[tree[0]] = ('FOREIGN', type(e).__name__, str(e))
    return out


def compiler(sources, written, codegen=None):
    c = MibCompiler(parserFactory(**smiV2)(), codegen or JsonCodeGen(),
                    CallbackWriter(lambda n, d, ctx: written.__setitem__(n, d)))
    for s in sources:
        c.addSources(CallbackReader(lambda name, ctx: ctx.get(name), s))
    return c


def mod(name, body, hdr=HDR):
    return "%s DEFINITIONS ::= BEGIN\n%s%s\nEND\n" % (name, hdr, body)


W = {}


def witness(f):
    W[f.__name__] = f
    return f


@witness
def F1():
    """C12: parser not reset after a failing parse (expected: 2nd/3rd result independent of history)"""
    p = parserFactory(**smiV2)()
    bad = "X DEFINITIONS ::= BEGIN\n\n\n foo OBJECT IDENTIFIER := { 1 3 }\nEND\n"
    print(' 1st (error is on line 4):', parse(bad, parser=p))
    print(' 2nd same text            :', parse(bad, parser=p))
    parse("X DEFINITIONS ::= BEGIN\n Y MACRO ::= x\n", parser=p)
    print(' good text after MACRO err:', parse("X DEFINITIONS ::= BEGIN\n foo OBJECT IDENTIFIER ::= { 1 3 }\nEND\n", parser=p)[:2])


@witness
def F2():
    """C11: truncated text returns [] (expected: located package error)"""
    print(' truncated module      :', parse("X DEFINITIONS ::= BEGIN\n foo OBJECT IDENTIFIER ::= { 1 3 }\n"))
    print(' complete + truncated  :', parse("X DEFINITIONS ::= BEGIN END Y"))


@witness
def F3():
    """C11/C07: unterminated MACRO raises ply.lex.LexError (expected: PySmiLexerError)"""
    print(' ', parse("X DEFINITIONS ::= BEGIN\n OBJECT-TYPE MACRO ::= abc def \n"))


@witness
def F4():
    """C11: line numbers ignore line breaks inside EXPORTS/CHOICE/MACRO (expected: line 9 / line 7)"""
    print(' ', parse("X DEFINITIONS ::= BEGIN\nEXPORTS a,\n b,\n c;\nFoo ::= CHOICE {\n a INTEGER,\n b INTEGER\n }\nfoo OBJECT IDENTIFIER := { 1 3 }\nEND\n"))
    print(' ', parse("X DEFINITIONS ::= BEGIN\nOBJECT-TYPE MACRO ::=\nBEGIN\n x\n y\nEND\nfoo OBJECT IDENTIFIER := { 1 3 }\nEND\n"))


@witness
def F5():
    """C12/C20: module without REVISION inherits the previous module's revision (expected: None)"""
    rev = mod('REV-MIB', 'revMib MODULE-IDENTITY LAST-UPDATED "200001010000Z" ORGANIZATION "o" CONTACT-INFO "c" DESCRIPTION "d"\n'
              ' REVISION "200001010000Z" DESCRIPTION "r" ::= { enterprises 7 }')
    good = mod('GOOD-MIB', 'groot OBJECT IDENTIFIER ::= { enterprises 4 }')
    c = compiler([dict(BASE, **{'REV-MIB': rev, 'GOOD-MIB': good})], {})
    r1 = c.compile('REV-MIB')
    r2 = c.compile('GOOD-MIB')
    print(' REV-MIB', r1['REV-MIB'].revision, '| GOOD-MIB', r2['GOOD-MIB'].revision)


@witness
def F6():
    """C12: output bytes depend on PYTHONHASHSEED (run twice with different seeds and compare)"""
    import hashlib
    out = gen([mod('T-MIB', 'root OBJECT IDENTIFIER ::= { enterprises 9 }')], JsonCodeGen())
    print(' md5 of JSON:', hashlib.md5(out['T-MIB'].encode()).hexdigest(), '(vary PYTHONHASHSEED)')


@witness
def F7():
    """C05/C12: enumeration of T2 depends on whether an object using it was declared first (expected: {b: 2} both)"""
    types = "T1 ::= INTEGER { a(1) }\nT2 ::= T1 { b(2) }\n"
    obj = "obj OBJECT-TYPE SYNTAX T2" + OT + "DEFVAL { a } ::= { enterprises 9 }\n"
    for label, body in (('type first', types + obj), ('object first', obj + types)):
        out = gen([mod('E-MIB', body)], JsonCodeGen())
        v = out['E-MIB']
        print(' %-12s' % label, v if isinstance(v, tuple) else json.loads(v)['T2']['type'].get('constraints'))


@witness
def F8():
    """C18: OID 1.3.6.1.4.1.48.1 is left without a component-wise prefix entry"""
    a = mod('A-MIB', 'x OBJECT IDENTIFIER ::= { enterprises 4 }\ny OBJECT IDENTIFIER ::= { enterprises 48 1 }')
    c = compiler([dict(BASE, **{'A-MIB': a})], {})
    r = c.compile('A-MIB')
    print(' oids of A-MIB:', sorted(r['A-MIB'].oids))
    print(' index oids   :', sorted(k for k, v in json.loads(JsonCodeGen().genIndex(r))['oids'].items() if 'A-MIB' in v))


@witness
def F9():
    """C07: first source holds a broken copy, second a good one: module is written but reported failed"""
    good = mod('GOOD-MIB', 'groot OBJECT IDENTIFIER ::= { enterprises 4 }')
    written = {}
    c = compiler([{'GOOD-MIB': good.replace('::= { enterprises 4 }', ':= { enterprises 4 }')},
                  dict(BASE, **{'GOOD-MIB': good})], written)
    r = c.compile('GOOD-MIB')
    print(' status', str(r['GOOD-MIB']), '| written', 'GOOD-MIB' in written)


@witness
def F10():
    """C19: requested missing module is not borrowed under noDeps (expected: borrowed in both)"""
    class Borrower:
        def getData(self, name, **opts):
            if name == 'MISSING-MIB':
                return MibInfo(name=name, path='x', file='f', mtime=0), 'BORROWED'
            raise error.PySmiFileNotFoundError('nope')
    for nd in (False, True):
        c = compiler([BASE], {})
        c.addBorrowers(Borrower())
        print(' noDeps=%-5s ->' % nd, str(c.compile('MISSING-MIB', noDeps=nd)['MISSING-MIB']))


@witness
def F11():
    """C08: file FOO holding module BAR that imports from FOO: compile() never returns"""
    bar = "BAR DEFINITIONS ::= BEGIN\nIMPORTS x FROM FOO;\ny OBJECT IDENTIFIER ::= { x 1 }\nEND\n"
    calls = [0]

    class D(dict):
        def get(self, k, d=None):
            calls[0] += 1
            return dict.get(self, k, d)

    def alarm(*a):
        raise TimeoutError()
    signal.signal(signal.SIGALRM, alarm)
    signal.alarm(3)
    try:
        compiler([D(BASE, FOO=bar)], {}).compile('FOO')
        print(' terminated')
    except TimeoutError:
        print(' no termination within 3 s; reader calls so far:', calls[0])
    finally:
        signal.alarm(0)


@witness
def F12():
    """C01: reverse-ordered type chain fails (expected: compiles like the forward order)"""
    for label, body in (('reverse', "A ::= B\nB ::= C\nC ::= INTEGER"), ('forward', "C ::= INTEGER\nB ::= C\nA ::= B")):
        try:
            out = gen([mod('CH-MIB', body)], JsonCodeGen())
            print(' %-8s' % label, 'ok' if isinstance(out['CH-MIB'], str) else out['CH-MIB'])
        except error.PySmiError as e:
            print(' %-8s' % label, type(e).__name__, e)


@witness
def F13():
    """C02/C06: GROUPs after a leading OBJECT clause are lost (expected: [g1, g2, g3])"""
    mc = mod('MC-MIB', 'root OBJECT IDENTIFIER ::= { enterprises 9 }\n'
             'mc MODULE-COMPLIANCE STATUS current DESCRIPTION "d"\n MODULE MANDATORY-GROUPS { g1 }\n'
             ' OBJECT o1 DESCRIPTION "o"\n GROUP g2 DESCRIPTION "g"\n GROUP g3 DESCRIPTION "g"\n ::= { root 1 }')
    print(' ', parse(mc)[1][0][3][1][5])


@witness
def F15_F16():
    """C04/C06: plain types are not exported; compliance objects never rendered"""
    m = mod('X-MIB', 'root OBJECT IDENTIFIER ::= { enterprises 9 }\nMyInt ::= INTEGER (0..10)\n'
            'mc MODULE-COMPLIANCE STATUS current DESCRIPTION "d"\n MODULE MANDATORY-GROUPS { g1 }\n ::= { root 1 }')
    txt = gen([m], PySnmpCodeGen())['X-MIB']
    print(' class MyInt defined:', 'class MyInt(' in txt, '| exported:', '"MyInt"' in txt.split('exportSymbols')[1])
    print(' compliance setObjects rendered:', 'setObjects' in txt.split('# Module compliance')[1])


@witness
def F17_F18_F23_F25():
    """C06/C05: hyphenated column/index, DEFVAL "" dropped, BITS DEFVAL breaks pysnmp, DEFVAL { d-root } rejected"""
    body = ('root OBJECT IDENTIFIER ::= { enterprises 9 }\n'
            'myTable OBJECT-TYPE SYNTAX SEQUENCE OF MyEntry MAX-ACCESS not-accessible STATUS current DESCRIPTION "x" ::= { root 1 }\n'
            'myEntry OBJECT-TYPE SYNTAX MyEntry MAX-ACCESS not-accessible STATUS current DESCRIPTION "x" INDEX { my-idx } ::= { myTable 1 }\n'
            'MyEntry ::= SEQUENCE { my-idx INTEGER, myCol OCTET STRING, myBits BITS }\n'
            'my-idx OBJECT-TYPE SYNTAX INTEGER' + OT + '::= { myEntry 1 }\n'
            'myCol OBJECT-TYPE SYNTAX OCTET STRING' + OT + 'DEFVAL { "" } ::= { myEntry 2 }\n'
            'myBits OBJECT-TYPE SYNTAX BITS { a(0), b(1) }' + OT + 'DEFVAL { { a, b } } ::= { myEntry 3 }\n')
    d = json.loads(gen([mod('T2', body)], JsonCodeGen())['T2'])
    print(' my_idx nodetype:', d['my_idx']['nodetype'], '| index entry:', d['myEntry']['indices'])
    print(' myCol default:', d['myCol'].get('default'))
    print(' myBits default record keys:', sorted(d['myBits']['default']))
    print(' pysnmp backend:', gen([mod('T2', body)], PySnmpCodeGen())['T2'] if not isinstance(gen([mod('T2', body)], PySnmpCodeGen())['T2'], str) else 'ok')
    dm = mod('D-MIB', 'd-root OBJECT IDENTIFIER ::= { enterprises 6 }\n'
             'dObj OBJECT-TYPE SYNTAX OBJECT IDENTIFIER' + OT + 'DEFVAL { d-root } ::= { d-root 1 }')
    v = gen([dm], JsonCodeGen())['D-MIB']
    print(' DEFVAL { d-root }:', v if isinstance(v, tuple) else 'ok')


@witness
def F19():
    """C14: https URL gets port 80"""
    print(' ', [str(r) for r in getReadersFromUrls('https://example.org/mibs/@mib@')])


@witness
def F20():
    """C07/C04: JSON backend with a custom template raises AttributeError"""
    print(' ', gen([mod('T-MIB', 'root OBJECT IDENTIFIER ::= { enterprises 9 }')], JsonCodeGen(), dstTemplate='/nonexistent/x.j2'))


@witness
def F21():
    """C01/C04: symbol named like a Python keyword cannot be compiled"""
    print(' ', gen([mod('K-MIB', 'global OBJECT IDENTIFIER ::= { enterprises 9 }')], JsonCodeGen()))


@witness
def F22():
    """C16: SMIv1 INDEX { INTEGER } cannot be compiled"""
    body = ('root OBJECT IDENTIFIER ::= { enterprises 9 }\n'
            'myTable OBJECT-TYPE SYNTAX SEQUENCE OF MyEntry ACCESS not-accessible STATUS mandatory DESCRIPTION "x" ::= { root 1 }\n'
            'myEntry OBJECT-TYPE SYNTAX MyEntry ACCESS not-accessible STATUS mandatory DESCRIPTION "x" INDEX { INTEGER } ::= { myTable 1 }\n'
            'MyEntry ::= SEQUENCE { myCol OCTET STRING }\n'
            'myCol OBJECT-TYPE SYNTAX OCTET STRING ACCESS read-only STATUS mandatory DESCRIPTION "x" ::= { myEntry 2 }')
    print(' ', gen([mod('V1-MIB', body)], JsonCodeGen(), dialect=smiV1))


@witness
def F24():
    """C04: hyphenated symbol exported as a_root but imported as "a-root" by another generated module"""
    a = mod('A-MIB', 'a-root OBJECT IDENTIFIER ::= { enterprises 5 }')
    b = mod('B-MIB', 'bLeaf OBJECT IDENTIFIER ::= { a-root 1 }', hdr='IMPORTS a-root FROM A-MIB;\n')
    out = gen([a, b], PySnmpCodeGen())
    print(' export:', [l.strip() for l in out['A-MIB'].splitlines() if '"a_root"' in l or '"a-root"' in l])
    print(' import:', [l.strip() for l in out['B-MIB'].splitlines() if '"a_root"' in l or '"a-root"' in l])


@witness
def F27():
    """C15: backslash in a text is interpreted by the generated Python literal"""
    m = mod('TX-MIB', 'o OBJECT-TYPE SYNTAX INTEGER UNITS "C:\\new\\table" MAX-ACCESS read-only STATUS current DESCRIPTION "x" ::= { enterprises 9 }')
    txt = gen([m], PySnmpCodeGen(), genTexts=True)['TX-MIB']
    print(' ', [l.strip() for l in txt.splitlines() if 'setUnits' in l])


@witness
def F28():
    """C17: INDEX { 0 } parses differently under smiV2 and smiV1"""
    t = "X DEFINITIONS ::= BEGIN\ne OBJECT-TYPE SYNTAX INTEGER" + OT + "INDEX { 0 } ::= { 1 3 }\nEND"
    print(' smiV2', parse(t, smiV2)[1][0][3][0][9], '| smiV1', parse(t, smiV1)[1][0][3][0][9])


@witness
def F29():
    """C16: sysDescr imported from RFC1158-MIB is not redirected (RFC1213-MIB is)"""
    m = "E-MIB DEFINITIONS ::= BEGIN\nIMPORTS sysDescr FROM RFC1158-MIB sysName FROM RFC1213-MIB;\nEND\n"
    d = json.loads(gen([m], JsonCodeGen(), dialect=smiV1)['E-MIB'])['imports']
    print(' ', {k: v for k, v in d.items() if k.startswith('RFC') or k == 'SNMPv2-MIB'})


if __name__ == '__main__':
    wanted = sys.argv[1:]
    for name, f in W.items():
        if wanted and not any(w in name.split('_') for w in wanted):
            continue
        print('%s  %s' % (name, f.__doc__))
        try:
            f()
        except Exception as e:  # a witness must never hide what happened
            print('  !! witness raised %s: %s' % (type(e).__name__, e))
