#!/venv/bin/python
"""Regression over the seeded breaking changes: each /verif/seeded/<id>/patch.diff is applied to a scratch copy of
/repo (pysmi/ and scripts/ only, under $TMPDIR, removed afterwards) and the checks are run against it.

  selftest/seeds.py [--all-checks] [--update-meta] [id ...]

By default only the check of the property the seed was written for is run; --all-checks runs all twenty.
Exit status 0 = every seed is reported (VIOLATION) by the check of its own property, 1 otherwise.
This does not execute pysmi: it only shows that the static rules fire on known-bad variants of the source."""
import json
import os
import shutil
import subprocess
import sys
import tempfile
from concurrent.futures import ThreadPoolExecutor

HERE = os.path.dirname(os.path.dirname(os.path.abspath(__file__)))
REPO = os.environ.get('VERIF_REPO', '/repo')


def run(sid, all_checks):
    d = os.path.join(HERE, 'seeded', sid)
    meta = json.load(open(os.path.join(d, 'meta.json')))
    prop = meta['property']
    tmp = tempfile.mkdtemp(prefix='pysmi-seedrun-')
    try:
        for top in ('pysmi', 'scripts'):
            shutil.copytree(os.path.join(REPO, top), os.path.join(tmp, top), ignore=shutil.ignore_patterns('__pycache__'))
        p = subprocess.run(['patch', '-p1', '--fuzz=3', '-s', '--no-backup-if-mismatch', '-i', os.path.join(d, 'patch.diff')],
                           cwd=tmp, capture_output=True, text=True)
        if p.returncode != 0:
            return sid, prop, None, 'patch does not apply: ' + (p.stdout + p.stderr)[:200]
        props = [prop]
        if all_checks:
            props = [c['property_id'] for c in json.load(open(os.path.join(HERE, 'MANIFEST.json')))['checks']]
        fired = {}
        for pid in props:
            env = dict(os.environ, VERIF_REPO=tmp, VERIF_NO_EVIDENCE='1')
            q = subprocess.run([os.path.join(HERE, 'vcheck'), pid], cwd=HERE, env=env, capture_output=True, text=True)
            if q.returncode != 0:
                rep = [l.strip() for l in q.stdout.splitlines() if l.startswith('  ') and not l.startswith('      ')]
                fired[pid] = (q.returncode, rep[:3])
        return sid, prop, fired, ''
    finally:
        shutil.rmtree(tmp, ignore_errors=True)


def main(argv):
    all_checks = '--all-checks' in argv
    ids = [a for a in argv if not a.startswith('--')] or sorted(os.listdir(os.path.join(HERE, 'seeded')))
    ids = [i for i in ids if os.path.isdir(os.path.join(HERE, 'seeded', i)) and not i.startswith('_')]
    missed = 0
    with ThreadPoolExecutor(max_workers=8) as ex:
        for sid, prop, fired, err in ex.map(lambda s: run(s, all_checks), ids):
            if fired is None:
                print('%-8s ERROR %s' % (sid, err))
                missed += 1
                continue
            own = fired.get(prop, (0, []))[0] == 1
            if '--update-meta' in argv and all_checks:
                mp = os.path.join(HERE, 'seeded', sid, 'meta.json')
                m = json.load(open(mp))
                m['detected_by'] = dict((p, rep) for p, (rc, rep) in sorted(fired.items()) if rc == 1)
                m['analysis_errors'] = dict((p, rep) for p, (rc, rep) in sorted(fired.items()) if rc == 2)
                m['detected_by_own_property_check'] = own
                json.dump(m, open(mp, 'w'), indent=1)
            others = sorted(p for p, (rc, _) in fired.items() if rc == 1 and p != prop)
            errs = sorted(p for p, (rc, _) in fired.items() if rc == 2)
            if not own:
                missed += 1
            first = fired.get(prop, (0, ['']))[1][:1]
            print('%-8s own-check=%-5s also=%s %s%s' % (sid, own, others, ('ANALYSIS-ERRORS=%s ' % errs) if errs else '',
                                                      (first[0][:110] if first else '')))
    print('seeds: %d of %d not reported by their own property check' % (missed, len(ids)))
    return 1 if missed else 0


if __name__ == '__main__':
    sys.exit(main(sys.argv[1:]))
