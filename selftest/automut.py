#!/venv/bin/python
"""Mutation adequacy of the rule set: systematic single-point edits of the repository's source (scratch copies only)
and, for each, which checks report it.  This is a measurement of the *checker*, not a check of pysmi: a mutant that no
check reports and that the pinned test suite also accepts is a place where neither has an opinion - each such place
is either harmless (equivalent mutant, diagnostics only) or a gap in the rules.

  selftest/automut.py gen   <out.jsonl> [file ...]      enumerate mutants of the given files (default: all anchored)
  selftest/automut.py run   <in.jsonl> <out.jsonl>      run all quick checks on every mutant (16 workers)
  selftest/automut.py suite <in.jsonl> <out.jsonl>      run the pinned test suite on the mutants no check reported
  selftest/automut.py show  <in.jsonl> [--survivors]    summary per file / operator

Equivalent operators (prefix `=`; gen --equivalent): =EQSW (operands of == / != / is / is not swapped when both are
names, attributes or constants), =DBG (a debug.logger line inserted after a statement), =NOTIN (`a not in b` written
`not a in b`), =PASS2 (`if c: A` written `if not c: pass / else: A`), =LISTITER (`for x in L` written
`for x in list(L)` - L is never resized in those loops, rule C08.R5).  For these the expectation is the opposite:
NO check may report them; one that does is a false alarm.

Operators: DEL (statement -> pass), NEG (condition negated), BOOL (and <-> or), CMP (comparison operator swapped),
CONST (number + 1, string + '_', True <-> False), ARG (first two positional arguments swapped), RET (return value ->
None).  Diagnostics (debug.logger expressions, exception messages, __str__/__repr__, docstrings) are not mutated.
Nothing here executes pysmi except the `suite` step, which runs the repository's own tests on a scratch copy.
"""
import ast
import copy
import json
import os
import shutil
import subprocess
import sys
import tempfile
from concurrent.futures import ProcessPoolExecutor

HERE = os.path.dirname(os.path.dirname(os.path.abspath(__file__)))
REPO = os.environ.get('VERIF_REPO', '/repo')
PY = '/venv/bin/python'

DEFAULT_FILES = [
    'pysmi/compiler.py', 'pysmi/codegen/intermediate.py', 'pysmi/codegen/symtable.py', 'pysmi/codegen/jsondoc.py',
    'pysmi/codegen/pysnmp.py', 'pysmi/codegen/base.py', 'pysmi/codegen/jfilters.py', 'pysmi/lexer/smi.py',
    'pysmi/parser/smi.py', 'pysmi/reader/localfile.py', 'pysmi/reader/zipreader.py', 'pysmi/reader/httpclient.py',
    'pysmi/reader/ftpclient.py', 'pysmi/reader/url.py', 'pysmi/reader/base.py', 'pysmi/reader/callback.py',
    'pysmi/searcher/pyfile.py', 'pysmi/searcher/pypackage.py', 'pysmi/searcher/anyfile.py', 'pysmi/searcher/stub.py',
    'pysmi/writer/localfile.py', 'pysmi/writer/pyfile.py', 'pysmi/writer/callback.py', 'pysmi/borrower/base.py',
    'pysmi/borrower/pyfile.py', 'pysmi/borrower/anyfile.py', 'pysmi/mibinfo.py', 'scripts/mibdump.py',
    'scripts/mibcopy.py',
]

CMP_SWAP = {ast.Lt: ast.LtE, ast.LtE: ast.Lt, ast.Gt: ast.GtE, ast.GtE: ast.Gt, ast.Eq: ast.NotEq, ast.NotEq: ast.Eq,
            ast.In: ast.NotIn, ast.NotIn: ast.In, ast.Is: ast.IsNot, ast.IsNot: ast.Is}


def is_debug(node):
    try:
        return 'debug.logger' in ast.unparse(node)
    except Exception:
        return False


EQUIV = False


def points(tree):
    """yield (op, path, description) where path addresses the node from the module root"""
    out = []

    def walk(node, path, ctx):
        # ctx: dict(func=name, in_raise=bool, in_diag=bool)
        if isinstance(node, (ast.FunctionDef, ast.AsyncFunctionDef)):
            ctx = dict(ctx, func=node.name, in_diag=ctx['in_diag'] or node.name in ('__str__', '__repr__'))
        if isinstance(node, ast.ClassDef):
            ctx = dict(ctx, cls=node.name)
        if isinstance(node, ast.Raise):
            ctx = dict(ctx, in_raise=True)
        if isinstance(node, ast.stmt) and not isinstance(node, (ast.FunctionDef, ast.ClassDef)) and is_debug(node) and \
                isinstance(node, ast.Expr):
            return  # pure diagnostics
        if isinstance(node, ast.Call) and is_debug(node.func):
            return
        if isinstance(node, ast.BoolOp) and is_debug(node) and len(ast.unparse(node)) < 400 and \
                ast.unparse(node).startswith('debug.logger &'):
            return
        diag = ctx['in_diag']
        where = '%s%s' % ((ctx.get('cls') + '.') if ctx.get('cls') else '', ctx.get('func') or '<module>')
        ln = getattr(node, 'lineno', 0)
        if EQUIV:
            simple = (ast.Name, ast.Attribute, ast.Constant)
            if isinstance(node, ast.Compare) and len(node.ops) == 1 and isinstance(node.ops[0], (ast.Eq, ast.NotEq, ast.Is, ast.IsNot)) \
                    and isinstance(node.left, simple) and isinstance(node.comparators[0], simple):
                out.append(('=EQSW', path, where, ln, ast.unparse(node)[:90]))
            if isinstance(node, ast.Compare) and len(node.ops) == 1 and isinstance(node.ops[0], ast.NotIn):
                out.append(('=NOTIN', path, where, ln, ast.unparse(node)[:90]))
            if isinstance(node, (ast.Assign, ast.AugAssign)) and ctx.get('func') and not diag:
                out.append(('=DBG', path, where, ln, ast.unparse(node)[:90]))
            if isinstance(node, ast.If) and not node.orelse and ctx.get('func'):
                out.append(('=PASS2', path, where, ln, ast.unparse(node.test)[:90]))
            if isinstance(node, ast.For) and isinstance(node.iter, (ast.Name, ast.Attribute)) and ctx.get('func'):
                out.append(('=LISTITER', path, where, ln, ast.unparse(node.iter)[:90]))
        if not diag and not EQUIV:
            if isinstance(node, (ast.Assign, ast.AugAssign, ast.Delete, ast.Continue, ast.Break, ast.Raise)) or (
                    isinstance(node, ast.Expr) and isinstance(node.value, ast.Call)):
                out.append(('DEL', path, where, ln, ast.unparse(node)[:90]))
            if isinstance(node, ast.Return) and node.value is not None and not (
                    isinstance(node.value, ast.Constant) and node.value.value is None):
                out.append(('RET', path, where, ln, ast.unparse(node)[:90]))
            if isinstance(node, (ast.If, ast.While, ast.IfExp)):
                out.append(('NEG', path, where, ln, ast.unparse(node.test)[:90]))
            if isinstance(node, ast.BoolOp):
                out.append(('BOOL', path, where, ln, ast.unparse(node)[:90]))
            if isinstance(node, ast.Compare):
                for i, op in enumerate(node.ops):
                    if type(op) in CMP_SWAP:
                        out.append(('CMP%d' % i, path, where, ln, ast.unparse(node)[:90]))
            if isinstance(node, ast.Constant) and not ctx['in_raise']:
                v = node.value
                if isinstance(v, bool) or (isinstance(v, int) and not isinstance(v, bool)) or \
                        (isinstance(v, str) and 0 < len(v) < 40):
                    out.append(('CONST', path, where, ln, repr(v)[:60]))
            if isinstance(node, ast.Call) and len(node.args) >= 2 and not any(isinstance(a, ast.Starred) for a in node.args[:2]) \
                    and ast.dump(node.args[0]) != ast.dump(node.args[1]) and not ctx['in_raise']:
                out.append(('ARG', path, where, ln, ast.unparse(node)[:90]))
        for field, value in ast.iter_fields(node):
            if isinstance(value, list):
                for i, item in enumerate(value):
                    if isinstance(item, ast.AST):
                        # skip docstrings
                        if field == 'body' and i == 0 and isinstance(item, ast.Expr) and \
                                isinstance(item.value, ast.Constant) and isinstance(item.value.value, str):
                            continue
                        walk(item, path + [(field, i)], ctx)
            elif isinstance(value, ast.AST):
                if field in ('ctx',):
                    continue
                walk(value, path + [(field, None)], ctx)
    walk(tree, [], {'func': None, 'in_raise': False, 'in_diag': False})
    return out


def resolve(tree, path):
    parent, node = None, tree
    for field, i in path:
        parent = node
        node = getattr(node, field)
        if i is not None:
            node = node[i]
    return node


def set_at(tree, path, new):
    node = tree
    for field, i in path[:-1]:
        node = getattr(node, field)
        if i is not None:
            node = node[i]
    field, i = path[-1]
    if i is None:
        setattr(node, field, new)
    else:
        getattr(node, field)[i] = new


def apply(src, op, path):
    tree = ast.parse(src)
    path = [tuple(p) for p in path]
    node = resolve(tree, path)
    if op == 'DEL':
        set_at(tree, path, ast.copy_location(ast.Pass(), node))
    elif op == 'RET':
        node.value = ast.Constant(value=None)
    elif op == 'NEG':
        node.test = ast.UnaryOp(op=ast.Not(), operand=node.test)
    elif op == 'BOOL':
        node.op = ast.Or() if isinstance(node.op, ast.And) else ast.And()
    elif op.startswith('CMP'):
        i = int(op[3:])
        node.ops[i] = CMP_SWAP[type(node.ops[i])]()
    elif op == 'CONST':
        v = node.value
        if isinstance(v, bool):
            node.value = not v
        elif isinstance(v, int):
            node.value = v + 1
        else:
            node.value = v + '_'
    elif op == 'ARG':
        node.args[0], node.args[1] = node.args[1], node.args[0]
    elif op == '=EQSW':
        node.left, node.comparators[0] = node.comparators[0], node.left
    elif op == '=NOTIN':
        set_at(tree, path, ast.UnaryOp(op=ast.Not(), operand=ast.Compare(left=node.left, ops=[ast.In()],
                                                                          comparators=node.comparators)))
    elif op == '=DBG':
        parent = resolve(tree, path[:-1] + [(path[-1][0], None)]) if path[-1][1] is not None else None
        dbg = ast.parse("debug.logger & debug.flagCompiler and debug.logger('checkpoint')").body[0]
        if parent is None or not isinstance(parent, list):
            raise ValueError('not in a block')
        parent.insert(path[-1][1] + 1, dbg)
    elif op == '=PASS2':
        node.body, node.orelse = [ast.Pass()], node.body
        node.test = ast.UnaryOp(op=ast.Not(), operand=node.test)
    elif op == '=LISTITER':
        node.iter = ast.Call(func=ast.Name(id='list', ctx=ast.Load()), args=[node.iter], keywords=[])
    ast.fix_missing_locations(tree)
    return ast.unparse(tree) + '\n'


def gen(out, files):
    n = 0
    with open(out, 'w') as f:
        for rel in files:
            src = open(os.path.join(REPO, rel)).read()
            tree = ast.parse(src)
            for op, path, where, ln, text in points(tree):
                if op == '=DBG' and 'from pysmi import debug' not in src:
                    continue
                try:
                    new = apply(src, op, path)
                    compile(new, rel, 'exec')
                except Exception:
                    continue
                f.write(json.dumps({'id': n, 'file': rel, 'op': op, 'path': path, 'where': where, 'line': ln,
                                    'text': text}) + '\n')
                n += 1
    print('%d mutants written to %s' % (n, out))


_scratch = None


def scratch():
    global _scratch
    if _scratch is None:
        _scratch = tempfile.mkdtemp(prefix='pysmi-automut-')
        for top in ('pysmi', 'scripts', 'tests'):
            shutil.copytree(os.path.join(REPO, top), os.path.join(_scratch, top),
                            ignore=shutil.ignore_patterns('__pycache__', '*.pyc'))
        for f in ('setup.py', 'setup.cfg', 'conftest.py', 'pytest.ini', 'tox.ini'):
            if os.path.exists(os.path.join(REPO, f)):
                shutil.copy(os.path.join(REPO, f), os.path.join(_scratch, f))
        import atexit
        atexit.register(shutil.rmtree, _scratch, True)
    return _scratch


GRAMMAR_FILES = ('pysmi/lexer/smi.py', 'pysmi/lexer/base.py', 'pysmi/parser/smi.py', 'pysmi/parser/base.py',
                 'pysmi/parser/dialect.py')
_state = {}


def _consult_map():
    """property -> set of module paths its rules read on the clean tree (measured once per worker)"""
    import contextlib
    import importlib
    import io
    sys.path.insert(0, HERE)
    os.environ['VERIF_NO_EVIDENCE'] = '1'
    from vt import runner
    from vt.model import SourceModel

    class T(dict):
        seen = None

        def __getitem__(self, k):
            self.seen.add(k)
            return dict.__getitem__(self, k)

        def get(self, k, d=None):
            self.seen.add(k)
            return dict.get(self, k, d)

        def items(self):
            self.seen.update(self.keys())
            return dict.items(self)

        def values(self):
            self.seen.update(self.keys())
            return dict.values(self)
    cm = {}
    base = None
    for i in range(1, 21):
        p = 'C%02d' % i
        m = SourceModel(scratch())
        t = T(m.modules)
        t.seen = set()
        m.modules = t
        mod = importlib.import_module('rules.%s' % p)
        with contextlib.redirect_stdout(io.StringIO()):
            runner.run_check(p, list(mod.RULES), 'quick', m, scratch(), mod.EXPLANATION, mod.ASSUMPTIONS)
        cm[p] = set(t.seen)
        if p == 'C17':
            base = m
    return cm, base


def run_one(m):
    """all relevant quick checks on one mutant, inside this worker process (source model rebuilt per mutant; the
    grammar term cache of the clean tree is reused when no lexer/parser file is touched)"""
    import contextlib
    import importlib
    import io
    d = scratch()
    if 'cm' not in _state:
        _state['cm'], _state['base'] = _consult_map()
    from vt import runner
    from vt.model import SourceModel
    target = os.path.join(d, m['file'])
    orig = open(os.path.join(REPO, m['file'])).read()
    fired, errs, first = [], [], ''
    try:
        open(target, 'w').write(apply(orig, m['op'], m['path']))
        model = SourceModel(d)
        if m['file'] not in GRAMMAR_FILES:
            for k in ('_dialects', '_gshapes', '_lexer_model'):
                if k in _state['base'].__dict__:
                    model.__dict__[k] = _state['base'].__dict__[k]
        for i in range(1, 21):
            p = 'C%02d' % i
            if m['file'] not in _state['cm'][p]:
                continue
            buf = io.StringIO()
            try:
                mod = importlib.import_module('rules.%s' % p)
                with contextlib.redirect_stdout(buf):
                    rc = runner.run_check(p, list(mod.RULES), 'quick', model, d, mod.EXPLANATION, mod.ASSUMPTIONS)
            except Exception as e:
                rc = 2
                buf.write('ANALYSIS-ERROR %s' % e)
            if rc == 1:
                fired.append(p)
                lines = [l.strip() for l in buf.getvalue().splitlines() if l.startswith('  ') and
                         not l.startswith('      ')]
                first = first or (lines[0] if lines else '')
            elif rc == 2:
                errs.append(p)
        m = dict(m, fired=fired, errors=errs, first=first[:200])
    except Exception as e:
        m = dict(m, fired=[], errors=['driver: %s' % e], first='')
    finally:
        open(target, 'w').write(orig)
    return m


def suite_one(m):
    d = scratch()
    target = os.path.join(d, m['file'])
    orig = open(os.path.join(REPO, m['file'])).read()
    try:
        open(target, 'w').write(apply(orig, m['op'], m['path']))
        env = dict(os.environ, PYTHONPATH=d)
        try:
            # the pinned baseline has one known collection error (tests/test_objecttype_smiv2_pysnmp.py): that file is
            # left out so that -x stops at the first *real* failure
            p = subprocess.run([PY, '-m', 'pytest', '-q', '-x', '-p', 'no:cacheprovider',
                                '--ignore=tests/test_objecttype_smiv2_pysnmp.py', 'tests'], cwd=d, capture_output=True,
                               text=True, env=env, timeout=300)
            tail = (p.stdout.strip().splitlines() or [''])[-1]
        except subprocess.TimeoutExpired:
            tail = 'timeout'
        m = dict(m, suite=tail[:120], suite_ok=('86 passed' in tail and ' failed' not in tail))
    finally:
        open(target, 'w').write(orig)
    return m


def load(path):
    return [json.loads(l) for l in open(path) if l.strip()]


def main(argv):
    cmd = argv[0]
    if cmd == 'gen':
        global EQUIV
        if '--equivalent' in argv:
            EQUIV = True
            argv = [a for a in argv if a != '--equivalent']
        gen(argv[1], argv[2:] or DEFAULT_FILES)
    elif cmd == 'run':
        ms = load(argv[1])
        with ProcessPoolExecutor(max_workers=int(os.environ.get('JOBS', '16'))) as ex, open(argv[2], 'w') as f:
            for i, r in enumerate(ex.map(run_one, ms, chunksize=4)):
                f.write(json.dumps(r) + '\n')
                if i % 200 == 0:
                    f.flush()
                    print('.. %d/%d' % (i, len(ms)), flush=True)
    elif cmd == 'suite':
        ms = [m for m in load(argv[1]) if not m.get('fired') and not m.get('errors')]
        with ProcessPoolExecutor(max_workers=int(os.environ.get('JOBS', '16'))) as ex, open(argv[2], 'w') as f:
            for i, r in enumerate(ex.map(suite_one, ms, chunksize=2)):
                f.write(json.dumps(r) + '\n')
                if i % 100 == 0:
                    f.flush()
                    print('.. %d/%d' % (i, len(ms)), flush=True)
    elif cmd == 'show':
        ms = load(argv[1])
        by = {}
        for m in ms:
            k = m['file']
            b = by.setdefault(k, {'n': 0, 'checks': 0, 'errors': 0, 'suite_only': 0, 'none': 0, 'unknown': 0})
            b['n'] += 1
            if m.get('fired'):
                b['checks'] += 1
            elif m.get('errors'):
                b['errors'] += 1
            elif 'suite_ok' in m:
                b['suite_only' if not m['suite_ok'] else 'none'] += 1
            else:
                b['unknown'] += 1
        print('%-36s %6s %8s %8s %10s %8s %8s' % ('file', 'n', 'checks', 'an-error', 'suite-only', 'neither', 'n/a'))
        tot = {}
        for k in sorted(by):
            b = by[k]
            print('%-36s %6d %8d %8d %10d %8d %8d' % (k, b['n'], b['checks'], b['errors'], b['suite_only'], b['none'],
                                                      b['unknown']))
            for kk, v in b.items():
                tot[kk] = tot.get(kk, 0) + v
        print('%-36s %6d %8d %8d %10d %8d %8d' % ('TOTAL', tot['n'], tot['checks'], tot['errors'], tot['suite_only'],
                                                  tot['none'], tot['unknown']))
        if '--survivors' in argv:
            for m in ms:
                if not m.get('fired') and not m.get('errors') and m.get('suite_ok', True):
                    print('%s:%s %s %s | %s' % (m['file'], m['line'], m['where'], m['op'], m['text']))


if __name__ == '__main__':
    main(sys.argv[1:])
