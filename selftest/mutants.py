#!/venv/bin/python
"""Sensitivity self-test: hand-written breaking edits ("mutants"), one mechanism each, applied to a scratch copy of
/repo; the check of the named property must report a VIOLATION (exit 1).  A mutant that is not reported is a hole in
the rule set; exit status 1 lists them.  (The mutants are source edits of the *repository copy*; the checks
themselves never match source text.)

  selftest/mutants.py [--props C07 C09 ...]
"""
import json
import os
import shutil
import subprocess
import sys
import tempfile
from concurrent.futures import ThreadPoolExecutor

HERE = os.path.dirname(os.path.dirname(os.path.abspath(__file__)))
REPO = os.environ.get('VERIF_REPO', '/repo')

C = 'pysmi/compiler.py'
P = 'pysmi/parser/smi.py'
L = 'pysmi/lexer/smi.py'
I = 'pysmi/codegen/intermediate.py'
S = 'pysmi/codegen/symtable.py'
J = 'pysmi/codegen/jsondoc.py'
Y = 'pysmi/codegen/pysnmp.py'
T = 'pysmi/codegen/templates/pysnmp/mib-definitions.j2'
B = 'pysmi/codegen/base.py'
WL = 'pysmi/writer/localfile.py'
Z = 'pysmi/reader/zipreader.py'
RL = 'pysmi/reader/localfile.py'
WP = 'pysmi/writer/pyfile.py'

# (name, property, file, old, new)
M = [
    # ---- C01
    ('genoid-name-of-pair', 'C01', I, "out += (el[1],)  # XXX Do we need to create a new object el[0]?\n\n            else:\n                raise error.PySmiSemanticError('unknown datatype for OID: %s' % el)\n\n        return '.'", "out += (el[0],)  # XXX Do we need to create a new object el[0]?\n\n            else:\n                raise error.PySmiSemanticError('unknown datatype for OID: %s' % el)\n\n        return '.'"),
    ('trap-oid-no-zero', 'C01', I, "enterpriseStr + '.0.' + str(value)", "enterpriseStr + '.' + str(value)"),
    ('trap-oid-symtable', 'C01', S, "'oid': enterprise + (0, value),", "'oid': enterprise + (value,),"),
    ('iso-is-zero', 'C01', I, "numericOid += (1,)\n                    continue", "numericOid += (0,)\n                    continue"),
    ('numeric-prepend', 'C01', I, "            else:\n                numericOid += (part,)", "            else:\n                numericOid = (part,) + numericOid"),
    ('no-drain-after-reg', 'C01', S, "            self._symsOrder.append(symbol)\n            self.regPostponedSyms()", "            self._symsOrder.append(symbol)"),
    ('single-pass-drain', 'C01', S, "        if regedSyms:\n            self.regPostponedSyms()\n", ""),
    ('oids-not-collected', 'C01', I, "            self._oids.add(outDict['oid'])\n", "            pass\n"),
    # ---- C02
    ('swap-clause-parts', 'C02', P, "                p[4],  # status\n                (p[5], p[6]),  # description\n                p[7],  # reference\n                p[10])  # objectIdentifier", "                p[7],  # status\n                (p[5], p[6]),  # description\n                p[4],  # reference\n                p[10])  # objectIdentifier"),
    ('list-reversed', 'C02', P, "        \"\"\"NamedBits : NamedBits ',' NamedBit\n                     | NamedBit\"\"\"\n        n = len(p)\n        if n == 4:\n            p[0] = p[1] + [p[3]]", "        \"\"\"NamedBits : NamedBits ',' NamedBit\n                     | NamedBit\"\"\"\n        n = len(p)\n        if n == 4:\n            p[0] = [p[3]] + p[1]"),
    ('drop-units', 'C02', P, "                p[5],  # UnitsPart\n", "                None,  # UnitsPart\n"),
    ('text-strip-one-quote', 'C02', P, "        \"\"\"Text : QUOTED_STRING\"\"\"\n        p[0] = p[1][1:-1]", "        \"\"\"Text : QUOTED_STRING\"\"\"\n        p[0] = p[1][1:]"),
    ('comment-returns-token', 'C02', L, "        r'[^\\r\\n]+'\n        pass", "        r'[^\\r\\n]+'\n        return t"),
    ('status-action-lost', 'C02', P, "        \"\"\"Status : LOWERCASE_IDENTIFIER\"\"\"\n        p[0] = ('Status', p[1])", "        \"\"\"Status : LOWERCASE_IDENTIFIER\"\"\"\n        pass"),
    ('defval-truthiness', 'C02', P, "if p[1] and p[3] is not None:", "if p[1] and p[3]:"),
    # ---- C03
    ('double-registration', 'C03', I, "        self.regSym(name, outDict, parentOid)\n\n        return outDict\n\n    # noinspection PyUnusedLocal\n    def genObjectType", "        self.regSym(name, outDict, parentOid)\n        self.regSym(name, outDict, parentOid)\n\n        return outDict\n\n    # noinspection PyUnusedLocal\n    def genObjectType"),
    ('conditional-registration', 'C03', I, "        outDict['class'] = 'objectidentity'\n\n        self.regSym(name, outDict, parentOid)", "        outDict['class'] = 'objectidentity'\n\n        if parentOid:\n            self.regSym(name, outDict, parentOid)"),
    ('class-typo', 'C03', I, "outDict['class'] = 'notificationgroup'", "outDict['class'] = 'notificationgrp'"),
    ('swap-status-maxaccess', 'C03', I, "name, syntax, units, maxaccess, status, description, reference, augmention, index, defval, oid = data\n\n        label", "name, syntax, units, status, maxaccess, description, reference, augmention, index, defval, oid = data\n\n        label"),
    ('emit-from-out', 'C03', I, "for sym in self.symbolTable[self.moduleName[0]]['_symtable_order']:", "for sym in self._out:"),
    # ---- C04
    ('export-drops-tc', 'C04', T, "'objectidentity', 'textualconvention',\n                                  'type') %}", "'objectidentity',\n                                  'type') %}"),
    ('template-reads-wrong-key', 'C04', T, "{{ symbol|replace('-', '_') }}.setMaxAccess(\"{{ definition['maxaccess'] }}\")\n    {% elif definition['nodetype'] == 'table' %}", "{{ symbol|replace('-', '_') }}.setMaxAccess(\"{{ definition['access'] }}\")\n    {% elif definition['nodetype'] == 'table' %}"),
    ('narrow-template-error', 'C04', Y, "except jinja2.exceptions.TemplateError:", "except jinja2.exceptions.TemplateSyntaxError:"),
    ('no-translate-oids', 'C04', Y, "        translateOids(context)\n", ""),
    ('defval-format-renamed', 'C04', I, "format='enum'\n                        )\n\n                # good MIB", "format='enumeration'\n                        )\n\n                # good MIB"),
    # ---- C05
    ('number-boundary', 'C05', L, "if val <= UNSIGNED32_MAX:", "if val < UNSIGNED32_MAX:"),
    ('value-drops-number64', 'C05', P, "                 | NEGATIVENUMBER64\n                 | NUMBER64\n                 | HEX_STRING", "                 | NEGATIVENUMBER64\n                 | HEX_STRING"),
    ('swap-bases', 'C05', B, "return int(s[1:-2], 2)", "return int(s[1:-2], 16)"),
    ('swap-min-max', 'C05', I, "            ran['min'] = vmin\n            ran['max'] = vmax", "            ran['min'] = vmax\n            ran['max'] = vmin"),
    ('basetype-own-module', 'C05', I, "baseSymType, baseSymSubtype = self.getBaseType(*symType)", "baseSymType, baseSymSubtype = self.getBaseType(symType[0], self.moduleName[0])"),
    ('inplace-subtype', 'C05', I, "symSubtype = symSubtype + baseSymSubtype", "symSubtype += baseSymSubtype"),
    ('record-vs-string', 'C05', I, "defvalType[0][0] != 'OctetString'", "defvalType != 'OctetString'"),
    # ---- C06
    ('objects-not-normalised', 'C06', I, "return [self.transOpers(obj) for obj in data[0]]", "return [obj for obj in data[0]]"),
    ('objects-reversed', 'C06', I, "return [self.transOpers(obj) for obj in data[0]]", "return [self.transOpers(obj) for obj in reversed(data[0])]"),
    ('index-swap-pair', 'C06', I, "            isImplied = idx[0]\n            idxName = idx[1]", "            isImplied = idx[1]\n            idxName = idx[0]"),
    ('index-raw-name', 'C06', I, "            else:\n                idxName = self.transOpers(idxName)\n", ""),
    ('compliance-default-module', 'C06', I, "name = complianceModule[0] or self.moduleName[0]", "name = complianceModule[0] or 'SNMPv2-CONF'"),
    # ---- C07
    ('narrow-handler', 'C07', C, "                except error.PySmiError:\n                    exc_class, exc, tb = sys.exc_info()\n                    exc.source = source", "                except error.PySmiReaderError:\n                    exc_class, exc, tb = sys.exc_info()\n                    exc.source = source"),
    ('drop-failed-status', 'C07', C, "                processed[mibname] = statusFailed.setOptions(error=exc)\n\n                failedMibs[mibname] = exc\n                del parsedMibs[mibname]", "                failedMibs[mibname] = exc\n                del parsedMibs[mibname]"),
    ('compiled-before-put', 'C07', C, "                if options.get('writeMibs', True):\n                    self._writer.putData(\n                        mibname, mibData, dryRun=options.get('dryRun')\n                    )\n", "                processed[mibname] = statusCompiled\n                if options.get('writeMibs', True):\n                    self._writer.putData(\n                        mibname, mibData, dryRun=options.get('dryRun')\n                    )\n"),
    ('handler-reraises', 'C07', C, "                debug.logger & debug.flagCompiler and debug.logger('error from %s: %s' % (self._codegen, exc))\n", "                debug.logger & debug.flagCompiler and debug.logger('error from %s: %s' % (self._codegen, exc))\n                if options.get('strict'):\n                    raise\n"),
    ('stale-failed', 'C07', C, "                                processed.pop(foundName, None)\n", ""),
    ('raise-valueerror', 'C07', I, "raise error.PySmiSemanticError('Duplicate module identity')", "raise ValueError('Duplicate module identity')"),
    # ---- C08
    ('no-break', 'C08', C, "                            mibInfo.name, mibname, fileInfo.path, ', '.join(mibInfo.imported) or '<none>'))\n\n                    break", "                            mibInfo.name, mibname, fileInfo.path, ', '.join(mibInfo.imported) or '<none>'))\n"),
    ('no-seen-record', 'C08', C, "            fetchedMibs.add(mibname)\n", ""),
    ('sources-front-insert', 'C08', C, "        self._sources.extend(sources)", "        self._sources[0:0] = sources"),
    ('imports-first-only', 'C08', C, "mibsToParse.extend(mibInfo.imported)", "mibsToParse.extend(mibInfo.imported[:1])"),
    # ---- C09
    ('guard-or', 'C09', C, "if failedMibs and not options.get('ignoreErrors'):", "if failedMibs or not options.get('ignoreErrors'):"),
    ('guard-no-not', 'C09', C, "if failedMibs and not options.get('ignoreErrors'):", "if failedMibs and options.get('ignoreErrors'):"),
    ('guard-no-return', 'C09', C, "                processed[mibname] = statusUnprocessed\n\n            return processed\n", "                processed[mibname] = statusUnprocessed\n"),
    ('mark-failed-only', 'C09', C, "            for mibname in builtMibs:\n                processed[mibname] = statusUnprocessed", "            for mibname in failedMibs:\n                processed[mibname] = statusUnprocessed"),
    # ---- C10
    ('fresh-strict', 'C10', 'pysmi/searcher/anyfile.py', "if fileTime >= mtime:", "if fileTime > mtime:"),
    ('fresh-vs-now', 'C10', 'pysmi/searcher/anyfile.py', "if fileTime >= mtime:", "if fileTime >= time.time():"),
    ('untouched-no-break', 'C10', C, "                    del parsedMibs[mibname]\n                    processed[mibname] = statusUntouched\n                    break", "                    del parsedMibs[mibname]\n                    processed[mibname] = statusUntouched\n                    continue"),
    ('stub-honours-rebuild', 'C10', 'pysmi/searcher/stub.py', "        if mibname in self._mibnames:", "        if not rebuild and mibname in self._mibnames:"),
    ('stat-index', 'C10', 'pysmi/searcher/anyfile.py', "fileTime = os.stat(f)[8]", "fileTime = os.stat(f)[7]"),
    ('nodeps-always', 'C10', C, "                if (options.get('noDeps') and mibname not in canonicalMibNames and\n                        mibname not in mibnames):\n                    debug.logger & debug.flagCompiler and debug.logger(\n                        'excluding imported MIB %s from code generation' % mibname)", "                if (mibname not in canonicalMibNames and\n                        mibname not in mibnames):\n                    debug.logger & debug.flagCompiler and debug.logger(\n                        'excluding imported MIB %s from code generation' % mibname)"),
    # ---- C11
    ('lexer-valueerror', 'C11', L, "raise error.PySmiLexerError(\"%s is forbidden\" % t.value, lineno=t.lineno)", "raise ValueError(\"%s is forbidden\" % t.value)"),
    ('no-lineno', 'C11', L, "raise error.PySmiLexerError(\"%s is forbidden\" % t.value, lineno=t.lineno)", "raise error.PySmiLexerError(\"%s is forbidden\" % t.value)"),
    ('quoted-lineno-plus-one', 'C11', L, "        t.lexer.lineno += len(re.findall(r'\\r\\n|\\n|\\r', t.value))\n        return t", "        t.lexer.lineno += 1\n        return t"),
    ('p-error-silent-eof', 'C11', P, "        raise error.PySmiParserError(\"Unexpected end of input\",\n                                     lineno=self.lexer.lexer.lineno)\n", ""),
    ('macro-no-error-rule', 'C11', L, "t_macro_error = t_choice_error = t_exports_error = t_comment_error = t_error", "t_choice_error = t_exports_error = t_comment_error = t_error"),
    ('parse-swallows', 'C11', P, "        finally:\n            self.reset()\n", "        except Exception:\n            self.reset()\n            return []\n\n        self.reset()\n"),
    # ---- C12
    ('no-revision-reset', 'C12', I, "        self._moduleIdentityOid = None\n        self._moduleRevision = None\n        self._enterpriseOid = None\n        self.fakeidx", "        self._moduleIdentityOid = None\n        self._enterpriseOid = None\n        self.fakeidx"),
    ('out-cleared-in-place', 'C12', S, "        self._out = {}  # should be new object, do not use `clear` method", "        self._out.clear()"),
    ('set-to-list', 'C12', I, "            for symbol in sorted(set(imports[module])):", "            for symbol in set(imports[module]):"),
    ('reset-only-on-success', 'C12', P, "        try:\n            ast = self.parser.parse(data, lexer=self.lexer.lexer)\n\n        finally:\n            self.reset()", "        ast = self.parser.parse(data, lexer=self.lexer.lexer)\n\n        self.reset()"),
    # ---- C13
    ('write-to-destination', 'C13', WL, "            os.rename(tfile, filename)", "            shutil_copy = open(filename, 'wb'); shutil_copy.write(encode(data)); shutil_copy.close()\n            os.rename(tfile, filename)"),
    ('tmp-elsewhere', 'C13', WL, "tempfile.mkstemp(dir=self._path)", "tempfile.mkstemp()"),
    ('no-unlink', 'C13', WP, "            if tfile and os.access(tfile, os.F_OK):\n                os.unlink(tfile)\n", ""),
    ('dryrun-after-makedirs', 'C13', WL, "        if dryRun:\n            debug.logger & debug.flagWriter and debug.logger('dry run mode')\n            return\n\n        if not os.path.exists(self._path):\n            try:\n                os.makedirs(self._path)\n\n            except OSError:\n                raise error.PySmiWriterError(\n                    'failure creating destination directory %s: %s' % (self._path, sys.exc_info()[1]), writer=self)\n", "        if not os.path.exists(self._path):\n            try:\n                os.makedirs(self._path)\n\n            except OSError:\n                raise error.PySmiWriterError(\n                    'failure creating destination directory %s: %s' % (self._path, sys.exc_info()[1]), writer=self)\n\n        if dryRun:\n            debug.logger & debug.flagWriter and debug.logger('dry run mode')\n            return\n"),
    ('bare-write', 'C13', WP, "            buf = encode(data)\n            while buf:\n                buf = buf[os.write(fd, buf):]", "            os.write(fd, encode(data))"),
    ('narrow-oserror', 'C13', WL, "        except (OSError, IOError, UnicodeEncodeError):\n            exc = sys.exc_info()", "        except (UnicodeEncodeError,):\n            exc = sys.exc_info()"),
    # ---- C14
    ('stat-other-path', 'C14', 'pysmi/reader/localfile.py', "mtime = os.stat(f)[8]", "mtime = os.stat(path)[8]"),
    ('no-final-raise', 'C14', 'pysmi/reader/zipreader.py', "            return MibInfo(path='zip://%s/%s' % (self._name, mibfile),\n                           file=mibfile, name=mibalias, mtime=mtime), decode(mibData)\n\n        raise error.PySmiReaderFileNotFoundError('source MIB %s not found' % mibname, reader=self)", "            return MibInfo(path='zip://%s/%s' % (self._name, mibfile),\n                           file=mibfile, name=mibalias, mtime=mtime), decode(mibData)\n\n        return None, ''"),
    ('https-port-80', 'C14', 'pysmi/reader/url.py', "(mibSource.scheme == 'https' and 443 or 80)", "80"),
    ('ssl-always', 'C14', 'pysmi/reader/url.py', "ssl=mibSource.scheme == 'https'", "ssl=True"),
    ('upper-always', 'C14', 'pysmi/reader/base.py', "        if self.uppercaseMatching:\n            filenames.append(mibname.upper())", "        filenames.append(mibname.upper())"),
    # ---- C15
    ('text-unguarded', 'C15', I, "        if self.genRules['text'] and description:\n            outDict['description'] = description\n\n        if self.genRules['text'] and reference:\n            outDict['reference'] = reference\n\n        self.regSym(name, outDict, parentOid)\n\n        return outDict\n\n    # noinspection PyUnusedLocal\n    def genModuleIdentity", "        if description:\n            outDict['description'] = description\n\n        if self.genRules['text'] and reference:\n            outDict['reference'] = reference\n\n        self.regSym(name, outDict, parentOid)\n\n        return outDict\n\n    # noinspection PyUnusedLocal\n    def genModuleIdentity"),
    ('texts-default-on', 'C15', I, "self.genRules['text'] = kwargs.get('genTexts', False)", "self.genRules['text'] = kwargs.get('genTexts', True)"),
    ('handler-strips', 'C15', I, "return self.textFilter('description', data[0])", "return self.textFilter('description', data[0].strip())"),
    # ---- C16
    ('gauge-alias-lost', 'C16', L, "        elif w == 'Gauge':\n            reserved[w] = 'GAUGE32'\n\n    forbidden_words", "\n    forbidden_words"),
    ('type-table-diverges', 'C16', S, "'Counter': 'Counter32',\n        'Gauge': 'Gauge32',", "'Counter': 'Counter64',\n        'Gauge': 'Gauge32',"),
    ('import-target-wrong', 'C16', B, "'ifIndex': [('IF-MIB', 'ifIndex')]", "'ifIndex': [('IP-MIB', 'ifIndex')]"),
    # ---- C17
    ('relaxation-drops-base-alt', 'C17', P, "        \"\"\"importIdentifiers : importIdentifiers ',' importIdentifier\n                             | importIdentifier\n                             | importIdentifiers ','\"\"\"", "        \"\"\"importIdentifiers : importIdentifiers ',' importIdentifier\n                             | importIdentifiers ','\"\"\""),
    ('relaxed-action-differs', 'C17', P, "        elif n == 3:  # excessive comma case\n            p[0] = p[1]\n\n\n# noinspection PyIncorrectDocstring\nclass CommaInSequence", "        elif n == 3:  # excessive comma case\n            p[0] = p[1] + [None]\n\n\n# noinspection PyIncorrectDocstring\nclass CommaInSequence"),
    ('unknown-option-ignored', 'C17', P, "            if option not in relaxedGrammar:\n                raise error.PySmiError('Unknown parser relaxation option: %s' % option)", "            if option not in relaxedGrammar:\n                continue"),
    ('v1-reserved-word-lost', 'C17', L, "'MODULE-IDENTITY', 'NetworkAddress', 'NOTIFICATION-GROUP',\n            'NOTIFICATION-TYPE', 'NOTIFICATIONS', 'OBJECT', 'OBJECT-GROUP',", "'MODULE-IDENTITY', 'NetworkAddress',\n            'NOTIFICATION-TYPE', 'NOTIFICATIONS', 'OBJECT', 'OBJECT-GROUP',"),
    # ---- C18
    ('textual-prefix', 'C18', J, "(oid == oid_prefix or oid.startswith(oid_prefix + '.'))", "oid.startswith(oid_prefix)"),
    ('section-rebuilt', 'C18', J, "            modData = outDict['enterprise']\n", "            outDict['enterprise'] = {}\n            modData = outDict['enterprise']\n"),
    ('lists-not-deduplicated', 'C18', J, "for e in sorted(set(top)):", "for e in sorted(top):"),
    # ---- C19
    ('borrow-from-parsed', 'C19', C, "        for mibname in failedMibs.copy():\n            if (options.get('noDeps')", "        for mibname in parsedMibs.copy():\n            if (options.get('noDeps')"),
    ('borrowed-text-changed', 'C19', C, "borrowedMibs[mibname] = fileInfo, MibInfo(name=mibname, imported=[]), fileData", "borrowedMibs[mibname] = fileInfo, MibInfo(name=mibname, imported=[]), fileData.strip()"),
    ('flavour-after-read', 'C19', 'pysmi/borrower/base.py', "        if bool(options.get('genTexts')) != self.genTexts:\n            debug.logger & debug.flagBorrower and debug.logger(\n                'skipping incompatible borrower %s for file %s' % (self, mibname))\n            raise error.PySmiFileNotFoundError(mibname=mibname, reader=self._reader)\n", ""),
    ('borrow-no-break', 'C19', C, "                    debug.logger & debug.flagCompiler and debug.logger('%s borrowed with %s' % (mibname, borrower))\n                    break", "                    debug.logger & debug.flagCompiler and debug.logger('%s borrowed with %s' % (mibname, borrower))"),
    # ---- C20
    ('failed-exit-zero', 'C20', 'scripts/mibdump.py', "EX_MIB_FAILED = 79", "EX_MIB_FAILED = 0"),
    ('failed-test-dropped', 'C20', 'scripts/mibdump.py', "    if any(x for x in processed.values() if x == 'failed'):\n        exitCode = EX_MIB_FAILED\n", ""),
    ('mibcopy-strict-skip', 'C20', 'scripts/mibcopy.py', "if dstMibRevision >= srcMibRevision:", "if dstMibRevision > srcMibRevision:"),
    ('dryrun-not-passed', 'C20', 'scripts/mibdump.py', "                           dryRun=dryrunFlag,\n                           dstTemplate", "                           dryRun=False,\n                           dstTemplate"),
    ('usage-exit-ok', 'C20', 'scripts/mibdump.py', "    sys.stderr.write('ERROR: MIB modules names not specified\\r\\n%s\\r\\n' % helpMessage)\n    sys.exit(EX_USAGE)", "    sys.stderr.write('ERROR: MIB modules names not specified\\r\\n%s\\r\\n' % helpMessage)\n    sys.exit(EX_OK)"),
    # ---- rules added after round 2
    ('cbwriter-args-swapped', 'C13', 'pysmi/writer/callback.py', "self._cbFun(mibname, data, self._cbCtx)", "self._cbFun(data, mibname, self._cbCtx)"),
    ('cbwriter-narrow-except', 'C13', 'pysmi/writer/callback.py', "        except Exception:\n            raise error.PySmiWriterError(", "        except KeyError:\n            raise error.PySmiWriterError("),
    ('pkg-searcher-drops-rebuild', 'C10', 'pysmi/searcher/pypackage.py', ".fileExists(mibname, mtime, rebuild=rebuild)", ".fileExists(mibname, mtime)"),
    ('zip-mibinfo-alias-file-swapped', 'C14', 'pysmi/reader/zipreader.py', "file=mibfile, name=mibalias", "file=mibalias, name=mibfile"),
    ('http-mibinfo-wrong-name', 'C14', 'pysmi/reader/httpclient.py', "name=mibalias", "name=mibname"),
    ('cbreader-ctx-dropped', 'C14', 'pysmi/reader/callback.py', "self._cbFun(mibname, self._cbCtx)", "self._cbFun(mibname, None)"),
    ('mibdump-json-suffix-mismatch', 'C20', 'scripts/mibdump.py', "fileWriter = FileWriter(dstDirectory).setOptions(suffix='.json')", "fileWriter = FileWriter(dstDirectory).setOptions(suffix='.js')"),
    ('mibdump-searcher-other-dir', 'C20', 'scripts/mibdump.py', "searchers = [PyFileSearcher(dstDirectory)]", "searchers = [PyFileSearcher(os.path.join(dstDirectory, 'x'))]"),
    # ---- rules added after round 3
    ('pywriter-compile-failure-keeps-file', 'C13', 'pysmi/writer/pyfile.py', "                if pyfile and os.access(pyfile, os.F_OK):\n                    os.unlink(pyfile)\n\n                raise error.PySmiWriterError('failure compiling", "                raise error.PySmiWriterError('failure compiling"),
    ('pywriter-compile-failure-keeps-file-c20', 'C20', 'pysmi/writer/pyfile.py', "                if pyfile and os.access(pyfile, os.F_OK):\n                    os.unlink(pyfile)\n\n                raise error.PySmiWriterError('failure compiling", "                raise error.PySmiWriterError('failure compiling"),
    ('maxaccess-only-with-texts', 'C15', I, "        if maxaccess:\n            outDict['maxaccess'] = maxaccess\n        if indexStr:", "        if maxaccess and self.genRules['text']:\n            outDict['maxaccess'] = maxaccess\n        if indexStr:"),
    ('maxaccess-only-with-texts-c03', 'C03', I, "        if maxaccess:\n            outDict['maxaccess'] = maxaccess\n        if indexStr:", "        if maxaccess and self.genRules['text']:\n            outDict['maxaccess'] = maxaccess\n        if indexStr:"),
    ('single-value-ranges-skipped', 'C05', I, "            ran['max'] = vmax\n            ranges.append(ran)", "            ran['max'] = vmax\n            if vmin != vmax:\n                ranges.append(ran)"),
    ('revisions-newest-only', 'C03', I, "            revisions.append(revision)\n", "            revisions.append(revision)\n            break\n"),
    ('regsym-args-swapped', 'C03', I, "        outDict['class'] = 'objectidentity'\n\n        self.regSym(name, outDict, parentOid)", "        outDict['class'] = 'objectidentity'\n\n        self.regSym(outDict, name, parentOid)"),
    ('ir-type-name-untranslated', 'C16', I, "        outDict['type'] = objType\n        outDict['class'] = 'type'\n\n        if subtype:\n            outDict['constraints'] = subtype\n\n        return 'scalar', outDict", "        outDict['type'] = data[0]\n        outDict['class'] = 'type'\n\n        if subtype:\n            outDict['constraints'] = subtype\n\n        return 'scalar', outDict"),
    ('p-error-strips-value', 'C11', P, '"Bad grammar near token type %s, value %s" % (p.type, p.value)', '"Bad grammar near token type %s, value %s" % (p.type, p.value.strip())'),
    ('zip-path-not-decoded', 'C14', 'pysmi/reader/url.py', "readers.append(ZipReader(filePath).setOptions(**options))", "readers.append(ZipReader(mibSource.path).setOptions(**options))"),
    ('hex-guard-off-by-one', 'C05', I, "len(defval) > 3 and", "len(defval) >= 3 and"),
    ('compliance-groups-dedup', 'C06', I, "        return compliances\n", "        return sorted(set(compliances))\n"),
    ('toDel-inline-remove', 'C16', S, "                        toDel.append((module, symbol))", "                        imports[module].remove(symbol)"),
    # ---- rules added after the systematic mutation run (selftest/automut.py)
    ('objectidentity-status-negated', 'C03', I, "        outDict['class'] = 'objectidentity'\n\n        if status:", "        outDict['class'] = 'objectidentity'\n\n        if not status:"),
    ('objectidentity-status-dropped', 'C03', I, "        outDict['class'] = 'objectidentity'\n\n        if status:\n            outDict['status'] = status\n", "        outDict['class'] = 'objectidentity'\n"),
    ('objectidentity-description-or', 'C15', I, "        outDict['class'] = 'objectidentity'\n\n        if status:\n            outDict['status'] = status\n\n        if self.genRules['text'] and description:", "        outDict['class'] = 'objectidentity'\n\n        if status:\n            outDict['status'] = status\n\n        if self.genRules['text'] or description:"),
    ('codegen-failure-not-in-failed-map', 'C07', C, "                processed[mibname] = statusFailed.setOptions(error=exc)\n\n                failedMibs[mibname] = exc\n                del parsedMibs[mibname]", "                processed[mibname] = statusFailed.setOptions(error=exc)\n\n                del parsedMibs[mibname]"),
    ('codegen-failure-not-in-failed-map-c09', 'C09', C, "                processed[mibname] = statusFailed.setOptions(error=exc)\n\n                failedMibs[mibname] = exc\n                del parsedMibs[mibname]", "                processed[mibname] = statusFailed.setOptions(error=exc)\n\n                del parsedMibs[mibname]"),
    ('writeMibs-negated', 'C13', C, "if options.get('writeMibs', True):", "if not options.get('writeMibs', True):"),
    ('writeMibs-negated-c09', 'C09', C, "if options.get('writeMibs', True):", "if not options.get('writeMibs', True):"),
    ('index-args-swapped', 'C18', C, "                self.indexFile,\n                self._codegen.genIndex(\n                    processedMibs,\n                    comments=comments,\n                    old_index_data=self._writer.getData(self.indexFile)\n                ),", "                self._codegen.genIndex(\n                    processedMibs,\n                    comments=comments,\n                    old_index_data=self._writer.getData(self.indexFile)\n                ),\n                self.indexFile,"),
    ('index-ignoreErrors-negated', 'C18', C, "            if options.get('ignoreErrors'):\n                return\n\n            if hasattr(exc, 'with_traceback'):", "            if not options.get('ignoreErrors'):\n                return\n\n            if hasattr(exc, 'with_traceback'):"),
    # ---- round 4: typestate analysis of compile() and the rules added after the round-4 seeds (different sites)
    ('ts-compiled-overwrites-borrowed', 'C19', C, "                if mibname not in processed:\n                    processed[mibname] = statusCompiled.setOptions(", "                if True:\n                    processed[mibname] = statusCompiled.setOptions("),
    ('ts-fresh-module-still-generated', 'C10', C, "                    del parsedMibs[mibname]\n                    processed[mibname] = statusUntouched\n                    break\n\n                except error.PySmiError:\n                    exc_class, exc, tb = sys.exc_info()\n                    exc.searcher = searcher\n                    exc.mibname = mibname\n                    exc.msg += ' at MIB %s' % mibname\n                    debug.logger & debug.flagCompiler and debug.logger('error from %s: %s' % (searcher, exc))\n                    continue\n", "                    processed[mibname] = statusUntouched\n                    break\n\n                except error.PySmiError:\n                    exc_class, exc, tb = sys.exc_info()\n                    exc.searcher = searcher\n                    exc.mibname = mibname\n                    exc.msg += ' at MIB %s' % mibname\n                    debug.logger & debug.flagCompiler and debug.logger('error from %s: %s' % (searcher, exc))\n                    continue\n"),
    ('ts-missing-not-in-failed-map', 'C09', C, "                if mibname not in failedMibs:\n                    failedMibs[mibname] = exc\n\n                if mibname not in processed:\n                    processed[mibname] = statusMissing\n", "                if mibname not in processed:\n                    processed[mibname] = statusMissing\n"),
    ('ts-built-under-file-name', 'C07', C, "                builtMibs[mibname] = fileInfo, mibInfo, mibData\n                del parsedMibs[mibname]\n", "                builtMibs[fileInfo.name] = fileInfo, mibInfo, mibData\n                del parsedMibs[mibname]\n"),
    ('ts-symboltable-under-requested-name', 'C07', C, "symbolTableMap[mibInfo.name] = symbolTable", "symbolTableMap[mibname] = symbolTable"),
    ('searcher-skipped-when-failed-before', 'C10', C, "            for searcher in self._searchers:\n                try:\n                    searcher.fileExists(mibname, fileInfo.mtime, rebuild=options.get('rebuild'))\n\n                except error.PySmiFileNotFoundError:\n                    debug.logger & debug.flagCompiler and debug.logger(\n                        'no compiled MIB %s available through %s' % (mibname, searcher))\n                    continue\n\n                except error.PySmiFileNotModifiedError:\n                    debug.logger & debug.flagCompiler and debug.logger(\n                        'will be using existing compiled MIB %s found by %s' % (mibname, searcher))\n                    del parsedMibs[mibname]", "            for searcher in self._searchers:\n                if getattr(searcher, 'broken', False):\n                    continue\n                try:\n                    searcher.fileExists(mibname, fileInfo.mtime, rebuild=options.get('rebuild'))\n\n                except error.PySmiFileNotFoundError:\n                    debug.logger & debug.flagCompiler and debug.logger(\n                        'no compiled MIB %s available through %s' % (mibname, searcher))\n                    continue\n\n                except error.PySmiFileNotModifiedError:\n                    debug.logger & debug.flagCompiler and debug.logger(\n                        'will be using existing compiled MIB %s found by %s' % (mibname, searcher))\n                    del parsedMibs[mibname]"),
    ('pyfile-empty-text-not-stored', 'C13', WP, "        if dryRun:\n            debug.logger & debug.flagWriter and debug.logger('dry run mode')\n            return\n", "        if dryRun:\n            debug.logger & debug.flagWriter and debug.logger('dry run mode')\n            return\n\n        if not data:\n            return\n"),
    ('p-error-first-word', 'C11', P, '"Bad grammar near token type %s, value %s" % (p.type, p.value)', '"Bad grammar near token type %s, value %s" % (p.type, str(p.value).split()[0])'),
    ('lexer-trusts-cached-table', 'C17', L, "                                 outputdir=self._tempdir,\n                                 debuglog=debuglogger,\n                                 errorlog=logger)", "                                 outputdir=self._tempdir,\n                                 optimize=bool(self._tempdir),\n                                 debuglog=debuglogger,\n                                 errorlog=logger)"),
    ('symboltable-kept-when-empty', 'C12', I, "        self.symbolTable = symbolTable\n        self._rows.clear()", "        if symbolTable:\n            self.symbolTable = symbolTable\n        self._rows.clear()"),
    ('ir-names-lowercased', 'C03', I, "        return symbol.replace('-', '_')\n\n    def prepData(self, pdata):\n        data = []\n        for el in pdata:\n            if not isinstance(el, tuple):\n                data.append(el)\n            elif len(el) == 1:\n                data.append(el[0])\n            else:\n                data.append(\n                    self.handlersTable[el[0]](self, self.prepData(el[1:]))\n                )\n        return data\n\n    def genImports", "        return symbol.replace('-', '_').replace('.', '_')\n\n    def prepData(self, pdata):\n        data = []\n        for el in pdata:\n            if not isinstance(el, tuple):\n                data.append(el)\n            elif len(el) == 1:\n                data.append(el[0])\n            else:\n                data.append(\n                    self.handlersTable[el[0]](self, self.prepData(el[1:]))\n                )\n        return data\n\n    def genImports"),
    ('range-min-max-swapped-in-template', 'C05', T, "ValueRangeConstraint({{ range['min'] }}, {{ range['max'] }}),", "ValueRangeConstraint({{ range['max'] }}, {{ range['min'] }}),"),
    ('augmenting-row-registered-under-target', 'C06', T, "{{ definition['augmention']['object'] }}.registerAugmentions(\n    (\"{{ mib['meta']['module'] }}\",", "{{ definition['augmention']['object'] }}.registerAugmentions(\n    (\"{{ definition['augmention']['object'] }}\","),
    ('action-value-from-parser-object', 'C02', P, "        \"\"\"Status : LOWERCASE_IDENTIFIER\"\"\"\n        p[0] = ('Status', p[1])", "        \"\"\"Status : LOWERCASE_IDENTIFIER\"\"\"\n        p[0] = self.statusNode or ('Status', p[1])"),
    ('symtable-parentoids-not-reset-c07', 'C07', S, "        self._parentOids.clear()\n", ""),
    ('setoptions-on-shared-constant-c12', 'C12', C, "        n = self.__class__(self)\n", "        n = self\n"),
    ('reader-text-mode-c19', 'C19', 'pysmi/reader/localfile.py', "open(f, mode='rb')", "open(f, mode='r')"),
    ('reader-mtime-float-c10', 'C10', 'pysmi/reader/localfile.py', "mtime = os.stat(f)[8]", "mtime = os.stat(f).st_mtime"),
    ('writer-temp-outside-destination-c20', 'C20', WL, "tempfile.mkstemp(dir=self._path)", "tempfile.mkstemp()"),
    ('template-middle-pair-without-comma', 'C04', T, "          (\"{{ name}}\", {{ iden }}),\n        {% endif %}\n    {% endfor %}\n    )\n    {% elif 'range' in spec %}", "          (\"{{ name}}\", {{ iden }})\n        {% endif %}\n    {% endfor %}\n    )\n    {% elif 'range' in spec %}"),
    ('template-last-pair-unbalanced', 'C04', T, "          (\"{{ name}}\", {{ iden }}))\n        {% else %}\n          (\"{{ name}}\", {{ iden }}),\n        {% endif %}\n    {% endfor %}\n    )\n    {% elif 'range' in spec %}", "          (\"{{ name}}\", {{ iden }})\n        {% else %}\n          (\"{{ name}}\", {{ iden }}),\n        {% endif %}\n    {% endfor %}\n    )\n    {% elif 'range' in spec %}"),
    # ---- round 5
    ('class-table-extended-in-place', 'C12', I, "        self.symbolTable = symbolTable\n        self._rows.clear()", "        table = IntermediateCodeGen.SMI_TYPES\n        table.setdefault('Unsigned', 'Unsigned32')\n        self.symbolTable = symbolTable\n        self._rows.clear()"),
    ('error-message-arity', 'C07', C, "raise error.PySmiError('no MIB module found in %s' % fileInfo.path)", "raise error.PySmiError('no MIB module found in %s (%s)' % fileInfo.path)"),
    ('adapter-drops-status', 'C04', Y, "        translateOids(context)\n", "        translateOids(context)\n\n        for definition in context.values():\n            definition.pop('status', None)\n"),
    ('rendered-text-edited', 'C04', Y, "            text = tmpl.render(mib=context)\n", "            text = tmpl.render(mib=context)\n            text = text.rstrip() + '\\n'\n"),
    ('package-import-empty-fromlist', 'C10', 'pysmi/searcher/pypackage.py', "p = __import__(self._package, globals(), locals(), ['__init__'])", "p = __import__(self._package, globals(), locals(), [])"),
    ('mibcopy-repositories-first', 'C20', 'scripts/mibcopy.py', "        FileReader(mibDir, recursive=False, ignoreErrors=ignoreErrorsFlag),\n        *getReadersFromUrls(*mibSources)\n", "        *(getReadersFromUrls(*mibSources) + [FileReader(mibDir, recursive=False, ignoreErrors=ignoreErrorsFlag)])\n"),
    ('missing-name-reported-untouched', 'C09', C, "                if mibname not in processed:\n                    processed[mibname] = statusMissing\n", "                if mibname not in processed:\n                    processed[mibname] = statusUntouched\n"),
    ('dsttemplate-option-key-misspelt', 'C20', C, "dstTemplate=options.get('dstTemplate'),", "dstTemplate=options.get('dstTemplate_'),"),
    ('objecttype-nodetype-when-syntax-absent', 'C03', I, "        if syntax[0]:\n            nodetype = syntax[0] == 'Bits'", "        if not syntax[0]:\n            nodetype = syntax[0] == 'Bits'"),
    ('augmention-when-absent', 'C06', I, "        if augmention:\n            augmention = self.transOpers(augmention)", "        if not augmention:\n            augmention = self.transOpers(augmention)"),
    ('subtype-when-absent', 'C05', I, "        if subtype:\n            outDict['constraints'] = subtype\n\n        return 'scalar', outDict", "        if not subtype:\n            outDict['constraints'] = subtype\n\n        return 'scalar', outDict"),
    ('defval-clause-cut-short', 'C05', I, "    def genDefVal(self, data, objname=None):\n        if not data:\n            return {}", "    def genDefVal(self, data, objname=None):\n        if data:\n            return {}"),
    ('defval-unknown-label-silently-dropped', 'C05', I, "                raise error.PySmiSemanticError(\n                    'unknown type \"%s\" for defval \"%s\" of symbol \"%s\"' % (", "                return {}\n                raise error.PySmiSemanticError(\n                    'unknown type \"%s\" for defval \"%s\" of symbol \"%s\"' % ("),
    ('symtable-objecttype-not-registered', 'C03', S, "                self.regSym(fakeName, fakeSymProps)\n\n        self.regSym(pysmiName, symProps, parents)", "                self.regSym(fakeName, fakeSymProps)\n"),
    ('symtable-trap-oid-member-renamed', 'C03', S, "        symProps = {'type': 'NotificationType',\n                    'oid': enterprise + (0, value),", "        symProps = {'type': 'NotificationType',\n                    'objectid': enterprise + (0, value),"),
    # ---- round 6
    ('parse-text-tabs-expanded', 'C02', P, "        try:\n            ast = self.parser.parse(data, lexer=self.lexer.lexer)", "        data = data.expandtabs()\n\n        try:\n            ast = self.parser.parse(data, lexer=self.lexer.lexer)"),
    ('uppercase-identifier-without-hyphen', 'C02', L, "        r'[A-Z][-a-zA-z0-9]*'", "        r'[A-Z][a-zA-z0-9]*'"),
    ('notification-group-status-forced', 'C03', I, "    def genNotificationGroup(self, data):\n        name, objects, status, description, reference, oid = data\n", "    def genNotificationGroup(self, data):\n        name, objects, status, description, reference, oid = data\n        status = 'current'\n"),
    ('augmented-row-name-lowercased', 'C06', I, "            augmention = self.transOpers(augmention)\n", "            augmention = self.transOpers(augmention.lower())\n"),
    ('source-suffix-lowercased', 'C10', 'pysmi/searcher/pyfile.py', "        for pySfx in SOURCE_SUFFIXES:\n", "        for pySfx in SOURCE_SUFFIXES:\n            pySfx = pySfx.lower()\n"),
    ('json-environment-keeps-trailing-newline', 'C04', J, "trim_blocks=True, lstrip_blocks=True)", "trim_blocks=True, lstrip_blocks=True,\n                                 keep_trailing_newline=True)"),
    ('mibcopy-revision-only-valueerror', 'C20', 'scripts/mibcopy.py', "            except Exception:\n                revision = datetime.fromtimestamp(0)", "            except (ValueError, OverflowError):\n                revision = datetime.fromtimestamp(0)"),
    ('mibcopy-absent-destination-epoch', 'C20', 'scripts/mibcopy.py', "dstMibRevision = datetime.min", "dstMibRevision = datetime.fromtimestamp(0)"),
    ('defval-oid-lookup-error-swallowed', 'C07', I, "                except Exception:\n                    # or no module if it will be borrowed later\n                    raise error.PySmiSemanticError(\n                        'no symbol \"%s\" in module \"%s\"' % (defval, module))", "                except Exception:\n                    # or no module if it will be borrowed later\n                    pass"),
    ('meta-module-only-with-comments', 'C04', I, "        outDict['meta']['module'] = self.moduleName[0]\n\n        if 'comments' in kwargs:\n            outDict['meta']['comments'] = kwargs['comments']", "        if 'comments' in kwargs:\n            outDict['meta']['module'] = self.moduleName[0]\n            outDict['meta']['comments'] = kwargs['comments']"),
    ('hex-string-nested-repeat', 'C11', L, "        r'\\'[0-9a-fA-F]*\\'[hH]'", "        r'\\'(?:[0-9a-fA-F]+ ?)*\\'[hH]'"),
    # ---- round 7
    ('iso-after-module-check', 'C01', I, "                if parent == 'iso':\n                    numericOid += (1,)\n                    continue\n\n                if module not in self.symbolTable:\n                    # XXX do getname for possible future borrowed mibs\n                    raise error.PySmiSemanticError('no module \"%s\" in symbolTable' % module)\n", "                if module not in self.symbolTable:\n                    # XXX do getname for possible future borrowed mibs\n                    raise error.PySmiSemanticError('no module \"%s\" in symbolTable' % module)\n\n                if parent == 'iso':\n                    numericOid += (1,)\n                    continue\n"),
    ('index-skips-modules-without-enterprise', 'C18', J, "            modData = outDict['enterprise']\n            enterprise_oid = getattr(status, 'enterprise', None)\n            if enterprise_oid:\n", "            modData = outDict['enterprise']\n            enterprise_oid = getattr(status, 'enterprise', None)\n            if not enterprise_oid:\n                continue\n            if enterprise_oid:\n"),
    ('mibcopy-walk-top-directory', 'C20', 'scripts/mibcopy.py', "        mibFiles = [(os.path.abspath(dirName), mibFile)\n", "        mibFiles = [(os.path.abspath(srcDirectory), mibFile)\n"),
    ('defval-oid-failure-swallowed', 'C05', I, "                    # or no module if it will be borrowed later\n                    raise error.PySmiSemanticError(\n                        'no symbol \"%s\" in module \"%s\"' % (defval, module))\n", "                    # or no module if it will be borrowed later\n                    pass\n"),
    ('defval-unknown-type-falls-through', 'C05', I, "            else:\n                raise error.PySmiSemanticError(\n                    'unknown type \"%s\" for defval \"%s\" of symbol \"%s\"' % (\n                        defvalType, defval, objname))\n", "            else:\n                pass\n"),
    ('defval-string-store-only-when-nonempty', 'C05', I, "            outDict.update(\n                value=defval[1:-1],\n                format='string'\n            )\n", "            if defval[1:-1]:\n                outDict.update(\n                    value=defval[1:-1],\n                    format='string'\n                )\n"),
    ('order-fallback-loop-shallow', 'C18', J, "                    for k in sorted(top):\n                        new_top[k] = order(top[k])\n", "                    for k in sorted(top):\n                        new_top[k] = top[k]\n"),
    ('order-mapping-arm-returns-input', 'C18', J, "                return new_top\n            elif isinstance(top, list):", "                return top\n            elif isinstance(top, list):"),
    ('order-list-arm-for-tuples', 'C18', J, "            elif isinstance(top, list):\n                new_top = []", "            elif isinstance(top, tuple):\n                new_top = []"),
    ('index-identity-guard-negated', 'C18', J, "            if identity_oid:\n", "            if not identity_oid:\n"),
    ('index-merge-guard-negated', 'C18', J, "        if kwargs.get('old_index_data'):\n", "        if not kwargs.get('old_index_data'):\n"),
    ('index-enterprise-list-reset', 'C18', J, "                if enterprise_oid not in modData:\n", "                if enterprise_oid in modData:\n"),
    ('zip-outer-object-forgotten', 'C14', Z, "        if isinstance(fileObj, FileLike):\n            fileObj = None\n", "        if not isinstance(fileObj, FileLike):\n            fileObj = None\n"),
    ('zip-inner-test-negated', 'C14', Z, "            if (member.filename.endswith('.zip') or\n                    member.filename.endswith('.ZIP')):\n", "            if not (member.filename.endswith('.zip') or\n                    member.filename.endswith('.ZIP')):\n"),
    ('zip-collision-loop-negated', 'C14', Z, "                    while innerFilename in members:\n", "                    while innerFilename not in members:\n"),
    ('zip-chain-link-uses-previous-archive', 'C14', Z, "            archive = zipfile.ZipFile(fileObj)\n\n            try:\n", "            if fileObj:\n                archive = zipfile.ZipFile(fileObj)\n\n            try:\n"),
    ('zip-empty-archive-test-negated', 'C14', Z, "        if not self._members:\n            raise error.PySmiReaderFileNotFoundError", "        if self._members:\n            raise error.PySmiReaderFileNotFoundError"),
    ('zip-members-uninitialised', 'C14', Z, "        self._members = {}\n        self._pendingError = None\n", "        self._pendingError = None\n"),
    ('filelike-seek-from-end-ignored', 'C14', Z, "        elif mode == 2:\n            pos += self.len\n", "        elif mode == 2:\n            pos = self.len\n"),
    ('filelike-read-does-not-advance', 'C14', Z, "        r = self.buf[self.pos:newpos]\n\n        self.pos = newpos\n", "        r = self.buf[self.pos:newpos]\n"),
    ('index-load-guard-negated', 'C14', RL, "            if not self._indexLoaded:\n", "            if self._indexLoaded:\n"),
    ('index-file-exists-negated', 'C14', RL, "        if os.path.exists(indexFile):\n", "        if not os.path.exists(indexFile):\n"),
    ('ignore-set-with-newline', 'C11', L, "    t_ignore = ' \\t'\n", "    t_ignore = ' \\t\\n'\n"),
    ('macro-body-or-end-star', 'C11', L, "        r'.+?(?=END)'\n", "        r'(?:[^E]*|E)*?(?=END)'\n"),
    ('trap-reference-needs-description', 'C02', P, "                p[7],  # reference\n                p[9])  # NUMBER", "                p[6] and p[7],  # reference\n                p[9])  # NUMBER"),
    ('varpart-sorted', 'C02', P, "        p[0] = p[1] and p[3] or []\n\n    def p_VarTypes", "        p[0] = p[1] and sorted(p[3]) or []\n\n    def p_VarTypes"),
    ('objects-deduplicated', 'C06', P, "            p[0] = ('Objects', p[1][1] + [p[3]])", "            p[0] = ('Objects', [o for o in p[1][1] if o != p[3]] + [p[3]])"),
    ('template-scalar-kind-by-access', 'C04', T, "_{{ symbol|replace('-', '_')|capfirst }}_Object = MibScalar\n", "{% if definition['maxaccess'] == 'not-accessible' %}\n_{{ symbol|replace('-', '_')|capfirst }}_Object = MibTableColumn\n{% else %}\n_{{ symbol|replace('-', '_')|capfirst }}_Object = MibScalar\n{% endif %}\n"),
    ('template-status-via-tojson', 'C15', T, "    {{ symbol|replace('-', '_') }}.setUnits(\"{{ definition['units'] }}\")", "    {{ symbol|replace('-', '_') }}.setUnits({{ definition['units']|tojson }})"),
    ('write-skipped-for-empty-borrowed-text', 'C07', C, "                if options.get('writeMibs', True):\n", "                if options.get('writeMibs', True) and len(mibData):\n"),
    ('searcher-remembers-missing', 'C10', 'pysmi/searcher/pyfile.py', "        raise error.PySmiFileNotFoundError('no compiled file %s found' % mibname, searcher=self)", "        self._lastMissing = mibname\n        raise error.PySmiFileNotFoundError('no compiled file %s found' % mibname, searcher=self)"),
    ('borrower-counts-requests', 'C19', 'pysmi/borrower/base.py', "        if 'exts' not in options:\n", "        self.genTexts = bool(options.get('genTexts'))\n        if 'exts' not in options:\n"),
    ('import-map-seeded-from-const-imports', 'C16', I, "        # merging mib and constant imports\n", "        self._importMap['ifIndex'] = 'IF-MIB'\n        # merging mib and constant imports\n"),
    ('symtable-import-map-default', 'C06', S, "                self._importMap.update(", "                self._importMap.setdefault('mib-2', 'SNMPv2-SMI')\n                self._importMap.update("),
    ('groupby-in-genimports', 'C01', I, "        for module in sorted(imports):\n            symbols = []\n", "        import itertools\n        dict((k, list(g)) for k, g in itertools.groupby(imports, key=len))\n        for module in sorted(imports):\n            symbols = []\n"),
    ('text-filter-only-when-given', 'C12', I, "        self.genRules['text'] = kwargs.get('genTexts', False)\n", "        if 'genTexts' in kwargs:\n            self.genRules['text'] = kwargs['genTexts']\n"),
    ('subdirs-skip-hidden', 'C14', RL, "            if os.path.isdir(d):\n                dirs.extend(self.getSubdirs(d, recursive))", "            if os.path.isdir(d) and not os.path.basename(d).startswith('.'):\n                dirs.extend(self.getSubdirs(d, recursive))"),
    ('fuzzy-suffix-polarity', 'C14', 'pysmi/reader/base.py', "            if part != -1:\n", "            if part == -1:\n"),
    ('fuzzy-off-by-default', 'C14', 'pysmi/reader/base.py', "    fuzzyMatching = True", "    fuzzyMatching = False"),
    ('upper-case-extensions-dropped', 'C14', 'pysmi/reader/base.py', "    exts.extend([x.upper() for x in exts if x])\n", ""),
    ('typedecl-skipped-when-imported-elsewhere', 'C03', S, "            parentType, attrs = declaration\n            if parentType:  # skipping SEQUENCE case", "            parentType, attrs = declaration\n            if pysmiName in self._seenSyms:\n                return\n            if parentType:  # skipping SEQUENCE case"),
    ('notification-group-without-notifications', 'C11', P, "NotificationsPart : NOTIFICATIONS '{' Notifications '}'", "NotificationsPart : NOTIFICATIONS '{' Notifications '}'\n                             | empty"),
    ('failed-map-kept-on-the-compiler', 'C12', C, "        failedMibs = {}\n        borrowedMibs = {}", "        failedMibs = self._sources_failed = getattr(self, '_sources_failed', {})\n        borrowedMibs = {}"),
    ('quoted-string-single-line', 'C02', L, "        r'\\\"[^\\\"]*\\\"'\n", "        r'\\\"[^\\\"\\n]*\\\"'\n"),
    ('compliance-module-unguarded-subscript', 'C11', P, "        objects = p[3] and p[3][1] or []\n", "        objects = p[3][1]\n"),
]


def run(m):
    name, prop, rel, old, new = m
    tmp = tempfile.mkdtemp(prefix='pysmi-mut-')
    try:
        for top in ('pysmi', 'scripts'):
            shutil.copytree(os.path.join(REPO, top), os.path.join(tmp, top), ignore=shutil.ignore_patterns('__pycache__'))
        p = os.path.join(tmp, rel)
        s = open(p).read()
        if s.count(old) != 1:
            return name, prop, None, 'anchor text found %d times' % s.count(old)
        open(p, 'w').write(s.replace(old, new))
        if rel.endswith('.py'):
            try:
                compile(open(p).read(), p, 'exec')
            except SyntaxError as e:
                return name, prop, None, 'mutant does not compile: %s' % e
        env = dict(os.environ, VERIF_REPO=tmp, VERIF_NO_EVIDENCE='1')
        q = subprocess.run([os.path.join(HERE, 'vcheck'), prop], cwd=HERE, env=env, capture_output=True, text=True)
        rep = [l.strip() for l in q.stdout.splitlines() if l.startswith('  ') and not l.startswith('      ') or
               'ANALYSIS-ERROR' in l]
        return name, prop, q.returncode, (rep[0][:150] if rep else '')
    finally:
        shutil.rmtree(tmp, ignore_errors=True)


def main(argv):
    props = argv[argv.index('--props') + 1:] if '--props' in argv else None
    ms = [m for m in M if not props or m[1] in props]
    missed = stale = 0
    with ThreadPoolExecutor(max_workers=12) as ex:
        for name, prop, rc, info in ex.map(run, ms):
            if rc is None:
                stale += 1
                print('%-4s %-28s STALE  %s' % (prop, name, info))
            elif rc == 1:
                print('%-4s %-28s caught %s' % (prop, name, info))
            else:
                missed += 1
                print('%-4s %-28s MISSED rc=%d %s' % (prop, name, rc, info))
    print('mutants: %d, missed: %d, stale anchors: %d' % (len(ms), missed, stale))
    return 1 if missed or stale else 0


if __name__ == '__main__':
    sys.exit(main(sys.argv[1:]))
