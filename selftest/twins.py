#!/venv/bin/python
"""Behaviour-preserving rewrites ("twins") of the repository, used to test that the checks stay silent on code
where the properties hold.

  selftest/twins.py [twin ...] [--props C01 C02 ...] [--suite]

Each twin is applied to a scratch copy of /repo (pysmi/ and scripts/ only, under $TMPDIR, removed afterwards);
every check must exit 0 on it.  With --suite the pinned test suite is also run on the copy to confirm that the
rewrite really preserves behaviour.  Exit status 0 = all silent, 1 = some check raised an alarm on a twin.

twins
  reformat     every .py file is re-emitted with ast.unparse (comments gone, layout and quoting normalised)
  rename       every function-local variable (not parameters, not closure-captured) gets the suffix _tw
  reorder      consecutive independent simple assignments of literals at function start are reversed
  invert_if    every `if c: A else: B` (no elif) becomes `if not c: B else: A`
  docstrings   a comment line is added at the top and bottom of every file
  <name>       every selftest/twin_patches/<name>.diff: a hand-written behaviour-preserving rewrite of one mechanism
               (nested abort guard, reset by handler+re-raise, counter write loop, seen-set as dict, ...)
"""
import ast
import json
import os
import shutil
import subprocess
import sys
import tempfile

HERE = os.path.dirname(os.path.dirname(os.path.abspath(__file__)))
REPO = os.environ.get('VERIF_REPO', '/repo')


def py_files(root):
    for top in ('pysmi', 'scripts'):
        for dp, dn, fn in os.walk(os.path.join(root, top)):
            dn[:] = [d for d in dn if d != '__pycache__']
            for f in sorted(fn):
                if f.endswith('.py'):
                    yield os.path.join(dp, f)


def t_reformat(root):
    for p in py_files(root):
        src = open(p).read()
        tree = ast.parse(src)
        head = src.split('\n', 1)[0] + '\n' if src.startswith('#!') else ''
        open(p, 'w').write(head + ast.unparse(tree) + '\n')


class _Renamer(ast.NodeTransformer):
    def __init__(self, names):
        self.names = names

    def visit_Name(self, node):
        if node.id in self.names:
            return ast.copy_location(ast.Name(id=node.id + '_tw', ctx=node.ctx), node)
        return node

    def visit_FunctionDef(self, node):
        return node  # nested functions untouched (names used there are excluded anyway)

    visit_Lambda = visit_FunctionDef
    visit_ClassDef = visit_FunctionDef

    def visit_ExceptHandler(self, node):
        self.generic_visit(node)
        if node.name in self.names:
            node.name = node.name + '_tw'
        return node


def t_rename(root):
    for p in py_files(root):
        src = open(p).read()
        tree = ast.parse(src)
        changed = False
        for fn in [n for n in ast.walk(tree) if isinstance(n, ast.FunctionDef)]:
            params = set(a.arg for a in fn.args.args + fn.args.kwonlyargs)
            if fn.args.vararg:
                params.add(fn.args.vararg.arg)
            if fn.args.kwarg:
                params.add(fn.args.kwarg.arg)
            nested_names = set()
            glob = set()
            stores = set()
            stack = list(fn.body)
            while stack:
                n = stack.pop()
                if isinstance(n, (ast.FunctionDef, ast.Lambda, ast.ClassDef)):
                    for x in ast.walk(n):
                        if isinstance(x, ast.Name):
                            nested_names.add(x.id)
                    continue
                if isinstance(n, (ast.Global, ast.Nonlocal)):
                    glob.update(n.names)
                if isinstance(n, ast.Name) and isinstance(n.ctx, ast.Store):
                    stores.add(n.id)
                if isinstance(n, ast.ExceptHandler) and n.name:
                    stores.add(n.name)
                stack.extend(ast.iter_child_nodes(n))
            names = stores - params - nested_names - glob - set(['self'])
            if not names:
                continue
            r = _Renamer(names)
            fn.body = [r.visit(s) for s in fn.body]
            changed = True
        if changed:
            head = src.split('\n', 1)[0] + '\n' if src.startswith('#!') else ''
            open(p, 'w').write(head + ast.unparse(ast.fix_missing_locations(tree)) + '\n')


def t_reorder(root):
    for p in py_files(root):
        src = open(p).read()
        tree = ast.parse(src)
        changed = False
        for fn in [n for n in ast.walk(tree) if isinstance(n, ast.FunctionDef)]:
            i = 0
            body = fn.body
            # skip docstring
            if body and isinstance(body[0], ast.Expr) and isinstance(body[0].value, ast.Constant):
                i = 1
            j = i
            while j < len(body) and isinstance(body[j], ast.Assign) and len(body[j].targets) == 1 and \
                    isinstance(body[j].targets[0], ast.Name) and isinstance(body[j].value, (ast.Dict, ast.List, ast.Constant)) \
                    and not (isinstance(body[j].value, (ast.Dict, ast.List)) and (
                        getattr(body[j].value, 'keys', None) or getattr(body[j].value, 'elts', None))):
                j += 1
            if j - i >= 2:
                body[i:j] = list(reversed(body[i:j]))
                changed = True
        if changed:
            head = src.split('\n', 1)[0] + '\n' if src.startswith('#!') else ''
            open(p, 'w').write(head + ast.unparse(tree) + '\n')


class _InvertIf(ast.NodeTransformer):
    """`if c: A else: B` -> `if not c: B else: A` for statements with a non-empty, non-elif else branch"""
    def visit_If(self, node):
        self.generic_visit(node)
        if node.orelse and not (len(node.orelse) == 1 and isinstance(node.orelse[0], ast.If)):
            test = node.test
            if isinstance(test, ast.UnaryOp) and isinstance(test.op, ast.Not):
                new_test = test.operand
            else:
                new_test = ast.UnaryOp(op=ast.Not(), operand=test)
            return ast.copy_location(ast.If(test=new_test, body=node.orelse, orelse=node.body), node)
        return node


def t_invert_if(root):
    for p in py_files(root):
        src = open(p).read()
        tree = _InvertIf().visit(ast.parse(src))
        head = src.split('\n', 1)[0] + '\n' if src.startswith('#!') else ''
        open(p, 'w').write(head + ast.unparse(ast.fix_missing_locations(tree)) + '\n')


def t_docstrings(root):
    for p in py_files(root):
        src = open(p).read()
        lines = src.split('\n')
        out = []
        for ln in lines:
            out.append(ln)
        head = ''
        body = '\n'.join(out)
        if body.startswith('#!'):
            head, body = body.split('\n', 1)
            head += '\n'
        open(p, 'w').write(head + '# twin: harmless comment\n' + body + '\n# trailing comment\n')


TWINS = {'reformat': t_reformat, 'rename': t_rename, 'reorder': t_reorder, 'docstrings': t_docstrings,
         'invert_if': t_invert_if}


def _patch_twin(path):
    def apply(root):
        p = subprocess.run(['patch', '-p1', '--fuzz=3', '-s', '--no-backup-if-mismatch', '-i', path], cwd=root,
                           capture_output=True, text=True)
        if p.returncode != 0:
            raise SystemExit('twin patch does not apply: %s\n%s' % (path, p.stdout + p.stderr))
    return apply


_pd = os.path.join(HERE, 'selftest', 'twin_patches')
for _f in sorted(os.listdir(_pd)) if os.path.isdir(_pd) else []:
    if _f.endswith('.diff'):
        TWINS[_f[:-5]] = _patch_twin(os.path.join(_pd, _f))


def scratch():
    d = tempfile.mkdtemp(prefix='pysmi-twin-')
    for top in ('pysmi', 'scripts', 'tests'):
        shutil.copytree(os.path.join(REPO, top), os.path.join(d, top), ignore=shutil.ignore_patterns('__pycache__'))
    for f in ('setup.py', 'setup.cfg'):
        if os.path.exists(os.path.join(REPO, f)):
            shutil.copy(os.path.join(REPO, f), d)
    return d


def main(argv):
    props, twins, suite = [], [], False
    it = iter(argv)
    for a in it:
        if a == '--props':
            props = list(it)
        elif a == '--suite':
            suite = True
        else:
            twins.append(a)
    twins = twins or sorted(TWINS)
    if not props:
        props = [c['property_id'] for c in json.load(open(os.path.join(HERE, 'MANIFEST.json')))['checks']]
    bad = 0
    for t in twins:
        d = scratch()
        try:
            TWINS[t](d)
            if suite:
                env = dict(os.environ, PYTHONPATH=d)
                p = subprocess.run(['/venv/bin/python', '-m', 'pytest', '-q', '-p', 'no:cacheprovider', '-n', '8',
                                    '--continue-on-collection-errors'], cwd=d, env=env, capture_output=True, text=True)
                tail = (p.stdout.strip().splitlines() or [''])[-1]
                print('twin %-10s suite: %s' % (t, tail))
            for pid in props:
                env = dict(os.environ, VERIF_REPO=d, VERIF_NO_EVIDENCE='1')
                p = subprocess.run([os.path.join(HERE, 'vcheck'), pid], cwd=HERE, env=env, capture_output=True, text=True)
                if p.returncode != 0:
                    bad += 1
                    lines = [l for l in p.stdout.splitlines() if (l.startswith('  ') and not l.startswith('      ')) or
                             'ANALYSIS-ERROR' in l or 'Error' in l]
                    print('twin %-10s %s rc=%d\n    %s' % (t, pid, p.returncode, '\n    '.join(x[:230] for x in lines[:8])))
            print('twin %-10s done' % t)
        finally:
            shutil.rmtree(d, ignore_errors=True)
    print('twins: %d alarm(s)' % bad)
    return 1 if bad else 0


if __name__ == '__main__':
    sys.exit(main(sys.argv[1:]))
