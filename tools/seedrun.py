#!/venv/bin/python
"""Apply a patch to a scratch copy of /repo and run the given checks against it.

  tools/seedrun.py <patch.diff> C07 C09 ...     (no property = all built checks)

Scratch copies live under $TMPDIR (default /tmp) and are removed afterwards.
Exit status: 0 if at least one check reported a VIOLATION, 1 if none did."""
import json
import os
import shutil
import subprocess
import sys
import tempfile

HERE = os.path.dirname(os.path.dirname(os.path.abspath(__file__)))
REPO = os.environ.get('VERIF_REPO', '/repo')


def scratch_with_patch(patch):
    d = tempfile.mkdtemp(prefix='pysmi-vt-')
    for top in ('pysmi', 'scripts'):
        shutil.copytree(os.path.join(REPO, top), os.path.join(d, top),
                        ignore=shutil.ignore_patterns('__pycache__', '*.pyc'))
    if patch:
        p = subprocess.run(['patch', '-p1', '--fuzz=3', '-s', '-i', os.path.abspath(patch)], cwd=d,
                           capture_output=True, text=True)
        if p.returncode != 0:
            shutil.rmtree(d)
            raise SystemExit('patch does not apply: %s\n%s' % (patch, p.stdout + p.stderr))
    return d


def run(patch, props, verbose=True):
    d = scratch_with_patch(patch)
    results = {}
    try:
        for pid in props:
            env = dict(os.environ, VERIF_REPO=d, VERIF_NO_EVIDENCE='1')
            p = subprocess.run([os.path.join(HERE, 'vcheck'), pid], cwd=HERE, env=env, capture_output=True, text=True)
            results[pid] = (p.returncode, p.stdout)
            if verbose:
                lines = [l for l in p.stdout.splitlines() if l.startswith('  ') and not l.startswith('      ')
                         or 'ANALYSIS-ERROR' in l]
                print('%s rc=%d %s' % (pid, p.returncode, ('\n    ' + '\n    '.join(lines)) if lines else ''))
    finally:
        shutil.rmtree(d, ignore_errors=True)
    return results


if __name__ == '__main__':
    patch = sys.argv[1]
    props = sys.argv[2:]
    if not props:
        props = [c['property_id'] for c in json.load(open(os.path.join(HERE, 'MANIFEST.json')))['checks']]
    res = run(patch if patch != '-' else None, props)
    sys.exit(0 if any(rc == 1 for rc, _ in res.values()) else 1)
