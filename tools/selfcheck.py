#!/venv/bin/python
"""setup_cmd: verify that the analyser's front-ends are importable offline."""
import sys
ok = True
for name in ('ast', 're', 'json', 'jinja2', 'ply.yacc', 'ply.lex'):
    try:
        __import__(name)
    except Exception as e:  # pragma: no cover
        print('missing front-end %s: %s' % (name, e))
        ok = False
try:
    import re._parser  # noqa
except Exception as e:
    try:
        import sre_parse  # noqa
    except Exception:
        print('no regex parser front-end: %s' % e)
        ok = False
print('front-ends ok' if ok else 'front-ends MISSING')
sys.exit(0 if ok else 1)
