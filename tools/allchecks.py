#!/venv/bin/python
"""Run all registered quick checks against one tree in ONE process (one source model per property, no evidence
files) and print `Cnn rc` per property.  Used by the self-tests that evaluate thousands of scratch variants; the
registered commands of MANIFEST.json never use it.

  tools/allchecks.py <repo dir> [Cnn ...]
"""
import contextlib
import importlib
import io
import os
import sys

HERE = os.path.dirname(os.path.dirname(os.path.abspath(__file__)))
sys.path.insert(0, HERE)
sys.dont_write_bytecode = True
os.environ['VERIF_NO_EVIDENCE'] = '1'


def main(argv):
    repo = argv[0]
    props = argv[1:] or ['C%02d' % i for i in range(1, 21)]
    from vt import runner
    from vt.model import SourceModel
    runner.VIOLATIONS_DIR = None
    shared = None
    if os.environ.get('VERIF_SHARED_MODEL') == '1':
        shared = SourceModel(repo)
    for p in props:
        buf = io.StringIO()
        try:
            with contextlib.redirect_stdout(buf):
                model = shared or SourceModel(repo)
                mod = importlib.import_module('rules.%s' % p)
                rc = runner.run_check(p, list(mod.RULES), 'quick', model, repo, mod.EXPLANATION, mod.ASSUMPTIONS)
        except Exception as e:
            rc = 2
            buf.write('ANALYSIS-ERROR %s\n' % e)
        first = [l.strip() for l in buf.getvalue().splitlines() if l.startswith('  ') and not l.startswith('      ')]
        print('%s %d %s' % (p, rc, first[0][:160] if first and rc else ''))
    sys.stdout.flush()
    os._exit(0)


if __name__ == '__main__':
    main(sys.argv[1:])
