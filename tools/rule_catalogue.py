#!/venv/bin/python
"""Print the rule catalogue (markdown) from the evidence files of the last quick run: rule id, instances on the
current tree, and the rule's own statement (chk.doc)."""
import json
import os
import re

HERE = os.path.dirname(os.path.dirname(os.path.abspath(__file__)))


def key(r):
    m = re.match(r'C(\d+)\.[RT](\d+)(\w*)', r)
    return (int(m.group(1)), int(m.group(2)), m.group(3)) if m else (99, 0, r)


def main():
    for i in range(1, 21):
        pid = 'C%02d' % i
        e = json.load(open(os.path.join(HERE, 'evidence', pid + '.json')))['coverage']
        print('**%s** (%d obligations)\n' % (pid, e['obligations']))
        for r in sorted(e['rules'], key=key):
            n = e['per_rule'].get(r, {}).get('instances', 0)
            print('* `%s` [%d] %s' % (r, n, e['rules'][r].replace('\n', ' ')))
        print()


if __name__ == '__main__':
    main()
