#!/venv/bin/python
"""Print the markdown table of DESIGN.md section 7.4 from seeded/*/meta.json (run by hand after seeds change)."""
import json
import os
import re

HERE = os.path.dirname(os.path.dirname(os.path.abspath(__file__)))


def main():
    rows = []
    for sid in sorted(os.listdir(os.path.join(HERE, 'seeded'))):
        mp = os.path.join(HERE, 'seeded', sid, 'meta.json')
        if sid.startswith('_') or not os.path.exists(mp):
            continue
        m = json.load(open(mp))
        n = int(sid.split('-')[1])
        rnd = (n + 1) // 2
        rules = []
        for p, reps in sorted(m.get('detected_by', {}).items()):
            for r in reps:
                mm = re.match(r'(C\d\d\.[RT]\w+)', r)
                if mm and mm.group(1) not in rules:
                    rules.append(mm.group(1))
        own = [r for r in rules if r.startswith(m['property'])]
        other = [r for r in rules if not r.startswith(m['property'])]
        fr = m.get('first_run')
        if rnd == 1:
            first = 'seen while tuning'
        elif fr:
            if fr['own_check_reported']:
                first = 'caught'
            elif any(v == 'VIOLATION' or (isinstance(v, dict) and v.get('rc') == 1) for v in fr['checks'].values()):
                first = 'only by %s' % ','.join(sorted(k for k, v in fr['checks'].items()
                                                      if v == 'VIOLATION' or (isinstance(v, dict) and v.get('rc') == 1)))
            elif fr['checks']:
                first = 'analysis-error only'
            else:
                first = 'MISSED'
        else:
            first = 'MISSED' if m.get('initially_missed') else 'caught'
            h = m.get('history', '')
            if m.get('initially_missed') and 'only by' in h.lower():
                first = 'only by another check'
        summ = (m.get('summary') or '').replace('|', '/').replace('\n', ' ')
        if len(summ) > 150:
            summ = summ[:150] + '...'
        rows.append('| %s | %d | %s | %s | %s |' % (sid, rnd, summ, ', '.join(own[:4] + other[:3]), first))
    print('| id | round | what the change does (short) | reported by (own rules first) | first run |')
    print('|---|---|---|---|---|')
    print('\n'.join(rows))


if __name__ == '__main__':
    main()
