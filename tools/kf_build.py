#!/venv/bin/python
"""Build /verif/known_findings.json from the tables below (run by hand when a
finding is triaged; the checks never write that file)."""
import json
import os

HERE = os.path.dirname(os.path.dirname(os.path.abspath(__file__)))

# (property, rule, key, what, witness)
OPEN = [
    ('C10', 'C10.R3', 'PyPackageSearcher.fileExists/case-mapping mibname.upper()',
     'F26: the zipped-egg branch of PyPackageSearcher looks up MIBNAME.upper(), so a mixed-case module name is '
     'answered by (or misses) another file; not repaired: branch needs a zip-imported egg, untestable offline',
     'read pysmi/searcher/pypackage.py: f = os.path.join(self._package, mibname.upper()) + pySfx (both suffix loops)'),
    ('C10', 'C10.R3', 'PyFileSearcher.fileExists/stale-candidate-ends-search(BYTECODE_SUFFIXES)',
     'F36: a stale X.pyc makes PyFileSearcher answer not-found although a fresh X.py exists; not repaired: the '
     'bytecode branch also mis-reads the PEP 552 header, a repair means redesigning that branch',
     'dir with X.pyc (magic + old time) and fresh X.py: PyFileSearcher(d).fileExists("X", 1000000) raises '
     'PySmiFileNotFoundError("older file X exists")'),
    ('C10', 'C10.R3', 'PyPackageSearcher.fileExists/stale-candidate-ends-search(BYTECODE_SUFFIXES)',
     'F36 (egg variant): stale bytecode in the egg ends the search', 'same construct as PyFileSearcher, zipped-egg branch'),
    ('C10', 'C10.R3', 'PyPackageSearcher.fileExists/stale-candidate-ends-search(SOURCE_SUFFIXES)',
     'F36 (egg variant): a stale source under one suffix ends the search', 'same construct, zipped-egg branch'),
    ('C02', 'C02.R3', 'untagged-tuple@objectTypeClause[8]',
     'F38: an object reference written as name(number) or as a number (AUGMENTS { ifEntry(1) }, OBJECTS { 5 }) '
     'reaches the code generators as a tuple/int: AUGMENTS makes prepData raise KeyError, list positions make '
     'transOpers raise AttributeError - foreign exceptions escape compile(); not repaired: seven sibling actions '
     '(Entry, Index, Object, Notification, VarType, MandatoryGroup, ComplianceGroup) need a semantic decision',
     'compile() of `e OBJECT-TYPE ... AUGMENTS { ifEntry(1) } ::= { root 1 }` raises KeyError("ifEntry")'),
    ('C05', 'C05.R8', 'genDefVal/return-shape bare-record',
     'F23: a BITS DEFVAL is returned as the bare record, not wrapped in {"default": ...}; the pysnmp template then '
     'fails (attribute default missing) and its bits branch reads a path that cannot exist; not repaired: needs '
     'a redesign of the bits default in both the IR and the template',
     'OBJECT-TYPE SYNTAX BITS { a(0), b(1) } DEFVAL { { a, b } }: JSON default record has keys basetype/format/value '
     'at top level; PySnmpCodeGen raises PySmiCodegenError (Jinja: no attribute default)'),
    ('C03', 'C03.R6', 'transOpers-siblings',
     'F21: SymtableCodeGen.transOpers prefixes Python keywords with pysmi_, IntermediateCodeGen.transOpers does '
     'not: a symbol named `global`/`class`/... is in the symbol table as pysmi_global and generated as global, so '
     'the module fails with "No generated code for symbol pysmi_global"; not repaired: choosing the spelling '
     'changes generated identifiers and the pysnmp template',
     'module with `global OBJECT IDENTIFIER ::= { enterprises 9 }` -> PySmiCodegenError'),
    ('C03', 'C03.R7', 'IntermediateCodeGen.genTableIndex/dict-key object',
     'F22: the SMIv1 INDEX { INTEGER } path (genFakeSyms) is unfinished: it builds a dict keyed by the builtin '
     '`object`, returns it where a pair is unpacked, and the fake column symbols are never registered; an SMIv1 '
     'module with a type-valued INDEX fails with "No generated code for symbol pysmiFakeCol1000"',
     'SMIv1 row with INDEX { INTEGER } -> PySmiCodegenError'),
    ('C06', 'C06.R1', 'IntermediateCodeGen.genDefVal/symbolTable[m]<-raw-label',
     'F25: a DEFVAL label is looked up as written (with hyphens) in tables keyed by normalised names, so a valid `DEFVAL { d-root }` on an OBJECT IDENTIFIER object is rejected (enum labels are unaffected: they are compared with the enumeration); not repaired: normalising the label also changes how enum/bit labels containing hyphens are matched',
     'module D-MIB: `d-root OBJECT IDENTIFIER ::= { enterprises 6 }` and `dObj OBJECT-TYPE SYNTAX OBJECT IDENTIFIER ... DEFVAL { d-root }` -> PySmiSemanticError unknown type ... for defval d-root'),
    ('C06', 'C06.R1', 'IntermediateCodeGen.genDefVal/_importMap<-raw-label',
     'F25: a DEFVAL label is looked up as written (with hyphens) in tables keyed by normalised names, so a valid `DEFVAL { d-root }` on an OBJECT IDENTIFIER object is rejected (enum labels are unaffected: they are compared with the enumeration); not repaired: normalising the label also changes how enum/bit labels containing hyphens are matched',
     'module D-MIB: `d-root OBJECT IDENTIFIER ::= { enterprises 6 }` and `dObj OBJECT-TYPE SYNTAX OBJECT IDENTIFIER ... DEFVAL { d-root }` -> PySmiSemanticError unknown type ... for defval d-root'),
    ('C06', 'C06.R1', 'SymtableCodeGen.genDefVal/_out<-raw-label',
     'F25: a DEFVAL label is looked up as written (with hyphens) in tables keyed by normalised names, so a valid `DEFVAL { d-root }` on an OBJECT IDENTIFIER object is rejected (enum labels are unaffected: they are compared with the enumeration); not repaired: normalising the label also changes how enum/bit labels containing hyphens are matched',
     'module D-MIB: `d-root OBJECT IDENTIFIER ::= { enterprises 6 }` and `dObj OBJECT-TYPE SYNTAX OBJECT IDENTIFIER ... DEFVAL { d-root }` -> PySmiSemanticError unknown type ... for defval d-root'),
    ('C06', 'C06.R1', 'SymtableCodeGen.genDefVal/_importMap<-raw-label',
     'F25: a DEFVAL label is looked up as written (with hyphens) in tables keyed by normalised names, so a valid `DEFVAL { d-root }` on an OBJECT IDENTIFIER object is rejected (enum labels are unaffected: they are compared with the enumeration); not repaired: normalising the label also changes how enum/bit labels containing hyphens are matched',
     'module D-MIB: `d-root OBJECT IDENTIFIER ::= { enterprises 6 }` and `dObj OBJECT-TYPE SYNTAX OBJECT IDENTIFIER ... DEFVAL { d-root }` -> PySmiSemanticError unknown type ... for defval d-root'),
    ('C04', 'C04.R5', 'import-strings-normalised',
     'F24: generated pysnmp modules export symbols under the normalised name (a_root) but import them from other '
     'generated modules under the MIB spelling ("a-root"), so a module set with hyphenated cross-module symbols does '
     'not load together; not repaired: the right spelling depends on what pysnmp\'s own MIB modules export',
     'A-MIB defines a-root, B-MIB imports it: A exports **{"a_root": a_root}, B runs importSymbols("A-MIB", "a-root")'),
]

OPEN.append(('C16', 'C16.R4', 'RFC1158-MIB-covers-shared-table',
             'F29: convertImportv2["RFC1158-MIB"] is built from the RFC1155-SMI/RFC1065-SMI table instead of the shared '
             'RFC1158-MIB/RFC1213-MIB table, so symbols such as sysDescr imported FROM RFC1158-MIB are not redirected '
             'to their SMIv2 home (the same import FROM RFC1213-MIB is); not repaired: which of the two tables the '
             'author meant for the 36 extra RFC1158 entries cannot be validated offline',
             'E-MIB with `IMPORTS sysDescr FROM RFC1158-MIB sysName FROM RFC1213-MIB`: imports keep RFC1158-MIB: '
             '[sysDescr] while sysName moves to SNMPv2-MIB'))
F27_SITES = ['template-literal dq/default.value@macro:default', 'template-literal dq/displayhint@textualconvention', 'template-literal dq/lastupdated@moduleidentity', 'template-literal dq/productrelease@agentcapabilities', 'template-literal dq/reference@agentcapabilities', 'template-literal dq/units@objecttype+objectidentity', 'template-literal tq/contactinfo|wordwrap@moduleidentity', 'template-literal tq/description|wordwrap@agentcapabilities', 'template-literal tq/description|wordwrap@modulecompliance', 'template-literal tq/description|wordwrap@moduleidentity', 'template-literal tq/description|wordwrap@notificationgroup', 'template-literal tq/description|wordwrap@notificationtype', 'template-literal tq/description|wordwrap@objectgroup', 'template-literal tq/description|wordwrap@objecttype+objectidentity', 'template-literal tq/description|wordwrap@textualconvention', 'template-literal tq/organization|wordwrap@moduleidentity', 'template-literal tq/reference|wordwrap@objecttype+objectidentity']
for _k in F27_SITES:
    OPEN.append(('C15', 'C15.R4', _k,
                 'F27: the pysnmp template places this text inside a Python string literal without escaping: a '
                 'backslash sequence is interpreted (UNITS "C:\\new" -> newline), a triple quote or, in one-line '
                 'literals with --keep-texts-layout, a line break yields invalid Python; not repaired: needs an '
                 'escaping filter plus a decision on wordwrap for all 17 sites',
                 'OBJECT-TYPE ... UNITS "C:\\new\\table": generated o.setUnits("C:\\new\\table") evaluates to a string with '
                 'a newline and a tab'))

# F44: found by the typestate analysis of compile() (rules/compile_ts.py).  The key suffix `after-partial-file` is the
# history "this module was produced by a symbol-table pass inside a fetch whose try body raised afterwards"; a
# violation of the same invariant on any other history has a different key and is reported.
F44 = ('F44: a source file holding several modules whose later module fails the symbol-table pass: the earlier modules '
       'are already filed as parsed, then the error is recorded under the name that was being fetched - usually the '
       'name of a good module of that file. That module is code-generated and written and nevertheless reported '
       'failed (or, without ignoreErrors, aborts the call; with a borrower its generated text is replaced by a '
       'borrowed copy; with a fresh copy in the destination it is reported untouched while staying in the failed '
       'map). Not repaired: the error belongs to a module whose name is unknown at that point; a repair has to decide '
       'whether a partially readable file yields its good modules or none.')
F44_W = ('source file A-MIB = module A-MIB (good) followed by module Z-MIB with `zNode OBJECT IDENTIFIER ::= { nowhere 1 }`: '
         'compile("A-MIB", ignoreErrors=True) writes A-MIB.json and returns {"A-MIB": failed}')
for _p, _r, _k in [
        ('C07', 'C07.T1', 'compile/ts:failed-pairing:return/in-failed/after-partial-file'),
        ('C07', 'C07.T1', 'compile/ts:status-effect:return/written/after-partial-file'),
        ('C09', 'C09.T1', 'compile/ts:failed-pairing:return/in-failed/after-partial-file'),
        ('C10', 'C10.T1', 'compile/ts:fresh:return/status/after-partial-file'),
        ('C19', 'C19.T1', 'compile/ts:borrow-failed-only:store@module-text-record/after-partial-file'),
        ('C20', 'C20.T1', 'compile/ts:status-effect:return/written/after-partial-file'),
        ('C20', 'C20.T1', 'compile/ts:failed-pairing:return/in-failed/after-partial-file')]:
    OPEN.append((_p, _r, _k, F44, F44_W))

# (property, commit, what failed, rule that reports it on the pre-fix tree)
FIXED = [
    ('C12', 'ba6c4d3', 'F1 parser.parse() did not reset the lexer when the parse raised', 'C12.R1'),
    ('C11', 'df33b6c', 'F2 p_error silent at end of input: truncated file parsed to []', 'C11.R5'),
    ('C11', '8e2aced', 'F3 exclusive lexer states had no error rule: ply.lex.LexError escaped', 'C11.R2'),
    ('C11', 'bb22e37', 'F4 line breaks inside MACRO/EXPORTS/CHOICE bodies were not counted', 'C11.R4'),
    ('C12', 'b07e0fe', 'F5 _moduleRevision / fakeidx never reset between modules', 'C12.R2'),
    ('C12', '6286c1e', 'F6 set iteration order reached the JSON imports list and an error message', 'C12.R5'),
    ('C05', '8e68052', 'F7 getBaseType extended the sub-type list stored in the symbol table in place', 'C05.R7'),
    ('C18', '0200be1', 'F8 textual startswith() on dotted OIDs in genIndex', 'C18.R1'),
    ('C07', '2b68062', 'F9 stale failed status when a later source succeeds', 'C07.R5'),
    ('C19', 'ba8289d', 'F10 noDeps blocked borrowing of requested modules', 'C19.R4'),
    ('C08', '90443da', 'F11 non-termination: file FOO holding module BAR that imports FOO', 'C08.R2'),
    ('C01', '1397fba', 'F12 postponed symbols registered in a single pass', 'C01.R5'),
    ('C02', 'b29da7f', 'F13 p_Compliances dropped GROUPs after a leading OBJECT', 'C02.R2'),
    ('C13', '4b0f40c', 'F14 os.write() result ignored in both file writers', 'C13.R3'),
    ('C04', '5f79314', 'F15 plain types rendered but not exported', 'C04.R2'),
    ('C04', '51187f7', 'F16 compliance groups stored under modulecompliance but template read objects', 'C04.R3'),
    ('C06', '4d1947d', 'F17 hyphenated column / index names not normalised', 'C06.R1'),
    ('C05', 'd615a7b', 'F18 tuple-vs-string comparison dropped DEFVAL { "" }', 'C05.R8'),
    ('C14', '3527c62', 'F19 https sources defaulted to port 80', 'C14.R6'),
    ('C07', 'd3acc98', 'F20 JsonCodeGen.genCode called insert() on a str with a custom template', 'C07.R7c'),
    ('C17', '387569b', 'F28 INDEX { 0 } parsed differently with supportIndex', 'C17.R2'),
    ('C07', 'e885599', 'F30 a source text without any module dropped the requested name from the result', 'C07.R4b'),
    ('C11', 'fb9f725', 'F33 a decimal literal longer than 4300 digits made t_NUMBER raise ValueError', 'C11.R7'),
    ('C05', 'd5fde45', 'F34 DEFVAL { 0 } dropped by a truthiness test in p_DefValPart', 'C02.R1'),
    ('C02', '7a6965a', 'F39 compliance list actions skipped a GROUP whose identifier is the number 0', 'C02.R1'),
    ('C15', '0887a9a', 'F41 DISPLAY-HINT and PRODUCT-RELEASE texts bypassed the text filter (multi-line text -> '
     'invalid one-line literal, not whitespace-normalised in JSON)', 'C15.R3'),
    ('C14', '5d629b6', 'F42 nested ZIP archives unreadable: FileLike lacked seekable() which zipfile requires', 'C14.R5'),
    ('C10', '121bb88', 'F35 noDeps excluded a requested module served from a differently named file', 'C10.R2'),
    ('C07', '0f7b56c', 'F43 a module missing under its own name but found inside another source file was built and '
     'written yet reported missing (and aborted the call without ignoreErrors; a borrower could replace its generated '
     'text)', 'C07.T1'),
    ('C19', '0f7b56c', 'F43 (same defect) generated code of such a module was replaced by a borrowed copy', 'C19.T1'),
    ('C10', '6ef3686', 'F45 under noDeps an explicitly requested module that has no file of its own but was found '
     'inside another source file was reported untouched and never generated (the filter looked only at the names of '
     'modules read through a requested fetch)', 'C10.T1'),
    ('C20', 'd08942e', 'F46 mibcopy never copied a module without REVISION into an empty destination (absent copy and '
     'missing revision both mapped to the epoch, and equal revisions are not copied); reported by a seeding sub-agent '
     'as an observation on the clean tree, reproduced, then turned into rule C20.R4 loop/absent-destination-older-than-'
     'any-source', 'C20.R4'),
]

out = {
    '_doc': 'Committed list of findings. status=open entries turn the matching failed rule instance (same property, '
            'rule and key) into a KNOWN-FINDING line; anything else that fails is a VIOLATION. status=fixed entries '
            'suppress nothing, they record "fixed: property=<id> <commit> <what failed>". Never written at run time.',
    'findings': [],
}
for prop, rule, key, what, witness in OPEN:
    out['findings'].append({'property': prop, 'rule': rule, 'key': key, 'status': 'open', 'what': what,
                            'witness': witness})
for prop, commit, what, rule in FIXED:
    out['findings'].append({'property': prop, 'status': 'fixed', 'commit': commit, 'rule': rule,
                            'fixed': 'fixed: property=%s %s %s' % (prop, commit, what)})
with open(os.path.join(HERE, 'known_findings.json'), 'w') as f:
    json.dump(out, f, indent=1)
print('%d open, %d fixed' % (len(OPEN), len(FIXED)))
