#!/venv/bin/python
"""Regenerate /verif/MANIFEST.json from the rule modules that exist.

Each rules/Cnn.py may define LEVEL_TEXT, LEVEL_NOTE, TECHNIQUE, DESIGN_REF;
properties without a rule module are listed under not_applicable."""
import importlib
import json
import os
import sys

HERE = os.path.dirname(os.path.dirname(os.path.abspath(__file__)))
sys.path.insert(0, HERE)
sys.dont_write_bytecode = True

NOT_BUILT = 'static check for this property is not built yet in this round (see DESIGN.md section 2 for the plan)'

props = [json.loads(l) for l in open(os.path.join(HERE, 'properties.jsonl'))]
checks, na = [], []
for p in props:
    pid = p['id']
    path = os.path.join(HERE, 'rules', pid + '.py')
    if not os.path.exists(path):
        na.append({'property_id': pid, 'reason': NOT_BUILT})
        continue
    mod = importlib.import_module('rules.' + pid)
    if getattr(mod, 'NOT_APPLICABLE', None):
        na.append({'property_id': pid, 'reason': mod.NOT_APPLICABLE})
        continue
    checks.append({
        'property_id': pid,
        'quick_cmd': './vcheck %s --tier quick' % pid,
        'thorough_cmd': './vcheck %s --tier thorough' % pid,
        'evidence_file': '/verif/evidence/%s.json' % pid,
        'replay_cmd_template': './vcheck %s --replay {path}' % pid,
        'engine': 'vcheck',
        'level_claimed': {
            'category': 'other',
            'text': getattr(mod, 'LEVEL_TEXT', mod.EXPLANATION),
            'design_ref': getattr(mod, 'DESIGN_REF', 'DESIGN.md section 2, %s' % pid),
        },
        'level_note': getattr(mod, 'LEVEL_NOTE', '; '.join(mod.ASSUMPTIONS)),
        'technique': getattr(mod, 'TECHNIQUE', 'static analysis: custom AST/CFG rules over the repository source'),
    })

manifest = {
    'version': 1,
    'setup_cmd': '/venv/bin/python tools/selfcheck.py',
    'hooks': {
        'guard': 'ETINGOF_PYSMI_VERIF',
        'enable': 'no hooks: the checks only parse the source tree (ast / re._parser / jinja2 parser / ply grammar '
                  'tables); nothing in /repo is instrumented, so there is nothing to enable',
        'baseline_off_cmd': 'cd /repo && /venv/bin/python -m pytest -ra -q -p no:cacheprovider --timeout=900 '
                            '--continue-on-collection-errors',
        'source_commits': [],
        'add_only': True,
    },
    'engines': [
        {'name': 'vcheck', 'path': '/verif/vcheck',
         'serves_properties': [c['property_id'] for c in checks],
         'kind_free_text': 'repository-specific static analyser: source model + constant evaluator (vt/model.py), '
                           'statement CFG with exception edges, dominators and avoid-set reachability (vt/cfg.py), '
                           'grammar/LALR, regex, template and shape engines, rule runner with instance floors and '
                           'known-findings matching (vt/runner.py); rules in rules/Cnn.py'},
    ],
    'checks': checks,
    'not_applicable': na,
    'notes': 'All checks are static: they parse /repo (or $VERIF_REPO) on every run and never import or execute it. '
             'exit 0 = all rule instances discharged (known findings printed as KNOWN-FINDING lines), exit 1 = '
             'VIOLATION line, exit 2 = ANALYSIS-ERROR (analyser cannot decide; never a silent pass). Known findings '
             'and fixed entries: /verif/known_findings.json. Seeded breaking changes and which rule catches them: '
             '/verif/seeded/ and DESIGN.md section 7.',
}
with open(os.path.join(HERE, 'MANIFEST.json'), 'w') as f:
    json.dump(manifest, f, indent=1)
print('MANIFEST.json: %d checks, %d not applicable' % (len(checks), len(na)))
