#!/venv/bin/python
"""Verify candidate seeded changes and import the confirmed ones into /verif/seeded/.

  tools/seed_import.py <candidate dir containing patch.diff demo.py meta.json> [...]

For each candidate: a scratch git worktree of /repo HEAD (outside /repo and /verif) gets the patch; the pinned
test suite must still give 86 passed; the demo must exit 1 with the patch and 0 without; then every registered
check is run against the patched tree.  Confirmed candidates are written to /verif/seeded/<id>/ with a patch
regenerated against the current HEAD.  Scratch worktrees are removed afterwards.
"""
import json
import os
import shutil
import subprocess
import sys
import tempfile
from concurrent.futures import ThreadPoolExecutor

HERE = os.path.dirname(os.path.dirname(os.path.abspath(__file__)))
REPO = '/repo'
PY = '/venv/bin/python'


def sh(cmd, cwd=None, env=None, timeout=900):
    p = subprocess.run(cmd, cwd=cwd, env=env, capture_output=True, text=True, timeout=timeout)
    return p.returncode, p.stdout + p.stderr


def one(cand):
    cand = os.path.abspath(cand)
    meta = json.load(open(os.path.join(cand, 'meta.json')))
    prop = meta.get('property') or os.path.basename(os.path.dirname(cand))[:3]
    n = os.path.basename(cand)
    parent = os.path.basename(os.path.dirname(cand))
    for suffix, shift in (('.out2', 2), ('.out3', 4), ('.out4', 6), ('.out5', 8), ('.out6', 10), ('.out7', 12), ('.out8', 14), ('.out9', 16)):   # later rounds of seeding
        if parent.endswith(suffix) and n.isdigit():
            n = str(int(n) + shift)
            break
    sid = '%s-%s' % (prop, n)
    wt = tempfile.mkdtemp(prefix='pysmi-seed-')
    os.rmdir(wt)
    res = {'id': sid, 'candidate': cand, 'property': prop}
    try:
        rc, out = sh(['git', '-C', REPO, 'worktree', 'add', '-q', '--detach', wt, 'HEAD'])
        if rc:
            res['error'] = 'worktree: ' + out
            return res
        rc, out = sh(['patch', '-p1', '--fuzz=3', '-s', '--no-backup-if-mismatch', '-i', os.path.join(cand, 'patch.diff')], cwd=wt)
        if rc:
            res['error'] = 'patch does not apply to HEAD: ' + out[:300]
            return res
        rc, diff = sh(['git', 'diff'], cwd=wt)
        res['patch'] = diff
        env = dict(os.environ, PYTHONPATH=wt)
        rc, out = sh([PY, '-m', 'pytest', '-q', '-p', 'no:cacheprovider', '-n', '4', '--continue-on-collection-errors'],
                     cwd=wt, env=env)
        tail = out.strip().splitlines()[-1] if out.strip() else ''
        res['suite'] = tail
        res['suite_ok'] = '86 passed' in tail and ' failed' not in tail
        try:
            rc1, out1 = sh(['timeout', '300', PY, os.path.join(cand, 'demo.py')], cwd=wt, env=env, timeout=400)
        except subprocess.TimeoutExpired:
            rc1, out1 = 124, 'timeout'
        res['demo_patched_rc'] = rc1
        res['demo_patched_out'] = out1[-600:]
        # checks against the patched tree
        fired = {}
        for pid in [c['property_id'] for c in json.load(open(os.path.join(HERE, 'MANIFEST.json')))['checks']]:
            e2 = dict(os.environ, VERIF_REPO=wt, VERIF_NO_EVIDENCE='1')
            rc, out = sh([os.path.join(HERE, 'vcheck'), pid], cwd=HERE, env=e2)
            if rc != 0:
                lines = [l.strip() for l in out.splitlines() if l.startswith('  ') and not l.startswith('      ')]
                fired[pid] = {'rc': rc, 'reports': [l[:220] for l in lines][:6]}
        res['fired'] = fired
        sh(['git', 'checkout', '--', '.'], cwd=wt)
        try:
            rc0, out0 = sh(['timeout', '300', PY, os.path.join(cand, 'demo.py')], cwd=wt, env=env, timeout=400)
        except subprocess.TimeoutExpired:
            rc0, out0 = 124, 'timeout'
        res['demo_clean_rc'] = rc0
        res['demo_clean_out'] = out0[-300:]
        res['confirmed'] = bool(res['suite_ok'] and rc1 == 1 and rc0 == 0)
        res['meta'] = meta
    finally:
        sh(['git', '-C', REPO, 'worktree', 'remove', '--force', wt])
        shutil.rmtree(wt, ignore_errors=True)
    return res


def store(res):
    d = os.path.join(HERE, 'seeded', res['id'])
    os.makedirs(d, exist_ok=True)
    with open(os.path.join(d, 'patch.diff'), 'w') as f:
        f.write(res['patch'])
    shutil.copy(os.path.join(res['candidate'], 'demo.py'), os.path.join(d, 'demo.py'))
    own = sorted(p for p, v in res['fired'].items() if v['rc'] == 1)
    meta = {
        'id': res['id'],
        'property': res['property'],
        'summary': res['meta'].get('summary'),
        'needs_to_manifest': res['meta'].get('needs'),
        'files': res['meta'].get('files'),
        'origin': 'written by an independent sub-agent that saw only the property text and a scratch worktree',
        'confirmed': {
            'suite_with_patch': res['suite'],
            'demo_with_patch_exit': res['demo_patched_rc'],
            'demo_without_patch_exit': res['demo_clean_rc'],
            'how': 'tools/seed_import.py: scratch worktree of /repo HEAD, patch applied, `pytest -q -n 4 '
                   '--continue-on-collection-errors`, `python demo.py` with PYTHONPATH=<worktree> before and after '
                   '`git checkout -- .`',
        },
        'detected_by': dict((p, v['reports']) for p, v in res['fired'].items() if v['rc'] == 1),
        'analysis_errors': dict((p, v['reports']) for p, v in res['fired'].items() if v['rc'] == 2),
        'detected_by_own_property_check': res['property'] in own,
    }
    with open(os.path.join(d, 'meta.json'), 'w') as f:
        json.dump(meta, f, indent=1)


if __name__ == '__main__':
    cands = sys.argv[1:]
    with ThreadPoolExecutor(max_workers=4) as ex:
        results = list(ex.map(one, cands))
    for r in results:
        if r.get('confirmed'):
            store(r)
        own = r.get('property') in [p for p, v in r.get('fired', {}).items() if v['rc'] == 1]
        print('%-8s confirmed=%-5s suite=%-5s demo(p/c)=%s/%s own-check=%-5s fired=%s %s' % (
            r['id'], r.get('confirmed'), r.get('suite_ok'), r.get('demo_patched_rc'), r.get('demo_clean_rc'), own,
            sorted('%s%s' % (p, '' if v['rc'] == 1 else '(E)') for p, v in r.get('fired', {}).items()),
            r.get('error', '')))
    json.dump(results, open('/tmp/seed_import_results.json', 'w'), indent=1)
