"""E5 - regex analysis of the lexer's token rules.

Lexer rules are extracted from the class body (function docstrings and string
assignments named t_*), grouped by ply state exactly as ply does: a name
`t_<state>_..._<TOKEN>` belongs to the states named before the token part.
Regexes are analysed through `re._parser` (structure: nullable, look-around,
which characters an atom accepts) under the lexer's reflags.
"""
import ast
import re

try:
    import re._parser as sre_parse
    import re._constants as sre_constants
except ImportError:  # pragma: no cover
    import sre_parse
    import sre_constants

from vt.model import walk_no_nested
from vt.runner import AnalysisError

ALPHABET = [chr(c) for c in range(0, 0x180)] + [u' ', u'中', u'é', u'\U0001F600', u'﻿']
LINEBREAK_STRINGS = ('\r\n', '\n', '\r')


class LexRule(object):
    def __init__(self, name, states, tokname, pattern, fn, lineno, is_func):
        self.name, self.states, self.tokname, self.pattern = name, states, tokname, pattern
        self.fn, self.lineno, self.is_func = fn, lineno, is_func
        self._parsed = None

    def parsed(self, flags):
        if self._parsed is None:
            try:
                self._parsed = sre_parse.parse(self.pattern, flags)
            except Exception as e:
                raise AnalysisError('cannot parse regex of %s: %s' % (self.name, e))
        return self._parsed


def state_token(name, statenames):
    """ply's _statetoken: t_a_b_TOK -> (states, tokname)"""
    parts = name.split('_')
    i = 1
    for i, part in enumerate(parts[1:], 1):
        if part not in statenames and part != 'ANY':
            break
    else:
        i = len(parts)
    if i > 1:
        states = tuple(parts[1:i])
    else:
        states = ('INITIAL',)
    if 'ANY' in states:
        states = tuple(statenames)
    return states, '_'.join(parts[i:])


class LexerModel(object):
    """Static image of a ply lexer class: states, rules per state, ignore, literals, error rules."""

    def __init__(self, ci, model, evaluator, reflags=re.DOTALL):
        self.ci = ci
        self.flags = reflags
        states_node_owner, states_node = ci.find_attr('states')
        self.states = {'INITIAL': 'inclusive'}
        if states_node is not None:
            for s in ast.literal_eval(states_node):
                self.states[s[0]] = s[1]
        self.rules = dict((s, []) for s in self.states)
        self.ignore = dict((s, '') for s in self.states)
        self.errorf = dict((s, None) for s in self.states)
        self.eoff = dict((s, None) for s in self.states)
        lit_owner, lit = ci.find_attr('literals')
        self.literals = ast.literal_eval(lit) if lit is not None else ''
        seen = set()
        for c in ci.mro():
            # string rules and aliases
            for st in c.node.body:
                if isinstance(st, ast.Assign):
                    names = []
                    for t in st.targets:
                        if isinstance(t, ast.Name):
                            names.append(t.id)
                    for name in names:
                        if not name.startswith('t_') or name in seen:
                            continue
                        seen.add(name)
                        states, tok = state_token(name, list(self.states))
                        if isinstance(st.value, ast.Constant) and isinstance(st.value.value, str):
                            if tok == 'ignore':
                                for s in states:
                                    self.ignore[s] = st.value.value
                            elif tok in ('error', 'eof'):
                                pass
                            else:
                                r = LexRule(name, states, tok, st.value.value, None, st.lineno, False)
                                for s in states:
                                    self.rules[s].append(r)
                        elif isinstance(st.value, ast.Name) and st.value.id in c.methods:
                            fn = c.methods[st.value.id]
                            if tok == 'error':
                                for s in states:
                                    self.errorf[s] = fn
                            elif tok == 'eof':
                                for s in states:
                                    self.eoff[s] = fn
                            else:
                                doc = ast.get_docstring(fn, clean=False)
                                r = LexRule(name, states, tok, doc, fn, st.lineno, True)
                                for s in states:
                                    self.rules[s].append(r)
                elif isinstance(st, ast.FunctionDef) and st.name.startswith('t_') and st.name not in seen:
                    seen.add(st.name)
                    states, tok = state_token(st.name, list(self.states))
                    if tok == 'error':
                        for s in states:
                            self.errorf[s] = st
                        continue
                    if tok == 'eof':
                        for s in states:
                            self.eoff[s] = st
                        continue
                    doc = None
                    if st.body and isinstance(st.body[0], ast.Expr) and isinstance(st.body[0].value, ast.Constant) \
                            and isinstance(st.body[0].value.value, str):
                        doc = st.body[0].value.value
                    if doc is None:
                        continue
                    r = LexRule(st.name, states, tok, doc, st, st.lineno, True)
                    for s in states:
                        self.rules[s].append(r)
        # ply order: functions by line number, then strings by decreasing regex length
        for s in self.rules:
            funcs = sorted([r for r in self.rules[s] if r.is_func], key=lambda r: r.lineno)
            strs = sorted([r for r in self.rules[s] if not r.is_func], key=lambda r: len(r.pattern), reverse=True)
            self.rules[s] = funcs + strs
        # inclusive states inherit INITIAL
        for s, kind in self.states.items():
            if kind == 'inclusive' and s != 'INITIAL':
                self.rules[s] = self.rules[s] + self.rules['INITIAL']
                self.ignore[s] = self.ignore[s] or self.ignore['INITIAL']
                self.errorf[s] = self.errorf[s] or self.errorf['INITIAL']


# -- structural predicates ---------------------------------------------------------------------

def nullable(parsed):
    return parsed.getwidth()[0] == 0


def has_lookaround(parsed):
    for op, av in _walk(parsed):
        if op in (sre_constants.ASSERT, sre_constants.ASSERT_NOT):
            return True
    return False


def _walk(parsed):
    for op, av in parsed:
        yield op, av
        if op in (sre_constants.MAX_REPEAT, sre_constants.MIN_REPEAT) or \
                getattr(sre_constants, 'POSSESSIVE_REPEAT', None) is op:
            for x in _walk(av[2]):
                yield x
        elif op is sre_constants.SUBPATTERN:
            for x in _walk(av[3]):
                yield x
        elif op is sre_constants.BRANCH:
            for alt in av[1]:
                for x in _walk(alt):
                    yield x
        elif op in (sre_constants.ASSERT, sre_constants.ASSERT_NOT):
            pass  # look-around consumes nothing
        elif getattr(sre_constants, 'ATOMIC_GROUP', None) is op:
            for x in _walk(av):
                yield x


def consuming_atoms(parsed):
    """atoms that consume a character, outside look-arounds"""
    for op, av in _walk(parsed):
        if op in (sre_constants.LITERAL, sre_constants.NOT_LITERAL, sre_constants.IN, sre_constants.ANY,
                  sre_constants.CATEGORY):
            yield op, av


def atom_accepts(op, av, ch, flags):
    o = ord(ch)
    if op is sre_constants.LITERAL:
        return av == o
    if op is sre_constants.NOT_LITERAL:
        return av != o
    if op is sre_constants.ANY:
        return bool(flags & re.DOTALL) or ch != '\n'
    if op is sre_constants.CATEGORY:
        return _category(av, ch)
    if op is sre_constants.IN:
        neg = False
        hit = False
        for iop, iav in av:
            if iop is sre_constants.NEGATE:
                neg = True
            elif iop is sre_constants.LITERAL:
                hit = hit or iav == o
            elif iop is sre_constants.RANGE:
                hit = hit or iav[0] <= o <= iav[1]
            elif iop is sre_constants.CATEGORY:
                hit = hit or _category(iav, ch)
        return hit != neg
    return False


def _category(cat, ch):
    name = str(cat)
    table = {
        'CATEGORY_DIGIT': ch.isdigit(), 'CATEGORY_NOT_DIGIT': not ch.isdigit(),
        'CATEGORY_SPACE': ch.isspace(), 'CATEGORY_NOT_SPACE': not ch.isspace(),
        'CATEGORY_WORD': ch.isalnum() or ch == '_', 'CATEGORY_NOT_WORD': not (ch.isalnum() or ch == '_'),
        'CATEGORY_LINEBREAK': ch == '\n', 'CATEGORY_NOT_LINEBREAK': ch != '\n',
    }
    for k, v in table.items():
        if name.endswith(k):
            return v
    return True  # unknown category: assume it may accept


def can_consume(parsed, ch, flags):
    return any(atom_accepts(op, av, ch, flags) for op, av in consuming_atoms(parsed))


def matches_exactly(pattern, flags, s):
    """does the rule's regex match the whole string s (language membership, decided by the re engine on the regex
    text - the regex is data, nothing of the repository is executed)"""
    return re.compile(pattern, flags).fullmatch(s) is not None


def uncond_first(rule, flags):
    """characters c such that the rule matches the one-character string c whatever follows
    (no look-around involved)"""
    p = rule.parsed(flags)
    if has_lookaround(p):
        return set()
    rx = re.compile(rule.pattern, flags)
    return set(c for c in ALPHABET if rx.fullmatch(c) is not None)


def language_subset_of(pattern, flags, strings, probes):
    """True if among the probe strings the regex matches exactly those in `strings` (used for the line-break rules)"""
    rx = re.compile(pattern, flags)
    got = set(p for p in probes if rx.fullmatch(p) is not None)
    return got == set(strings)


def _unbounded(op, av):
    return op in (sre_constants.MAX_REPEAT, sre_constants.MIN_REPEAT) and av[1] >= sre_constants.MAXREPEAT - 1


def _flat(seq):
    """items of a sequence with capturing / non-capturing groups spliced in (groups without alternatives only)"""
    out = []
    for op, av in seq:
        if op is sre_constants.SUBPATTERN:
            out.extend(_flat(av[3]))
        else:
            out.append((op, av))
    return out


def _seq_nullable(items):
    class _P(list):
        pass
    for op, av in items:
        if op in (sre_constants.MAX_REPEAT, sre_constants.MIN_REPEAT):
            if av[0] == 0:
                continue
            if not _seq_nullable(_flat(av[2])):
                return False
            continue
        if op in (sre_constants.ASSERT, sre_constants.ASSERT_NOT, sre_constants.AT):
            continue
        if op is sre_constants.BRANCH:
            if any(_seq_nullable(_flat(alt)) for alt in av[1]):
                continue
            return False
        return False
    return True


def _run_of_inner_repeat(body):
    """the sequence can match as nothing but a run of one unbounded repeat it contains (directly, or through one of the
    alternatives of a branch) while all its other items match the empty string"""
    body = _flat(body)
    for i, (op, av) in enumerate(body):
        rest = body[:i] + body[i + 1:]
        if not _seq_nullable(rest):
            continue
        if _unbounded(op, av):
            return True
        if op is sre_constants.BRANCH and any(_run_of_inner_repeat(alt) for alt in av[1]):
            return True
    return False


def exponential_repeats(parsed):
    """Unbounded repeats whose body contains an unbounded repeat while everything else in the body can match the
    empty string - `(?:X+ Y*)*`, `(X*)*`, `(X+)+`, `(?:X*|YY)*`: a run of X can be cut into body matches in
    exponentially many ways, and a backtracking matcher tries them all when the overall match fails (the lexer hangs
    on a long unterminated literal).  Returns descriptions of the offending sub-expressions (sufficient condition, not
    a decision of ambiguity in general)."""
    out = []
    for op, av in _walk(parsed):
        if not _unbounded(op, av):
            continue
        if _run_of_inner_repeat(av[2]):
            out.append('an unbounded repeat inside an unbounded repeat whose other parts may be empty')
    return out
