"""E7 - rule runner: obligations, floors, known findings, evidence, replay files.

A *check* (one property) is a list of rule functions.  Every rule receives a
`Check` object and reports *obligations*: named instances of the rule found in
the tree, each either discharged or failed.  A failed obligation that is not
listed as an open known finding is a violation.  An `AnalysisError` (missing
subject, floor not reached, internal exception) is exit 2, never a violation
and never a pass.
"""
import json
import os
import sys
import time
import traceback

VERIF = os.path.dirname(os.path.dirname(os.path.abspath(__file__)))


class AnalysisError(Exception):
    """The analyser cannot do its job (subject vanished, floor missed)."""


class Obligation(object):
    __slots__ = ('rule', 'key', 'ok', 'where', 'detail')

    def __init__(self, rule, key, ok, where, detail):
        self.rule, self.key, self.ok, self.where, self.detail = rule, key, bool(ok), where, detail

    def as_sample(self):
        show = self.detail and (not self.ok or self.detail.startswith('audited'))
        return '%s %s @ %s -> %s%s' % (self.rule, self.key, self.where, 'ok' if self.ok else 'FAIL',
                                       (': ' + self.detail) if show else '')


class Check(object):
    def __init__(self, prop, tier, model, repo):
        self.prop = prop
        self.tier = tier
        self.model = model
        self.repo = repo
        self.obligations = []
        self.notes = []
        self.floors = {}
        self.units = set()
        self.rules_doc = {}

    # -- reporting -----------------------------------------------------
    def ob(self, rule, key, ok, where='', detail=''):
        """Record one rule instance.  `key` identifies the construct without
        line numbers; `where` is file:line for the reader."""
        self.obligations.append(Obligation(rule, key, ok, where, detail))
        return bool(ok)

    def note(self, text):
        self.notes.append(text)

    def floor(self, rule, n, why=''):
        """Fewer than n obligations of `rule` = the rule matched fewer
        instances than were confirmed by hand -> analysis error."""
        self.floors[rule] = (n, why)

    def unit(self, *names):
        self.units.update(names)

    def doc(self, rule, text):
        self.rules_doc[rule] = text

    def subject(self, thing, what):
        """A missing subject (public function/class/table) is an analysis error."""
        if thing is None:
            raise AnalysisError('subject missing: %s' % what)
        return thing


def where(mod, node):
    return '%s:%s' % (mod.rel if hasattr(mod, 'rel') else mod, getattr(node, 'lineno', '?'))


def load_known():
    path = os.path.join(VERIF, 'known_findings.json')
    if not os.path.exists(path):
        return []
    with open(path) as f:
        return json.load(f)['findings']


def run_check(prop, rules, tier, model, repo, explanation, assumptions, seed=0, replay=None):
    t0 = time.time()
    chk = Check(prop, tier, model, repo)
    status = 0
    err = None
    try:
        deferred = []
        for rule in rules:
            try:
                rule(chk)
            except AnalysisError as e:
                # the other rules still run: when they report violations those are the informative result
                deferred.append(e)
            except Exception:
                # same for a rule that trips over a construct it does not know: never a pass (exit 2 unless an
                # unlisted violation is reported as well)
                deferred.append(AnalysisError('internal exception in rule %s\n%s' % (
                    getattr(rule, '__name__', '?'), traceback.format_exc())))
        counts = {}
        for o in chk.obligations:
            counts[o.rule] = counts.get(o.rule, 0) + 1
        for rule, (n, why) in sorted(chk.floors.items()):
            if counts.get(rule, 0) < n:
                raise AnalysisError('rule %s matched %d instance(s), floor is %d (%s)' % (
                    rule, counts.get(rule, 0), n, why))
        if not chk.obligations:
            raise AnalysisError('no obligations generated')
    except AnalysisError as e:
        err = 'ANALYSIS-ERROR property=%s %s' % (prop, e)
        status = 2
    except Exception:
        err = 'ANALYSIS-ERROR property=%s internal exception\n%s' % (prop, traceback.format_exc())
        status = 2

    known = [k for k in load_known() if k.get('property') == prop]
    deferred = locals().get('deferred') or []
    open_keys = dict(((k['rule'], k['key']), k) for k in known if k.get('status') == 'open')
    failed = [o for o in chk.obligations if not o.ok]
    violations, knowns = [], []
    for o in failed:
        if (o.rule, o.key) in open_keys:
            knowns.append(o)
        else:
            violations.append(o)

    seen = set()
    for o in knowns:
        if (o.rule, o.key) in seen:
            continue
        seen.add((o.rule, o.key))
        k = open_keys[(o.rule, o.key)]
        print('KNOWN-FINDING: property=%s %s %s @ %s -- %s' % (prop, o.rule, o.key, o.where, k.get('what', o.detail)))
    stale = [k for kk, k in open_keys.items() if kk not in seen]
    for k in stale:
        chk.note('known finding not reproduced on this tree (no longer fails or construct gone): %s %s' % (
            k['rule'], k['key']))

    if deferred and status != 2:
        if violations:
            for e in deferred:
                chk.note('ANALYSIS-ERROR in one rule (other rules report violations): %s' % e)
                print('NOTE (one rule could not analyse this tree: %s)' % e)
        else:
            err = 'ANALYSIS-ERROR property=%s %s' % (prop, deferred[0])
            status = 2
    if err and status == 2 and violations and 'floor is' in err:
        # a rule found fewer instances than confirmed by hand *and* other instances fail: the failing constructs are
        # the informative report (the missing instances are usually a consequence of the same change)
        chk.note(err)
        print(err.replace('ANALYSIS-ERROR', 'NOTE (instance floor missed, reported as part of the violation)'))
        err = None
        status = 0
    if err:
        print(err)
    replay_path = None
    if violations and status == 0:
        status = 1
    if violations:
        os.makedirs(os.path.join(VERIF, 'violations'), exist_ok=True)
        replay_path = os.path.join(VERIF, 'violations', '%s-%s.json' % (prop, tier))
        with open(replay_path, 'w') as f:
            json.dump({'property': prop, 'tier': tier, 'repo': repo,
                       'violations': [{'rule': o.rule, 'key': o.key, 'where': o.where, 'detail': o.detail,
                                       'rule_text': chk.rules_doc.get(o.rule, '')}
                                      for o in violations]}, f, indent=1)
        shown = {}
        for o in violations:
            shown[(o.rule, o.key)] = shown.get((o.rule, o.key), 0) + 1
        done = set()
        for o in violations:
            if (o.rule, o.key) in done:
                continue
            done.add((o.rule, o.key))
            cnt = shown[(o.rule, o.key)]
            print('  %s %s @ %s: %s%s' % (o.rule, o.key, o.where, o.detail, ' [x%d]' % cnt if cnt > 1 else ''))
            if o.rule in chk.rules_doc:
                print('      rule: %s' % chk.rules_doc[o.rule])
        if status == 1:
            print('VIOLATION property=%s replay=%s' % (prop, replay_path))

    wall = time.time() - t0
    n_ob = len(chk.obligations)
    n_ok = len([o for o in chk.obligations if o.ok])
    distinct = len(set((o.rule, o.key) for o in chk.obligations))
    per_rule = {}
    for o in chk.obligations:
        d = per_rule.setdefault(o.rule, {'instances': 0, 'failed': 0})
        d['instances'] += 1
        d['failed'] += 0 if o.ok else 1
    # samples: some of every rule, all failures
    samples, taken = [], {}
    for o in chk.obligations:
        if not o.ok or taken.get(o.rule, 0) < 3:
            samples.append(o.as_sample())
            taken[o.rule] = taken.get(o.rule, 0) + 1
    evidence = {
        'property_id': prop,
        'tier': tier,
        'seed': seed,
        'level': 'other',
        'coverage': {
            'explanation': explanation,
            'obligations': n_ob,
            'discharged': n_ok,
            'evaluations': max(n_ob, 1),
            'distinct_nontrivial': distinct,
            'rule': 'one evaluation = one rule instance (rule x construct) found by parsing the current tree; '
                    'distinct = distinct (rule, construct key) pairs; every instance is non-trivial in that the '
                    'rule had to inspect a concrete construct of the repository',
            'samples': samples[:120],
            'per_rule': per_rule,
            'rules': chk.rules_doc,
            'floors': dict((r, n) for r, (n, _) in chk.floors.items()),
            'units_analysed': sorted(chk.units),
            'known_findings_reported': sorted('%s %s' % kk for kk in seen),
            'notes': chk.notes,
            'analysis_status': 'ok' if status != 2 else 'analysis-error',
            'exhaustive': status != 2,
            'checker_cmd': './vcheck %s --tier %s' % (prop, tier),
            'trusted_base': ['CPython ast/re._parser front-ends', 'ply.yacc LALR table generator (grammar rules only)',
                             'jinja2 parser (template rules only)', 'the rule oracles in /verif/rules'],
        },
        'assumptions': assumptions,
        'wall_s': round(wall, 3),
        'violations': len(violations),
    }
    if not os.environ.get('VERIF_NO_EVIDENCE'):
        os.makedirs(os.path.join(VERIF, 'evidence'), exist_ok=True)
        with open(os.path.join(VERIF, 'evidence', '%s.json' % prop), 'w') as f:
            json.dump(evidence, f, indent=1, sort_keys=True)
    print('%s tier=%s: %d obligations, %d discharged, %d known finding(s), %d violation(s), %.2fs%s' % (
        prop, tier, n_ob, n_ok, len(seen), len(violations), wall, '' if status != 2 else ' [ANALYSIS ERROR]'))
    return status
