"""Definite assignment over the statement CFG (vt/cfg.py): which local names are assigned on *every* path from the
entry to a use.  A use of a local that is not definitely assigned raises NameError / UnboundLocalError at run time on
the path that skips the assignment.  Exceptional edges carry the state *before* the statement (its assignment may
not have happened)."""
import ast
import builtins

from vt.cfg import CFG

_BUILTINS = set(dir(builtins)) | set(['__file__', '__name__', '__doc__', '__package__', '__spec__', '__loader__',
                                       '__builtins__', '__path__'])


def _stores(node):
    """names bound by the header of the statement/expression `node` (not by nested scopes)"""
    out = set()

    def tgt(t):
        for n in ast.walk(t):
            if isinstance(n, ast.Name) and isinstance(n.ctx, (ast.Store, ast.Del)) and isinstance(n.ctx, ast.Store):
                out.add(n.id)
    if isinstance(node, ast.Assign):
        for t in node.targets:
            tgt(t)
    elif isinstance(node, (ast.AugAssign, ast.AnnAssign)):
        tgt(node.target)
    elif isinstance(node, (ast.Import, ast.ImportFrom)):
        for a in node.names:
            out.add((a.asname or a.name).split('.')[0])
    elif isinstance(node, (ast.FunctionDef, ast.AsyncFunctionDef, ast.ClassDef)):
        out.add(node.name)
    elif isinstance(node, (ast.With, ast.AsyncWith)):
        for it in node.items:
            if it.optional_vars is not None:
                tgt(it.optional_vars)
    # walrus anywhere in an expression statement
    for n in _walk_scope(node):
        if isinstance(n, ast.NamedExpr) and isinstance(n.target, ast.Name):
            out.add(n.target.id)
    return out


def _walk_scope(node):
    """nodes of this scope only: no nested function / lambda / class bodies; comprehensions are entered (their
    targets are filtered by the caller)"""
    stack = [node]
    first = True
    while stack:
        n = stack.pop()
        if not first and isinstance(n, (ast.FunctionDef, ast.AsyncFunctionDef, ast.Lambda, ast.ClassDef)):
            continue
        first = False
        yield n
        stack.extend(ast.iter_child_nodes(n))


def _header_parts(node):
    """the sub-trees evaluated by the CFG node itself"""
    a = node.ast
    if node.kind in ('test', 'iter'):
        return [node.expr]
    if node.kind == 'handler':
        return [a.type] if a.type is not None else []
    if node.kind != 'stmt' or a is None:
        return []
    if isinstance(a, (ast.With, ast.AsyncWith)):
        return [it.context_expr for it in a.items]
    if isinstance(a, (ast.FunctionDef, ast.AsyncFunctionDef)):
        return list(a.args.defaults) + [d for d in a.args.kw_defaults if d is not None] + list(a.decorator_list)
    if isinstance(a, ast.ClassDef):
        return list(a.bases) + list(a.decorator_list)
    return [a]


def _loads(part):
    """(name, node) loaded in this scope by `part`, without comprehension-bound names"""
    bound = set()
    for n in _walk_scope(part):
        if isinstance(n, ast.comprehension):
            for t in ast.walk(n.target):
                if isinstance(t, ast.Name):
                    bound.add(t.id)
    for n in _walk_scope(part):
        if isinstance(n, ast.Name) and isinstance(n.ctx, ast.Load) and n.id not in bound:
            yield n.id, n


def possibly_undefined(fn, module_names=(), cfg=None, module_globals=None, enclosing=()):
    """[(name, ast node of the use)] for uses of function-local names that are not assigned on every path to the use.
    `fn` is a FunctionDef (parameters count as assigned) or a Module."""
    cfg = cfg or CFG(fn)
    params = set()
    if isinstance(fn, (ast.FunctionDef, ast.AsyncFunctionDef)):
        a = fn.args
        params = set(x.arg for x in a.args + a.kwonlyargs + getattr(a, 'posonlyargs', []))
        if a.vararg:
            params.add(a.vararg.arg)
        if a.kwarg:
            params.add(a.kwarg.arg)
    declared_global = set()
    for n in _walk_scope(fn):
        if isinstance(n, (ast.Global, ast.Nonlocal)):
            declared_global.update(n.names)
    # locals: every name stored anywhere in this scope
    local = set()
    defs = {}
    for nd in cfg.nodes:
        d = set()
        if nd.kind == 'stmt' and nd.ast is not None:
            d = _stores(nd.ast)
        elif nd.kind == 'handler' and nd.ast.name:
            d = set([nd.ast.name])
        elif nd.kind in ('test',) and nd.expr is not None:
            d = set(n.target.id for n in _walk_scope(nd.expr) if isinstance(n, ast.NamedExpr) and
                    isinstance(n.target, ast.Name))
        defs[nd] = d
        local |= d
    iter_targets = {}
    for nd in cfg.nodes:
        if nd.kind == 'iter':
            t = set(n.id for n in ast.walk(nd.ast.target) if isinstance(n, ast.Name))
            iter_targets[nd] = t
            local |= t
    local -= declared_global
    if not isinstance(fn, ast.Module):
        local -= set()   # parameters stay local but are defined at entry
    universe = frozenset(local)
    pess = _solve(cfg, universe, params & local, defs, iter_targets, local, optimistic_finally=False)
    opti = _solve(cfg, universe, params & local, defs, iter_targets, local, optimistic_finally=True)
    in_finally = set()
    for nd in cfg.nodes:
        if nd.kind == 'finally':
            for x in ast.walk(nd.ast):
                pass
            for st in nd.ast.finalbody:
                for x in ast.walk(st):
                    in_finally.add(id(x))
    out = []
    reachable = cfg.reach([cfg.entry])
    for nd in cfg.nodes:
        if nd not in reachable:
            continue
        fin = nd.ast is not None and id(nd.ast) in in_finally
        IN = pess if fin else opti
        for part in _header_parts(nd):
            if part is None:
                continue
            for name, use in _loads(part):
                if name in local and name not in IN[nd] and name not in module_names:
                    out.append((name, use))
                elif module_globals is not None and name not in local and name not in module_globals and \
                        name not in _BUILTINS and name not in params and name not in enclosing:
                    out.append((name, use))
    return out


def module_level_names(tree):
    """every name bound at module level on some path (assignments, imports, defs, classes, loop/with/except targets)"""
    out = set()
    for n in _walk_scope(tree):
        if isinstance(n, ast.Name) and isinstance(n.ctx, ast.Store):
            out.add(n.id)
        elif isinstance(n, (ast.Import, ast.ImportFrom)):
            for a in n.names:
                out.add((a.asname or a.name).split('.')[0])
        elif isinstance(n, ast.ExceptHandler) and n.name:
            out.add(n.name)
    for n in tree.body:
        if isinstance(n, (ast.FunctionDef, ast.AsyncFunctionDef, ast.ClassDef)):
            out.add(n.name)
    for n in ast.walk(tree):
        if isinstance(n, (ast.FunctionDef, ast.AsyncFunctionDef, ast.ClassDef)) and getattr(n, 'col_offset', 1) == 0:
            out.add(n.name)
        if isinstance(n, ast.Global):
            out.update(n.names)
    # definitions nested in module-level if/try
    for n in _walk_scope(tree):
        if isinstance(n, (ast.FunctionDef, ast.AsyncFunctionDef, ast.ClassDef)) and n is not tree:
            out.add(n.name)
    return out


def _noreturn(nd):
    a = nd.ast
    if nd.kind == 'stmt' and isinstance(a, ast.Expr) and isinstance(a.value, ast.Call):
        f = a.value.func
        t = ast.unparse(f)
        return t in ('sys.exit', 'os._exit', 'exit', 'quit')
    return False


def _solve(cfg, universe, at_entry, defs, iter_targets, local, optimistic_finally):
    IN = dict((nd, universe) for nd in cfg.nodes)
    OUT = dict((nd, universe) for nd in cfg.nodes)
    IN[cfg.entry] = frozenset(at_entry)
    OUT[cfg.entry] = IN[cfg.entry]
    changed = True
    order = list(cfg.nodes)
    while changed:
        changed = False
        for nd in order:
            if nd is cfg.entry:
                continue
            acc = None
            for p, lbl in nd.pred:
                if lbl != 'exc' and _noreturn(p):
                    continue   # sys.exit(...) does not fall through
                if optimistic_finally and nd.kind == 'finally' and lbl == 'exc' and \
                        any(l2 != 'exc' for _, l2 in nd.pred):
                    continue   # state after the finally block: only the normal completion continues past it
                if lbl == 'exc':
                    s = IN[p]
                elif p.kind == 'iter' and lbl == 'T':
                    s = OUT[p] | iter_targets.get(p, frozenset())
                else:
                    s = OUT[p]
                acc = s if acc is None else (acc & s)
            if acc is None:
                acc = universe   # unreachable
            new_out = frozenset(acc | (defs.get(nd, set()) & local))
            if acc != IN[nd] or new_out != OUT[nd]:
                IN[nd], OUT[nd] = acc, new_out
                changed = True
    return IN


def undefined_self_attributes(model, ci, init_only=True):
    """[(attr, node)] for loads of self.<attr> in the methods defined by class `ci` where no class of its MRO assigns
    the attribute (class body or `self.<attr> = ...` in any method) and no base is unresolved"""
    known = set()
    late = {}
    unresolved = False
    for c in ci.mro():
        for b in c.node.bases:
            if model.resolve_class(c.mod, b) is None and ast.unparse(b) != 'object':
                unresolved = True
        for st in c.node.body:
            if isinstance(st, (ast.FunctionDef, ast.AsyncFunctionDef, ast.ClassDef)):
                known.add(st.name)
            elif isinstance(st, ast.Assign):
                for t in st.targets:
                    for n in ast.walk(t):
                        if isinstance(n, ast.Name):
                            known.add(n.id)
            elif isinstance(st, (ast.AugAssign, ast.AnnAssign)) and isinstance(st.target, ast.Name):
                known.add(st.target.id)
            for n in ast.walk(st):
                # conditional class-level definitions (if/try at class level)
                if isinstance(n, ast.Name) and isinstance(n.ctx, ast.Store) and not isinstance(
                        st, (ast.FunctionDef, ast.AsyncFunctionDef)):
                    known.add(n.id)
        for mname_, fn in c.methods.items():
            selfname = fn.args.args[0].arg if fn.args.args else None
            for n in ast.walk(fn):
                if isinstance(n, ast.Attribute) and isinstance(n.ctx, ast.Store) and isinstance(n.value, ast.Name) and \
                        n.value.id == selfname:
                    top = any(n2 is n for st_ in fn.body if isinstance(st_, (ast.Assign, ast.AugAssign, ast.AnnAssign))
                              for n2 in ast.walk(st_))
                    if mname_ == '__init__' or not init_only or top:
                        # __init__, or an unconditional statement of a method body (an entry point such as genCode
                        # that sets per-call state before it dispatches)
                        known.add(n.attr)
                    else:
                        late.setdefault(n.attr, mname_)
                if isinstance(n, ast.Call) and ast.unparse(n.func) == 'setattr' and n.args and \
                        isinstance(n.args[0], ast.Name) and n.args[0].id == selfname and len(n.args) > 1 and \
                        isinstance(n.args[1], ast.Constant):
                    known.add(n.args[1].value)
    if unresolved:
        return None
    out = []
    for fn in ci.methods.values():
        selfname = fn.args.args[0].arg if fn.args.args else None
        if any(ast.unparse(d) in ('staticmethod', 'classmethod') for d in fn.decorator_list):
            continue
        for n in ast.walk(fn):
            if isinstance(n, ast.Attribute) and isinstance(n.ctx, ast.Load) and isinstance(n.value, ast.Name) and \
                    n.value.id == selfname and n.attr not in known and not (n.attr.startswith('__') and
                                                                              n.attr.endswith('__')):
                if n.attr in late and _assigned_before_in(fn, selfname, n):
                    continue   # the method itself assigns the attribute on every path before this read
                out.append((n.attr, n))
    return out


def _assigned_before_in(fn, selfname, use):
    """the attribute read `use` is preceded, in the same method, by an unconditional top-level assignment to it"""
    for st in fn.body:
        if getattr(st, 'lineno', 0) >= use.lineno:
            break
        if isinstance(st, ast.Assign):
            for t in st.targets:
                for n in ast.walk(t):
                    if isinstance(n, ast.Attribute) and isinstance(n.value, ast.Name) and n.value.id == selfname and \
                            n.attr == use.attr:
                        return True
    return False


def returns_none_somewhere(fn, cfg=None):
    """[ast nodes] where the function can complete without a value: `return` / `return None` statements and, when the
    end of the body is reachable, the function node itself"""
    cfg = cfg or CFG(fn)
    out = []
    for nd in cfg.nodes:
        if nd.kind == 'stmt' and isinstance(nd.ast, ast.Return):
            v = nd.ast.value
            if v is None or (isinstance(v, ast.Constant) and v.value is None):
                out.append(nd.ast)
    # fall off the end: exit reachable through a non-'ret' edge
    for p, lbl in cfg.exit.pred:
        if lbl != 'ret' and not _noreturn(p) and p in cfg.reach([cfg.entry]):
            out.append(fn)
            break
    return out
