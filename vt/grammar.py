"""E4 - grammar model: productions per dialect from the p_* docstrings, LALR(1)
tables through ply's own table generator (grammar data only, no parsing).
"""
import ast

import ply.yacc as yacc

from vt.model import MiniEval, ClassVal, FuncVal, Unknown, class_attr_value, module_value
from vt.runner import AnalysisError

PARSER = 'pysmi/parser/smi.py'
LEXER = 'pysmi/lexer/smi.py'


class Prod(object):
    __slots__ = ('lhs', 'rhs', 'fn', 'owner', 'index', 'line')

    def __init__(self, lhs, rhs, fn, owner, index, line):
        self.lhs, self.rhs, self.fn, self.owner, self.index, self.line = lhs, tuple(rhs), fn, owner, index, line

    def key(self):
        return (self.lhs, self.rhs)

    def __repr__(self):
        return '%s -> %s' % (self.lhs, ' '.join(self.rhs) or '<empty>')


def parse_doc(doc, where_):
    """docstring grammar -> list of (lhs, [symbols]) in order (ply syntax)."""
    out = []
    lhs = None
    for raw in doc.splitlines():
        toks = raw.split()
        if not toks:
            continue
        if toks[0] == '|':
            if lhs is None:
                raise AnalysisError('misplaced | in grammar docstring %s' % where_)
            out.append((lhs, toks[1:]))
        else:
            if len(toks) < 2 or toks[1] not in (':', '::='):
                raise AnalysisError('bad grammar docstring %s: %r' % (where_, raw))
            lhs = toks[0]
            # alternatives on the same line separated by |
            syms, cur = [], []
            for t in toks[2:]:
                if t == '|':
                    syms.append(cur)
                    cur = []
                else:
                    cur.append(t)
            syms.append(cur)
            for s in syms:
                out.append((lhs, s))
    return out


def rule_functions(model, options):
    """name -> (FunctionDef, owner description) for the dialect: base class rules overridden by the relaxation
    functions of every enabled option, in the order parserFactory applies them."""
    ci = model.cls(PARSER, 'SmiV2Parser')
    funcs = {}
    for c in reversed(ci.mro()):
        for name, fn in c.methods.items():
            if name.startswith('p_'):
                funcs[name] = (fn, c.name)
    rg = module_value(model, PARSER, 'relaxedGrammar')
    for opt, on in options.items():
        if not on:
            continue
        if opt not in rg:
            raise AnalysisError('dialect option %s not in relaxedGrammar' % opt)
        for fv in rg[opt]:
            if not isinstance(fv, FuncVal):
                raise AnalysisError('relaxedGrammar[%s] holds a non-function' % opt)
            funcs[fv.node.name] = (fv.node, fv.cls.name if fv.cls else opt)
    return funcs


def productions(model, options):
    funcs = rule_functions(model, options)
    prods = []
    # ply orders rule functions by (line number, file, name) of the function objects; all live in one file
    for name, (fn, owner) in sorted(funcs.items(), key=lambda kv: (kv[1][0].lineno, kv[0])):
        if name == 'p_error':
            continue
        doc = ast.get_docstring(fn, clean=False)
        if not doc:
            raise AnalysisError('grammar rule %s has no docstring' % name)
        for i, (lhs, rhs) in enumerate(parse_doc(doc, '%s.%s' % (owner, name))):
            prods.append(Prod(lhs, rhs, fn, owner, i, fn.lineno))
    return prods


def lexer_tables(model, options):
    """(reserved dict, forbidden list, tokens list) of the lexer class lexerFactory would build."""
    reserved = class_attr_value(model, LEXER, 'SmiV2Lexer', 'reserved')
    forbidden = class_attr_value(model, LEXER, 'SmiV2Lexer', 'forbidden_words')
    tokens = class_attr_value(model, LEXER, 'SmiV2Lexer', 'tokens')
    rg = module_value(model, LEXER, 'relaxedGrammar')
    mod = model.mod(LEXER)
    ev = MiniEval(model, mod)
    for opt, on in options.items():
        if not on:
            continue
        if opt not in rg:
            raise AnalysisError('dialect option %s not in the lexer relaxedGrammar' % opt)
        for fv in rg[opt]:
            try:
                val = ev.call(fv, [], {})
            except Unknown as e:
                raise AnalysisError('cannot evaluate lexer relaxation %s: %s' % (fv.node.name, e))
            if fv.node.name == 'reserved':
                reserved = val
            elif fv.node.name == 'forbidden_words':
                forbidden = val
            elif fv.node.name == 'tokens':
                tokens = val
            else:
                raise AnalysisError('unknown lexer relaxation attribute %s' % fv.node.name)
    return reserved, forbidden, tokens


class Dialect(object):
    def __init__(self, model, options, start='mibFile'):
        self.options = dict((k, v) for k, v in options.items() if v)
        self.prods = productions(model, options)
        self.reserved, self.forbidden, self.tokens = lexer_tables(model, options)
        self.start = start
        self.error = None
        self.sr, self.rr = [], []
        self.undefined = []
        self.unused_terminals = []
        self.unreachable = []
        self._build()

    def _build(self):
        g = yacc.Grammar(list(self.tokens))
        self.g = g
        for p in self.prods:
            try:
                g.add_production(p.lhs, list(p.rhs), None, 'grammar', p.line)
            except yacc.GrammarError as e:
                self.error = str(e)
                return
        try:
            g.set_start(self.start)
        except yacc.GrammarError as e:
            self.error = str(e)
            return
        self.undefined = [(sym, prod.name) for sym, prod in g.undefined_symbols()]
        if self.undefined:
            self.error = 'undefined symbols: %s' % sorted(set(s for s, _ in self.undefined))
            return
        self.unused_terminals = g.unused_terminals()
        self.unreachable = g.find_unreachable()
        try:
            lr = yacc.LRGeneratedTable(g, 'LALR')
        except Exception as e:
            self.error = 'LALR generation failed: %s' % e
            return
        self.lr = lr
        self.sr = list(lr.sr_conflicts)   # (state, token, resolution)
        self.rr = list(lr.rr_conflicts)   # (state, rule, rejected)

    @property
    def buildable(self):
        return self.error is None

    def prodset(self):
        return set(p.key() for p in self.prods)

    def by_lhs(self):
        d = {}
        for p in self.prods:
            d.setdefault(p.lhs, []).append(p)
        return d

    def conflict_details(self):
        """For each conflict: (kind, state, token, kept, discarded productions as (lhs, rhs))."""
        out = []
        if not self.buildable:
            return out
        lr = self.lr
        for state, tok, resolution in self.sr:
            # find reduce candidates in that state on tok
            discarded = []
            items = lr.lr0_items_cache if hasattr(lr, 'lr0_items_cache') else None
            out.append(('shift/reduce', state, tok, resolution, None))
        for state, rule, rejected in self.rr:
            out.append(('reduce/reduce', state, None, (rule.name, tuple(rule.prod)),
                        (rejected.name, tuple(rejected.prod))))
        return out


def all_option_names(model):
    return list(module_value(model, PARSER, 'relaxedGrammar'))


def shipped_dialects(model):
    out = {}
    for name in ('smiV2', 'smiV1', 'smiV1Relaxed'):
        out[name] = dict(module_value(model, 'pysmi/parser/dialect.py', name))
    return out
