"""E1 - statement-level control-flow graph for one function.

Node kinds
  entry / exit (normal return) / raise (exception leaves the function)
  stmt     simple statement (also the header of a `with`)
  test     `if` / `while` test; out-edges labelled 'T' / 'F'
  iter     `for` header; 'T' = next item (body), 'F' = exhausted (orelse / after)
  dispatch exception dispatch of one `try`: 'exc' edges to its handlers and, when
           no handler is a catch-all, to the enclosing exception target
  handler  entry of one `except` clause
  finally  entry of a `finally` body
  join     structural no-op

Edge labels: 'n' fall-through, 'T'/'F', 'exc' may-raise, 'ret', 'brk', 'cnt'.
Every node that can raise (anything except pass/break/continue/global) has an
'exc' edge to the innermost exception target.  `finally` bodies are built once
and continue to every kind of continuation that entered them (a sound
over-approximation of paths).
"""
import ast

CATCH_ALL = ('Exception', 'BaseException')


class Node(object):
    __slots__ = ('id', 'kind', 'ast', 'expr', 'succ', 'pred', 'try_ast')

    def __init__(self, id, kind, ast_node=None, expr=None):
        self.id, self.kind, self.ast, self.expr = id, kind, ast_node, expr
        self.succ = []  # (node, label)
        self.pred = []  # (node, label)
        self.try_ast = None

    @property
    def lineno(self):
        n = self.expr if self.expr is not None else self.ast
        return getattr(n, 'lineno', None)

    def __repr__(self):
        return '<%s#%d L%s>' % (self.kind, self.id, self.lineno)


class _Fin(object):
    def __init__(self, node):
        self.node = node
        self.kinds = set()  # continuation kinds that entered: 'n','exc','ret','brk','cnt'
        self.brk = None
        self.cnt = None


class CFG(object):
    def __init__(self, fn):
        self.fn = fn
        self.nodes = []
        self.entry = self._new('entry')
        self.exit = self._new('exit')
        self.raise_exit = self._new('raise')
        self.by_ast = {}
        self._loops = []   # (break_collector list, continue_target node, fin_depth)
        self._exc = [self.raise_exit]
        self._fins = []
        out = self._block(fn.body, [(self.entry, 'n')])
        self._connect(out, self.exit)
        self._dom = None
        self._pdom = {}

    # -- construction -----------------------------------------------------
    def _new(self, kind, ast_node=None, expr=None):
        n = Node(len(self.nodes), kind, ast_node, expr)
        self.nodes.append(n)
        if ast_node is not None and kind in ('stmt', 'test', 'iter', 'handler', 'dispatch'):
            self.by_ast.setdefault(id(ast_node), n)
        return n

    def _edge(self, a, b, label):
        if (b, label) not in a.succ:
            a.succ.append((b, label))
            b.pred.append((a, label))

    def _connect(self, pend, node):
        for a, label in pend:
            self._edge(a, node, label)

    def _may_raise(self, node):
        if node.kind != 'stmt':
            return True
        st = node.ast
        if isinstance(st, (ast.Pass, ast.Break, ast.Continue, ast.Global, ast.Nonlocal)):
            return False
        if isinstance(st, ast.Expr) and isinstance(st.value, ast.Constant):
            return False
        return True

    def _exc_edge(self, node):
        if self._may_raise(node):
            self._edge(node, self._exc[-1], 'exc')

    def _block(self, stmts, pend):
        for st in stmts:
            pend = self._stmt(st, pend)
        return pend

    def _jump(self, node, kind, target, fin_depth):
        """Route a return/break/continue through enclosing finally bodies."""
        if len(self._fins) > fin_depth:
            fin = self._fins[-1]
            fin.kinds.add(kind)
            self._edge(node, fin.node, kind)
            if kind == 'brk':
                fin.brk = target
            elif kind == 'cnt':
                fin.cnt = target
        else:
            if kind == 'brk':
                target.append((node, 'brk'))
            else:
                self._edge(node, target, kind)

    def _stmt(self, st, pend):
        if isinstance(st, ast.If):
            t = self._new('test', st, st.test)
            self._connect(pend, t)
            self._exc_edge(t)
            out = self._block(st.body, [(t, 'T')])
            out += self._block(st.orelse, [(t, 'F')])
            return out
        if isinstance(st, ast.While):
            t = self._new('test', st, st.test)
            self._connect(pend, t)
            self._exc_edge(t)
            brk = []
            self._loops.append((brk, t, len(self._fins)))
            body_out = self._block(st.body, [(t, 'T')])
            self._loops.pop()
            for a, label in body_out:
                self._edge(a, t, label if label != 'n' else 'n')
            const_true = isinstance(st.test, ast.Constant) and bool(st.test.value)
            out = self._block(st.orelse, [] if const_true else [(t, 'F')])
            return out + brk
        if isinstance(st, (ast.For, ast.AsyncFor)):
            it = self._new('iter', st, st.iter)
            self._connect(pend, it)
            self._exc_edge(it)
            brk = []
            self._loops.append((brk, it, len(self._fins)))
            body_out = self._block(st.body, [(it, 'T')])
            self._loops.pop()
            self._connect(body_out, it)
            out = self._block(st.orelse, [(it, 'F')])
            return out + brk
        if isinstance(st, ast.Try):
            return self._try(st, pend)
        if isinstance(st, (ast.With, ast.AsyncWith)):
            n = self._new('stmt', st)
            self._connect(pend, n)
            self._exc_edge(n)
            return self._block(st.body, [(n, 'n')])
        if isinstance(st, (ast.FunctionDef, ast.AsyncFunctionDef, ast.ClassDef)):
            n = self._new('stmt', st)
            self._connect(pend, n)
            return [(n, 'n')]
        n = self._new('stmt', st)
        self._connect(pend, n)
        self._exc_edge(n)
        if isinstance(st, ast.Return):
            self._jump(n, 'ret', self.exit, 0)
            return []
        if isinstance(st, ast.Raise):
            return []
        if isinstance(st, ast.Break):
            if self._loops:
                brk, _, depth = self._loops[-1]
                self._jump(n, 'brk', brk, depth)
            return []
        if isinstance(st, ast.Continue):
            if self._loops:
                _, head, depth = self._loops[-1]
                self._jump(n, 'cnt', head, depth)
            return []
        return [(n, 'n')]

    def _try(self, st, pend):
        fin = None
        if st.finalbody:
            fin = _Fin(self._new('finally', st))
        outer_exc = self._exc[-1]
        # exception target while inside handlers / else: finally (if any) else outer
        after_target = fin.node if fin else outer_exc
        if fin:
            self._fins.append(fin)
        if st.handlers:
            disp = self._new('dispatch', st)
            disp.try_ast = st
            self._exc.append(disp)
        else:
            disp = None
            self._exc.append(after_target)
        body_out = self._block(st.body, pend)
        self._exc.pop()
        outs = []
        self._exc.append(after_target)
        if disp is not None:
            catch_all = False
            for h in st.handlers:
                hn = self._new('handler', h)
                hn.try_ast = st
                self._edge(disp, hn, 'exc')
                if h.type is None or (isinstance(h.type, ast.Name) and h.type.id in CATCH_ALL):
                    catch_all = True
                outs += self._block(h.body, [(hn, 'n')])
            if not catch_all:
                self._edge(disp, after_target, 'exc')
                if fin:
                    fin.kinds.add('exc')
        outs += self._block(st.orelse, body_out)
        self._exc.pop()
        if not fin:
            return outs
        self._fins.pop()
        # exceptional entries into finally from handler/else bodies
        if any(lbl == 'exc' for _, lbl in fin.node.pred):
            fin.kinds.add('exc')
        self._connect(outs, fin.node)
        if outs:
            fin.kinds.add('n')
        fout = self._block(st.finalbody, [(fin.node, 'n')])
        result = []
        for a, label in fout:
            if 'n' in fin.kinds:
                result.append((a, label))
            if 'exc' in fin.kinds:
                self._edge(a, outer_exc, 'exc')
            if 'ret' in fin.kinds:
                self._jump(a, 'ret', self.exit, len(self._fins))
            if 'brk' in fin.kinds and fin.brk is not None:
                self._jump(a, 'brk', fin.brk, len(self._fins))
            if 'cnt' in fin.kinds and fin.cnt is not None:
                self._jump(a, 'cnt', fin.cnt, len(self._fins))
        return result

    # -- queries ----------------------------------------------------------------
    def node_of(self, ast_node):
        """CFG node of a statement (or the statement enclosing an expression)."""
        n = ast_node
        while n is not None:
            if id(n) in self.by_ast:
                return self.by_ast[id(n)]
            n = getattr(n, '_parent', None)
        return None

    def succs(self, n, labels=None, skip=()):
        for m, l in n.succ:
            if (labels is None or l in labels) and l not in skip:
                yield m

    def reach(self, srcs, avoid=(), skip_labels=(), edge_filter=None):
        """Nodes reachable from srcs (srcs themselves included) without passing
        through `avoid` nodes and without using edges with skip_labels."""
        avoid = set(avoid)
        seen = set()
        stack = [s for s in (srcs if isinstance(srcs, (list, tuple, set)) else [srcs]) if s not in avoid]
        while stack:
            n = stack.pop()
            if n in seen:
                continue
            seen.add(n)
            for m, l in n.succ:
                if l in skip_labels or m in avoid or m in seen:
                    continue
                if edge_filter is not None and not edge_filter(n, m, l):
                    continue
                stack.append(m)
        return seen

    def reach_from_edges(self, edges, avoid=(), skip_labels=(), edge_filter=None):
        """Reachability starting from the targets of specific (node,label) edges."""
        starts = []
        for n, label in edges:
            for m, l in n.succ:
                if l == label and m not in avoid:
                    starts.append(m)
        return self.reach(starts, avoid, skip_labels, edge_filter)

    def dominators(self, skip_labels=()):
        key = tuple(sorted(skip_labels))
        if self._dom is None:
            self._dom = {}
        if key in self._dom:
            return self._dom[key]
        reach = self.reach(self.entry, skip_labels=skip_labels)
        order = [n for n in self.nodes if n in reach]
        dom = dict((n, set(order)) for n in order)
        dom[self.entry] = set([self.entry])
        changed = True
        while changed:
            changed = False
            for n in order:
                if n is self.entry:
                    continue
                ps = [p for p, l in n.pred if l not in skip_labels and p in dom]
                new = None
                for p in ps:
                    new = set(dom[p]) if new is None else new & dom[p]
                new = (new or set()) | set([n])
                if new != dom[n]:
                    dom[n] = new
                    changed = True
        self._dom[key] = dom
        return dom

    def dominates(self, a, b, skip_labels=()):
        dom = self.dominators(skip_labels)
        return b in dom and a in dom[b]

    def postdominators(self, exits, skip_labels=()):
        """post-dominator sets with respect to the given exit nodes."""
        key = (tuple(sorted(e.id for e in exits)), tuple(sorted(skip_labels)))
        if key in self._pdom:
            return self._pdom[key]
        # nodes that can reach an exit
        can = set()
        stack = list(exits)
        while stack:
            n = stack.pop()
            if n in can:
                continue
            can.add(n)
            for p, l in n.pred:
                if l not in skip_labels:
                    stack.append(p)
        order = [n for n in self.nodes if n in can]
        pdom = dict((n, set(order)) for n in order)
        for e in exits:
            pdom[e] = set([e])
        changed = True
        while changed:
            changed = False
            for n in reversed(order):
                if n in exits:
                    continue
                ss = [m for m, l in n.succ if l not in skip_labels and m in pdom]
                new = None
                for m in ss:
                    new = set(pdom[m]) if new is None else new & pdom[m]
                new = (new or set()) | set([n])
                if new != pdom[n]:
                    pdom[n] = new
                    changed = True
        self._pdom[key] = pdom
        return pdom

    def stmt_nodes(self):
        return [n for n in self.nodes if n.kind in ('stmt', 'test', 'iter')]

    def handler_of(self, node):
        """The handler node whose body (transitively) contains `node`'s ast, or None."""
        a = node.ast
        while a is not None:
            if isinstance(a, ast.ExceptHandler):
                return self.by_ast.get(id(a))
            a = getattr(a, '_parent', None)
            if a is self.fn:
                return None
        return None

    def dump(self):
        out = []
        for n in self.nodes:
            out.append('%r -> %s' % (n, ', '.join('%r[%s]' % (m, l) for m, l in n.succ)))
        return '\n'.join(out)


def enclosing_trys(node_ast, fn):
    """Try statements whose *body* contains node_ast, innermost first."""
    out = []
    child, a = node_ast, getattr(node_ast, '_parent', None)
    while a is not None and a is not fn:
        if isinstance(a, ast.Try) and any(child is s for s in a.body):
            out.append(a)
        child, a = a, getattr(a, '_parent', None)
    return out


def in_subtree(node_ast, root):
    a = node_ast
    while a is not None:
        if a is root:
            return True
        a = getattr(a, '_parent', None)
    return False
