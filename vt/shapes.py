"""E3 - shape analysis of the grammar actions.

For every production alternative the action function (p_*) is interpreted
abstractly: `len(p)` is concrete, `p[i]` is the symbolic value Sym(i) of the
i-th RHS symbol, and the result is a *term* for p[0].  A grammar-wide fixpoint
gives each nonterminal an abstract value (AV) describing the shapes its value
can take (None, str, int that may be 0, fixed-arity tuples with constant tags,
lists with element shape), which supplies the truthiness facts needed to fold
the repository's `a and b or c` / `if p[1]:` idioms.

Terms
  Sym(i)                value of RHS symbol i
  Const(v)
  Tup([t...])           tuple display
  Lst([t...])           list display
  Cat(a, b)             a + b   (lists or strings)
  Idx(t, i) / Slc(t, lo, hi)
  Dict()                opaque dict built by a loop
  Cond(test, a, b)      test is a term; truthiness unknown
  IsInst(t, typename)
  Opaque(text)          anything else
"""
import ast

from vt.model import norm, walk_no_nested
from vt.runner import AnalysisError


class Term(object):
    def syms(self):
        return []

    def key(self):
        return repr(self)


class Sym(Term):
    def __init__(self, i):
        self.i = i

    def syms(self):
        return [self.i]

    def __repr__(self):
        return 'p%d' % self.i


class Const(Term):
    def __init__(self, v):
        self.v = v

    def __repr__(self):
        return repr(self.v)


class Tup(Term):
    def __init__(self, items):
        self.items = list(items)

    def syms(self):
        return [s for t in self.items for s in t.syms()]

    def __repr__(self):
        return '(%s)' % ', '.join(map(repr, self.items))


class Lst(Term):
    def __init__(self, items):
        self.items = list(items)

    def syms(self):
        return [s for t in self.items for s in t.syms()]

    def __repr__(self):
        return '[%s]' % ', '.join(map(repr, self.items))


class Cat(Term):
    def __init__(self, a, b):
        self.a, self.b = a, b

    def syms(self):
        return self.a.syms() + self.b.syms()

    def __repr__(self):
        return '%r + %r' % (self.a, self.b)


class Idx(Term):
    def __init__(self, t, i):
        self.t, self.i = t, i

    def syms(self):
        return self.t.syms()

    def __repr__(self):
        return '%r[%r]' % (self.t, self.i)


class Slc(Term):
    def __init__(self, t, lo, hi):
        self.t, self.lo, self.hi = t, lo, hi

    def syms(self):
        return self.t.syms()

    def __repr__(self):
        return '%r[%s:%s]' % (self.t, '' if self.lo is None else self.lo, '' if self.hi is None else self.hi)


class DictT(Term):
    def __init__(self, src):
        self.src = src

    def syms(self):
        return self.src.syms()

    def __repr__(self):
        return 'dict(%r)' % self.src


class Cond(Term):
    def __init__(self, test, a, b):
        # canonical polarity: a test `x is None` selects the *absent* case, so it is kept as `x is not None` with the
        # branches exchanged (the source model orients two-armed ifs on the positive comparison, see vt/model.py)
        if isinstance(test, IsNone) and not test.neg:
            test, a, b = IsNone(test.t, True), b, a
        self.test, self.a, self.b = test, a, b

    def syms(self):
        return self.a.syms()  # "present" branch

    def all_syms(self):
        return self.test.syms() + self.a.syms() + self.b.syms()

    def __repr__(self):
        return '(%r if %r else %r)' % (self.a, self.test, self.b)


class IsInst(Term):
    def __init__(self, t, tn):
        self.t, self.tn = t, tn

    def syms(self):
        return []

    def __repr__(self):
        return 'isinstance(%r, %s)' % (self.t, self.tn)


class IsNone(Term):
    """`t is None` (neg=False) / `t is not None` (neg=True)"""
    def __init__(self, t, neg):
        self.t, self.neg = t, neg

    def syms(self):
        return []

    def __repr__(self):
        return '%r is %sNone' % (self.t, 'not ' if self.neg else '')


class Eq(Term):
    def __init__(self, a, b):
        self.a, self.b = a, b

    def __repr__(self):
        return '%r == %r' % (self.a, self.b)


class Opaque(Term):
    def __init__(self, text, parts=()):
        self.text, self.parts = text, list(parts)

    def syms(self):
        return [s for t in self.parts for s in t.syms()]

    def __repr__(self):
        return '<%s>' % self.text


NONE = Const(None)

# ------------------------------------------------------------------------------------------- abstract values
DEPTH = 7


class AV(object):
    """join-semilattice element; fields:
       none: bool, s: None|'ne'|'e' (string: non-empty / maybe empty), i: None|'nz'|'z' (int: non-zero / maybe zero)
       tuples: {(arity, tag): [AV...]}, lst: None | [elemAV, may_be_empty(bool), may_be_nonempty(bool)]
       dct: bool, top: bool"""
    __slots__ = ('none', 's', 'i', 'tuples', 'lst', 'dct', 'top')

    def __init__(self):
        self.none, self.s, self.i, self.tuples, self.lst, self.dct, self.top = False, None, None, {}, None, False, False

    def copy(self):
        a = AV()
        a.none, a.s, a.i, a.dct, a.top = self.none, self.s, self.i, self.dct, self.top
        a.tuples = dict((k, [x.copy() for x in v]) for k, v in self.tuples.items())
        a.lst = [self.lst[0].copy(), self.lst[1], self.lst[2]] if self.lst else None
        return a

    def is_bottom(self):
        return not (self.none or self.s or self.i or self.tuples or self.lst or self.dct or self.top)

    def join(self, o, depth=0):
        """in-place join; returns True if changed"""
        ch = False
        if o.none and not self.none:
            self.none, ch = True, True
        if o.s and self.s != 'e' and self.s != o.s:
            self.s, ch = ('e' if o.s == 'e' or self.s == 'e' else 'ne'), True
        if o.i and self.i != 'z' and self.i != o.i:
            self.i, ch = ('z' if o.i == 'z' or self.i == 'z' else 'nz'), True
        if o.dct and not self.dct:
            self.dct, ch = True, True
        if o.top and not self.top:
            self.top, ch = True, True
        if depth >= DEPTH:
            if (o.tuples or o.lst) and not self.top:
                self.top, ch = True, True
            return ch
        for k, items in o.tuples.items():
            if k not in self.tuples:
                self.tuples[k] = [x.copy() for x in items]
                ch = True
            else:
                for mine, theirs in zip(self.tuples[k], items):
                    ch = mine.join(theirs, depth + 1) or ch
        if o.lst:
            if not self.lst:
                self.lst = [o.lst[0].copy(), o.lst[1], o.lst[2]]
                ch = True
            else:
                ch = self.lst[0].join(o.lst[0], depth + 1) or ch
                if o.lst[1] and not self.lst[1]:
                    self.lst[1], ch = True, True
                if o.lst[2] and not self.lst[2]:
                    self.lst[2], ch = True, True
        return ch

    def truth(self):
        """'T', 'F' or '?'"""
        can_t = bool(self.s or self.i == 'nz' or self.i == 'z' or self.tuples or self.dct or self.top or (
            self.lst and self.lst[2]))
        can_f = bool(self.none or self.s == 'e' or self.i == 'z' or self.top or (self.lst and self.lst[1]) or
                     any(k[0] == 0 for k in self.tuples))
        if self.is_bottom():
            return 'F'
        if can_t and not can_f:
            return 'T'
        if can_f and not can_t:
            return 'F'
        return '?'

    def lossy_falsy(self):
        """falsy values that still carry information: the integer 0 or the empty string"""
        out = []
        if self.i == 'z':
            out.append('the number 0')
        if self.s == 'e':
            out.append('the empty string')
        return out

    def falsy_part(self):
        a = AV()
        a.none = self.none
        if self.s == 'e':
            a.s = 'e'
        if self.i == 'z':
            a.i = 'z'
        if self.lst and self.lst[1]:
            a.lst = [self.lst[0].copy(), True, False]
        a.top = self.top
        return a

    def truthy_part(self):
        a = self.copy()
        a.none = False
        if a.s:
            a.s = 'ne'
        if a.i:
            a.i = 'nz'
        if a.lst:
            a.lst[1] = False
        return a

    def always_none(self):
        return self.none and not (self.s or self.i or self.tuples or self.lst or self.dct or self.top)

    def describe(self, depth=0):
        if depth > 3:
            return '..'
        parts = []
        if self.none:
            parts.append('None')
        if self.s:
            parts.append('str' if self.s == 'ne' else 'str?')
        if self.i:
            parts.append('int' if self.i == 'nz' else 'int0')
        for (ar, tag), items in sorted(self.tuples.items(), key=lambda kv: (kv[0][0], str(kv[0][1]))):
            parts.append('(%s)' % ', '.join(([repr(tag)] if tag is not None else []) + [
                x.describe(depth + 1) for x in items[(1 if tag is not None else 0):]]))
        if self.lst:
            parts.append('[%s%s]' % (self.lst[0].describe(depth + 1), '*' if self.lst[1] else '+'))
        if self.dct:
            parts.append('dict')
        if self.top:
            parts.append('T')
        return '|'.join(parts) or 'bottom'


def av_none():
    a = AV()
    a.none = True
    return a


def av_str(empty=False):
    a = AV()
    a.s = 'e' if empty else 'ne'
    return a


def av_int(zero):
    a = AV()
    a.i = 'z' if zero else 'nz'
    return a


def av_top():
    a = AV()
    a.top = True
    return a


INT_TOKENS = {'NUMBER': True, 'NEGATIVENUMBER': False, 'NUMBER64': False, 'NEGATIVENUMBER64': False}


# ------------------------------------------------------------------------------------------- action evaluator
class NonTokenValue(Exception):
    """a grammar action takes a value from the parser object (self.<attr>) instead of from the matched symbols"""


class Unsupported(Exception):
    pass


STR_TRANSFORMS = ('strip', 'lstrip', 'rstrip', 'lower', 'upper', 'title', 'capitalize', 'swapcase', 'casefold',
                  'replace', 'expandtabs', 'translate', 'split', 'rsplit', 'splitlines', 'zfill', 'center', 'ljust',
                  'rjust', 'encode', 'decode', 'format', 'join', 'partition', 'rpartition')


def transforms_in(t):
    """names of string methods applied to parse values inside term t"""
    out = []
    seen = set()

    def walk(x):
        if id(x) in seen:
            return
        seen.add(id(x))
        if isinstance(x, Opaque) and isinstance(x.text, str) and x.text.startswith('str.'):
            out.append(x.text[4:])
        if isinstance(x, Opaque) and isinstance(x.text, str) and x.text.startswith('order.'):
            out.append(x.text)
        for k in ('parts', 'items'):
            for y in getattr(x, k, None) or []:
                walk(y)
        for k in ('a', 'b', 't', 'test', 'src'):
            y = getattr(x, k, None)
            if y is not None and not isinstance(y, (str, int, bool)):
                walk(y)
    walk(t)
    return out


class ActionEval(object):
    """evaluate one p_* function for one alternative"""

    def __init__(self, fn, rhs, sym_av):
        self.fn, self.rhs, self.sym_av = fn, rhs, sym_av
        self.pname = fn.args.args[-1].arg
        self.env = {}
        self.p0 = None
        self.truth_tests = []   # (term, AV, node) truthiness tests performed on symbolic values

    def run(self):
        self.block(self.fn.body)
        return self.p0 if self.p0 is not None else NONE

    # concrete evaluation helper for control flow
    def block(self, stmts):
        for st in stmts:
            self.stmt(st)

    def stmt(self, st):
        if isinstance(st, ast.Expr):
            return
        if isinstance(st, ast.Pass):
            return
        if isinstance(st, ast.Assign) and len(st.targets) == 1:
            t = st.targets[0]
            v = self.ev(st.value)
            if isinstance(t, ast.Subscript) and isinstance(t.value, ast.Name) and t.value.id == self.pname:
                if isinstance(t.slice, ast.Constant) and t.slice.value == 0:
                    self.p0 = v
                    return
                raise Unsupported('store to p[%s]' % norm(t.slice))
            if isinstance(t, ast.Name):
                self.env[t.id] = v
                return
            if isinstance(t, ast.Tuple) and all(isinstance(e, ast.Name) for e in t.elts):
                for k, e in enumerate(t.elts):
                    self.env[e.id] = Idx(v, k)
                return
            if isinstance(t, ast.Subscript) and isinstance(t.value, ast.Name) and t.value.id in self.env:
                # importDict[fromModule] = symbols
                self.env[t.value.id] = DictT(self.env.get('__dict_src__', Opaque('dict')))
                return
            raise Unsupported('assign %s' % norm(st))
        if isinstance(st, ast.AugAssign) and isinstance(st.target, ast.Name) and isinstance(st.op, ast.Add):
            cur = self.env.get(st.target.id)
            if cur is None:
                raise Unsupported('augassign to unknown')
            self.env[st.target.id] = Cat(cur, self.ev(st.value))
            return
        if isinstance(st, ast.AugAssign):
            t = st.target
            if isinstance(t, ast.Subscript) and isinstance(t.value, ast.Name) and t.value.id in self.env:
                self.env[t.value.id] = DictT(self.env.get('__dict_src__', Opaque('dict')))
            return  # dict element update inside loops (importPart)
        if isinstance(st, ast.If):
            t = self.test(st.test)
            if t is True:
                self.block(st.body)
            elif t is False:
                self.block(st.orelse)
            else:
                # both branches; merge p0 / env as Cond
                save_env, save_p0 = dict(self.env), self.p0
                self.block(st.body)
                env_a, p0_a = self.env, self.p0
                self.env, self.p0 = dict(save_env), save_p0
                self.block(st.orelse)
                env_b, p0_b = self.env, self.p0
                self.env = {}
                for k in set(env_a) | set(env_b):
                    a, b = env_a.get(k), env_b.get(k)
                    if a is b:
                        self.env[k] = a
                    else:
                        self.env[k] = Cond(t, a or NONE, b or NONE)
                if p0_a is p0_b:
                    self.p0 = p0_a
                else:
                    self.p0 = Cond(t, p0_a or NONE, p0_b or NONE)
            return
        if isinstance(st, ast.For) and isinstance(st.iter, ast.Tuple) and isinstance(st.target, ast.Name) and \
                not st.orelse and not any(isinstance(x, (ast.Break, ast.Continue)) for s in st.body for x in ast.walk(s)):
            # a loop over a literal tuple of values: unrolled
            for item in st.iter.elts:
                self.env[st.target.id] = self.ev(item)
                self.block(st.body)
            return
        if isinstance(st, ast.For):
            # p_importPart: builds a dict from a list of pairs
            self.env['__dict_src__'] = self.ev(st.iter)
            elem = Opaque('element', [self.env['__dict_src__']])
            for tt in (st.target.elts if isinstance(st.target, ast.Tuple) else [st.target]):
                if isinstance(tt, ast.Name):
                    self.env[tt.id] = elem
            for s in st.body:
                try:
                    self.stmt(s)
                except Unsupported:
                    pass
            return
        raise Unsupported('statement %s' % type(st).__name__)

    def test(self, e):
        """True / False / Term(unknown)"""
        v = self.ev(e)
        return self.truth_of(v, e)

    def truth_of(self, v, node=None):
        if isinstance(v, Const):
            return bool(v.v)
        if isinstance(v, (Tup, Lst)):
            return bool(v.items)
        if isinstance(v, Cat):
            a, b = self.truth_of(v.a), self.truth_of(v.b)
            if a is True or b is True:
                return True
            if a is False and b is False:
                return False
            return v
        if isinstance(v, IsInst):
            av = self.av_of(v.t)
            if av is not None and not av.top:
                kinds = {'tuple': bool(av.tuples), 'str': bool(av.s), 'int': bool(av.i), 'list': bool(av.lst),
                         'dict': av.dct}
                mine = kinds.get(v.tn)
                if mine is not None:
                    others = any(val for k, val in kinds.items() if k != v.tn) or av.none
                    if mine and not others:
                        return True
                    if not mine:
                        return False
            return v
        if isinstance(v, IsNone):
            if isinstance(v.t, Const):
                return (v.t.v is None) != v.neg
            av = self.av_of(v.t)
            if av is not None and not av.top:
                if av.always_none():
                    return not v.neg
                if not av.none:
                    return v.neg
            return v
        if isinstance(v, Eq):
            if isinstance(v.a, Const) and isinstance(v.b, Const):
                return v.a.v == v.b.v
            # Sym == 'KEYWORD': token text of a keyword terminal
            for x, y in ((v.a, v.b), (v.b, v.a)):
                if isinstance(x, Sym) and isinstance(y, Const):
                    tt = self.token_text(x.i)
                    if tt is not None:
                        return tt == y.v
                    av = self.av_of(x)
                    if av is not None and not av.top and isinstance(y.v, str) and not av.s:
                        return False  # a value that is never a string cannot equal a string constant
                    sym = self.rhs[x.i - 1] if 0 < x.i <= len(self.rhs) else None
                    if sym in ('UPPERCASE_IDENTIFIER', 'LOWERCASE_IDENTIFIER') and isinstance(y.v, str) and \
                            y.v in (self.reserved_words or ()):
                        return False  # a reserved word is never lexed as an identifier
            return v
        av = self.av_of(v)
        if av is not None:
            t = av.truth()
            self.truth_tests.append((v, av, node))
            if t == 'T':
                return True
            if t == 'F':
                return False
        return v

    token_words = None  # set by the caller: token type -> set of source words (keyword terminals)
    reserved_words = None

    def token_text(self, i):
        sym = self.rhs[i - 1] if 0 < i <= len(self.rhs) else None
        if sym is None:
            return None
        if sym.startswith("'"):
            return sym.strip("'")
        words = (self.token_words or {}).get(sym)
        if words and len(words) == 1:
            return list(words)[0]
        return None

    def av_of(self, t):
        if isinstance(t, Sym):
            return self.sym_av(self.rhs[t.i - 1]) if 0 < t.i <= len(self.rhs) else None
        return term_av(t, lambda i: self.sym_av(self.rhs[i - 1]) if 0 < i <= len(self.rhs) else av_top())

    def ev(self, e):
        if isinstance(e, ast.Constant):
            return Const(e.value)
        if isinstance(e, ast.Name):
            if e.id in self.env:
                return self.env[e.id]
            if e.id == 'None':
                return NONE
            raise Unsupported('name %s' % e.id)
        if isinstance(e, ast.Attribute) and isinstance(e.value, ast.Name) and self.fn.args.args and \
                e.value.id == self.fn.args.args[0].arg and len(self.fn.args.args) > 1:
            raise NonTokenValue(norm(e))
        if isinstance(e, ast.Tuple):
            return Tup([self.ev(x) for x in e.elts])
        if isinstance(e, ast.List):
            return Lst([self.ev(x) for x in e.elts])
        if isinstance(e, ast.Dict) and not e.keys:
            return DictT(Opaque('empty'))
        if isinstance(e, ast.Subscript):
            if isinstance(e.value, ast.Name) and e.value.id == self.pname:
                if isinstance(e.slice, ast.Constant) and isinstance(e.slice.value, int):
                    i = e.slice.value
                    if i <= 0 or i > len(self.rhs):
                        raise Unsupported('p[%d] out of range for %d symbols' % (i, len(self.rhs)))
                    return Sym(i)
                raise Unsupported('p[%s]' % norm(e.slice))
            base = self.ev(e.value)
            if isinstance(e.slice, ast.Slice):
                lo = self.const_int(e.slice.lower)
                hi = self.const_int(e.slice.upper)
                return simplify(Slc(base, lo, hi))
            if isinstance(e.slice, ast.Constant):
                return simplify(Idx(base, e.slice.value))
            raise Unsupported('subscript %s' % norm(e))
        if isinstance(e, ast.BinOp) and isinstance(e.op, ast.Add):
            return Cat(self.ev(e.left), self.ev(e.right))
        if isinstance(e, ast.Call):
            f = norm(e.func)
            if f == 'len' and len(e.args) == 1 and isinstance(e.args[0], ast.Name) and e.args[0].id == self.pname:
                return Const(len(self.rhs) + 1)
            if f == 'isinstance' and len(e.args) == 2:
                return IsInst(self.ev(e.args[0]), norm(e.args[1]))
            if f in ('sorted', 'reversed', 'set', 'frozenset') and e.args:
                # the members of a parse value in another order (or with repeats collapsed)
                return Opaque('order.%s' % f, [self.ev(e.args[0])])
            if isinstance(e.func, ast.Attribute) and e.func.attr in STR_TRANSFORMS:
                # a string method applied to a parse value: the value is no longer what was written
                return Opaque('str.%s' % e.func.attr, [self.ev(e.func.value)])
            raise Unsupported('call %s' % f)
        if isinstance(e, ast.Compare) and len(e.ops) == 1:
            a, b = self.ev(e.left), self.ev(e.comparators[0])
            if isinstance(e.ops[0], ast.Eq):
                if isinstance(a, Const) and isinstance(b, Const):
                    return Const(a.v == b.v)
                return Eq(a, b)
            if isinstance(e.ops[0], ast.NotEq) and isinstance(a, Const) and isinstance(b, Const):
                return Const(a.v != b.v)
            if isinstance(e.ops[0], (ast.Is, ast.IsNot)) and isinstance(b, Const) and b.v is None:
                return IsNone(a, isinstance(e.ops[0], ast.IsNot))
            if isinstance(e.ops[0], ast.In) and isinstance(b, DictT):
                return Opaque('in-dict')
            if isinstance(e.ops[0], (ast.In, ast.NotIn)):
                return Opaque('in', [a, b])
            raise Unsupported('compare %s' % norm(e))
        if isinstance(e, ast.BoolOp):
            cur = self.ev(e.values[0])
            for node in e.values[1:]:
                t = self.truth_of(cur, e)
                if isinstance(e.op, ast.And):
                    if t is False:
                        return cur
                    cur = self.ev(node) if t is True else Cond(cur, self.ev(node), cur)
                else:
                    if t is True:
                        return cur
                    cur = self.ev(node) if t is False else Cond(cur, cur, self.ev(node))
            return cur
        if isinstance(e, ast.UnaryOp) and isinstance(e.op, ast.Not):
            t = self.test(e.operand)
            if t is True or t is False:
                return Const(not t)
            return Opaque('not', [t] if isinstance(t, Term) else [])
        if isinstance(e, ast.IfExp):
            t = self.test(e.test)
            if t is True:
                return self.ev(e.body)
            if t is False:
                return self.ev(e.orelse)
            return Cond(t, self.ev(e.body), self.ev(e.orelse))
        if isinstance(e, (ast.ListComp, ast.GeneratorExp)) and len(e.generators) == 1 and \
                isinstance(e.generators[0].target, ast.Name):
            g = e.generators[0]
            try:
                src = self.ev(g.iter)
            except Unsupported:
                src = None
            if src is not None and src.syms():
                if isinstance(e.elt, ast.Name) and e.elt.id == g.target.id and not g.ifs:
                    return src      # a plain copy
                # members of a parse value replaced or filtered one by one
                return Opaque('order.comprehension', [src])
        raise Unsupported('expression %s' % type(e).__name__)

    def const_int(self, n):
        if n is None:
            return None
        if isinstance(n, ast.Constant) and isinstance(n.value, int):
            return n.value
        if isinstance(n, ast.UnaryOp) and isinstance(n.op, ast.USub) and isinstance(n.operand, ast.Constant):
            return -n.operand.value
        raise Unsupported('slice bound')


def simplify(t):
    if isinstance(t, Idx) and isinstance(t.t, (Tup, Lst)) and isinstance(t.i, int) and -len(t.t.items) <= t.i < len(t.t.items):
        return t.t.items[t.i]
    return t


def term_av(t, sym_av, depth=0):
    """abstract value of a term"""
    if depth > DEPTH:
        return av_top()
    if isinstance(t, Sym):
        return sym_av(t.i).copy()
    if isinstance(t, Const):
        if t.v is None:
            return av_none()
        if isinstance(t.v, bool):
            return av_int(not t.v)
        if isinstance(t.v, int):
            return av_int(t.v == 0)
        if isinstance(t.v, str):
            return av_str(t.v == '')
        return av_top()
    if isinstance(t, Tup):
        a = AV()
        items = [term_av(x, sym_av, depth + 1) for x in t.items]
        tag = t.items[0].v if t.items and isinstance(t.items[0], Const) and isinstance(t.items[0].v, str) else None
        a.tuples[(len(items), tag)] = items
        return a
    if isinstance(t, Lst):
        a = AV()
        el = AV()
        for x in t.items:
            el.join(term_av(x, sym_av, depth + 1))
        a.lst = [el, not t.items, bool(t.items)]
        return a
    if isinstance(t, Cat):
        x, y = term_av(t.a, sym_av, depth + 1), term_av(t.b, sym_av, depth + 1)
        if x.lst or y.lst:
            a = AV()
            el = AV()
            may_ne = False
            must_ne = False
            for z in (x, y):
                if z.lst:
                    el.join(z.lst[0])
                    may_ne = may_ne or z.lst[2]
                    if z.lst[2] and not z.lst[1] and not (z.none or z.top):
                        must_ne = True
                if z.top:
                    el.join(av_top())
            a.lst = [el, not must_ne, may_ne or True]
            return a
        if x.s or y.s:
            return av_str(empty=not ((x.s == 'ne' and not x.none) or (y.s == 'ne' and not y.none)))
        return av_top()
    if isinstance(t, Idx):
        b = term_av(t.t, sym_av, depth + 1)
        a = AV()
        if b.top:
            a.top = True
        for (ar, tag), items in b.tuples.items():
            if isinstance(t.i, int) and -ar <= t.i < ar:
                a.join(items[t.i])
        if b.lst:
            a.join(b.lst[0])
        if b.s:
            a.join(av_str())
        if a.is_bottom():
            a.top = True
        return a
    if isinstance(t, Slc):
        b = term_av(t.t, sym_av, depth + 1)
        a = AV()
        if b.s:
            a.s = 'e'
        if b.lst:
            a.lst = [b.lst[0].copy(), True, b.lst[2]]
        for (ar, tag), items in b.tuples.items():
            lo = t.lo or 0
            rest = items[lo:t.hi] if t.hi is not None else items[lo:]
            na = AV()
            na.tuples[(len(rest), None)] = [x.copy() for x in rest]
            a.join(na)
        if b.top or a.is_bottom():
            a.top = True
        return a
    if isinstance(t, DictT):
        a = AV()
        a.dct = True
        return a
    if isinstance(t, Cond):
        a = term_av(t.a, sym_av, depth + 1)
        b = term_av(t.b, sym_av, depth + 1)
        # `X if X else Y` / `Y if X else X`: the branch that repeats the tested value sees only its truthy/falsy part
        if repr(t.a) == repr(t.test):
            a = a.truthy_part()
        if repr(t.b) == repr(t.test):
            b = b.falsy_part()
        a.join(b)
        return a
    return av_top()


# ------------------------------------------------------------------------------------------- grammar-wide analysis
class GrammarShapes(object):
    def __init__(self, dialect, base_funcs=None):
        self.d = dialect
        self.by_lhs = dialect.by_lhs()
        self.nonterminals = set(self.by_lhs)
        self.av = dict((n, AV()) for n in self.nonterminals)
        self.terms = {}      # Prod -> term
        self.terms_k = {}    # Prod -> term with keyword terminals replaced by their (unique) source word
        self.tests = {}      # Prod -> truth tests
        self.unsupported = {}
        self.nontoken = {}   # Prod -> expression that takes a value from the parser object
        # token type -> source words
        self.token_words = {}
        for w, t in dialect.reserved.items():
            self.token_words.setdefault(t, set()).add(w)
        for t, w in (('MACRO', 'MACRO'), ('EXPORTS', 'EXPORTS'), ('CHOICE', 'CHOICE')):
            self.token_words.setdefault(t, set()).add(w)
        self._fixpoint()

    def sym_av(self, sym):
        if sym in self.av:
            return self.av[sym]
        if sym in INT_TOKENS:
            return av_int(INT_TOKENS[sym])
        if sym == 'QUOTED_STRING':
            return av_str()
        return av_str()

    def eval_prod(self, p):
        ev = ActionEval(p.fn, p.rhs, self.sym_av)
        ev.token_words = self.token_words
        ev.reserved_words = set(self.d.reserved)
        term = ev.run()
        return term, ev.truth_tests

    def kw_word(self, sym):
        if sym.startswith("'"):
            return sym.strip("'")
        if sym in self.nonterminals:
            return None
        words = self.token_words.get(sym)
        if words and len(words) == 1:
            return list(words)[0]
        return None

    def kw_subst(self, t, rhs):
        def f(t):
            if isinstance(t, Sym):
                w = self.kw_word(rhs[t.i - 1]) if 0 < t.i <= len(rhs) else None
                return Const(w) if w is not None else t
            if isinstance(t, Tup):
                return Tup([f(x) for x in t.items])
            if isinstance(t, Lst):
                return Lst([f(x) for x in t.items])
            if isinstance(t, Cat):
                a, b = f(t.a), f(t.b)
                if isinstance(a, Const) and isinstance(b, Const) and isinstance(a.v, str) and isinstance(b.v, str):
                    return Const(a.v + b.v)
                return Cat(a, b)
            if isinstance(t, Idx):
                return simplify(Idx(f(t.t), t.i))
            if isinstance(t, Slc):
                return Slc(f(t.t), t.lo, t.hi)
            if isinstance(t, Cond):
                return Cond(f(t.test), f(t.a), f(t.b))
            return t
        return f(t)

    def _fixpoint(self):
        for it in range(40):
            changed = False
            for p in self.d.prods:
                try:
                    term, tests = self.eval_prod(p)
                except NonTokenValue as e:
                    self.nontoken[p] = str(e)
                    term, tests = Opaque('non-token value'), []
                except Unsupported as e:
                    self.unsupported[p] = str(e)
                    term, tests = Opaque('unsupported'), []
                self.terms[p] = term
                self.tests[p] = tests
                kterm = self.kw_subst(term, p.rhs)
                self.terms_k[p] = kterm
                if p.lhs == 'empty':
                    v = av_none()
                else:
                    v = term_av(kterm, lambda i, p=p: self.sym_av(p.rhs[i - 1]) if 0 < i <= len(p.rhs) else av_top())
                if self.av[p.lhs].join(v):
                    changed = True
            if not changed:
                self.iterations = it + 1
                return
        raise AnalysisError('shape fixpoint did not converge')


def term_equal(a, b):
    return repr(a) == repr(b)


def tagged_constructors(term):
    """all Tup sub-terms whose first item is a string Const or a keyword Sym: yields (tag_term, Tup)"""
    out = []

    def walk(t):
        if isinstance(t, Tup):
            if t.items and ((isinstance(t.items[0], Const) and isinstance(t.items[0].v, str)) or
                            isinstance(t.items[0], Sym)):
                out.append(t)
            for x in t.items:
                walk(x)
        elif isinstance(t, Lst):
            for x in t.items:
                walk(x)
        elif isinstance(t, Cat):
            walk(t.a)
            walk(t.b)
        elif isinstance(t, Cond):
            walk(t.a)
            walk(t.b)
        elif isinstance(t, (Idx, Slc)):
            walk(t.t)
    walk(term)
    return out


# ---------------------------------------------------------------------------------------------------------------------
# presence scenarios: a term evaluated with every optional part either absent (None) or present (an opaque mark)
class Mark(object):
    """the value of a part that is present; projections of it stay marks of the same part"""
    def __init__(self, root):
        self.root = root

    def __repr__(self):
        return '<p%d>' % self.root


class Bag(object):
    """a value built from parts by an operation the scenario evaluation does not interpret (+ over marks, opaque)"""
    def __init__(self, parts):
        self.parts = list(parts)


class ScenarioError(Exception):
    pass


def eval_presence(t, env):
    """value of term t when the part behind Sym(i) is env[i] (None or a Mark).  Raises ScenarioError when the scenario
    cannot be decided (a test over something other than presence) or would raise at run time (None subscripted)."""
    if isinstance(t, Sym):
        return env[t.i]
    if isinstance(t, Const):
        return t.v
    if isinstance(t, Tup):
        return tuple(eval_presence(x, env) for x in t.items)
    if isinstance(t, Lst):
        return [eval_presence(x, env) for x in t.items]
    if isinstance(t, Cat):
        a, b = eval_presence(t.a, env), eval_presence(t.b, env)
        if a is None or b is None:
            raise ScenarioError('None + ...')
        if isinstance(a, list) and isinstance(b, list):
            return a + b
        if isinstance(a, tuple) and isinstance(b, tuple):
            return a + b
        if isinstance(a, str) and isinstance(b, str):
            return a + b
        return Bag([a, b])
    if isinstance(t, (Idx, Slc)):
        v = eval_presence(t.t, env)
        if v is None:
            raise ScenarioError('None subscripted')
        if isinstance(v, (Mark, Bag)):
            return v
        try:
            return v[t.i] if isinstance(t, Idx) else v[t.lo:t.hi]
        except Exception:
            raise ScenarioError('subscript out of range')
    if isinstance(t, Cond):
        c = eval_presence(t.test, env)
        if isinstance(c, Bag):
            if not roots_in(c):
                raise ScenarioError('test over an uninterpreted value')
            c = True    # built from a part that is present: taken as non-empty
        return eval_presence(t.a if (True if isinstance(c, Mark) else bool(c)) else t.b, env)
    if isinstance(t, IsNone):
        v = eval_presence(t.t, env)
        return (v is None) != t.neg
    if isinstance(t, DictT):
        return Bag([])
    if isinstance(t, Opaque):
        return Bag([eval_presence(x, env) for x in getattr(t, 'parts', ()) or ()])
    raise ScenarioError('term %s' % type(t).__name__)


def roots_in(v):
    out = set()
    if isinstance(v, Mark):
        out.add(v.root)
    elif isinstance(v, Bag):
        for x in v.parts:
            out |= roots_in(x)
    elif isinstance(v, (tuple, list)):
        for x in v:
            out |= roots_in(x)
    return out
