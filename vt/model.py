"""E0 - source model of the repository: modules, classes (with MRO), functions,
import aliases, exception hierarchy, and a small constant evaluator for the
table-building code found in class and module bodies.

Nothing from the repository is imported or executed: files are parsed with
`ast` and the evaluator interprets a restricted, side-effect-free subset of
Python over concrete values (see `MiniEval`).
"""
import ast
import os

from vt.runner import AnalysisError

PKG_DIRS = ('pysmi', 'scripts')


class Module(object):
    def __init__(self, repo, rel):
        self.repo = repo
        self.rel = rel
        self.path = os.path.join(repo, rel)
        with open(self.path, 'rb') as f:
            self.src = f.read().decode('utf-8', 'replace')
        self.tree = _CanonIf().visit(ast.parse(self.src, filename=self.path))
        for node in ast.walk(self.tree):
            for child in ast.iter_child_nodes(node):
                child._parent = node
        self.dotted = rel[:-3].replace(os.sep, '.')
        if self.dotted.endswith('.__init__'):
            self.dotted = self.dotted[:-9]
        self._imports = None

    # name -> ('module', dotted) | ('symbol', dotted module, name)
    @property
    def imports(self):
        if self._imports is None:
            imp = {}
            for node in ast.walk(self.tree):
                if isinstance(node, ast.Import):
                    for a in node.names:
                        imp[a.asname or a.name.split('.')[0]] = ('module', a.name if a.asname else a.name.split('.')[0])
                elif isinstance(node, ast.ImportFrom) and node.module:
                    for a in node.names:
                        imp[a.asname or a.name] = ('symbol', node.module, a.name)
            self._imports = imp
        return self._imports

    def classes(self):
        return [n for n in self.tree.body if isinstance(n, ast.ClassDef)]

    def functions(self):
        return [n for n in self.tree.body if isinstance(n, ast.FunctionDef)]

    def segment(self, node):
        return ast.get_source_segment(self.src, node) or ''


class _CanonIf(ast.NodeTransformer):
    """Canonical orientation of two-armed conditionals: `if not c: A else: B` is analysed as `if c: B else: A`
    (also when B is an elif chain: `else: if ..` and `elif ..` are the same tree); `if c: pass else: B` as `if not c: B`
    (with `not (a in b)` written `a not in b`); a guard `if a or b: ...; continue|break|return|raise` as the two guards
    `if a: ...` `if b: ...`; `not a in b` as `a not in b` (likewise ==, is); `'lit' == x` as `x == 'lit'`; an else-branch
    holding only `pass` is dropped; statements that only write to the debug logger are left out - so that rules do not
    depend on which of these spellings a programmer chose, nor on diagnostics."""

    _NEG = {ast.In: ast.NotIn, ast.NotIn: ast.In, ast.Eq: ast.NotEq, ast.NotEq: ast.Eq, ast.Is: ast.IsNot,
            ast.IsNot: ast.Is}

    def _negate(self, test):
        if isinstance(test, ast.UnaryOp) and isinstance(test.op, ast.Not):
            return test.operand
        if isinstance(test, ast.Compare) and len(test.ops) == 1 and type(test.ops[0]) in self._NEG:
            return ast.copy_location(ast.Compare(left=test.left, ops=[self._NEG[type(test.ops[0])]()],
                                                 comparators=test.comparators), test)
        return ast.copy_location(ast.UnaryOp(op=ast.Not(), operand=test), test)

    def visit_UnaryOp(self, node):
        # `not a in b` == `a not in b`, `not a == b` == `a != b`, `not a is b` == `a is not b`
        self.generic_visit(node)
        if isinstance(node.op, ast.Not) and isinstance(node.operand, ast.Compare) and len(node.operand.ops) == 1 and \
                type(node.operand.ops[0]) in self._NEG:
            return self._negate(node.operand)
        return node

    def visit_Compare(self, node):
        # a literal compared for (in)equality / identity stands on the right: `'iso' == parent` == `parent == 'iso'`
        self.generic_visit(node)
        if len(node.ops) == 1 and isinstance(node.ops[0], (ast.Eq, ast.NotEq, ast.Is, ast.IsNot)) and \
                isinstance(node.left, ast.Constant) and not isinstance(node.comparators[0], ast.Constant):
            node.left, node.comparators[0] = node.comparators[0], node.left
        return node

    @staticmethod
    def _is_diagnostic(st):
        # `debug.logger & debug.flagX and debug.logger(...)` / `debug.logger(...)` as a statement
        if not isinstance(st, ast.Expr):
            return False
        v = st.value
        if isinstance(v, ast.BoolOp) and isinstance(v.op, ast.And) and v.values:
            first, last = v.values[0], v.values[-1]
            return ast.unparse(first).startswith('debug.logger &') and isinstance(last, ast.Call) and \
                ast.unparse(last.func) == 'debug.logger'
        return isinstance(v, ast.Call) and ast.unparse(v.func) == 'debug.logger'

    def _strip(self, body, keep_nonempty=True):
        out = [s for s in body if not self._is_diagnostic(s)]
        if not out and body and keep_nonempty:
            return [ast.copy_location(ast.Pass(), body[0])]
        return out

    def generic_visit(self, node):
        node = super(_CanonIf, self).generic_visit(node)
        # diagnostics are not part of any property: statements that only write to the debug logger are left out of
        # the model (a block that held nothing else becomes `pass`)
        for field in ('body', 'orelse', 'finalbody'):
            seq = getattr(node, field, None)
            if isinstance(seq, list) and seq and all(isinstance(x, ast.stmt) for x in seq):
                setattr(node, field, self._strip(seq, keep_nonempty=(field == 'body')))
        return node

    def visit_For(self, node):
        # `for x in list(E)` / `tuple(E)` visits the same elements in the same order as `for x in E`; the loop is
        # modelled over E and marked as iterating a snapshot (rules about resizing E inside the loop consult the mark)
        self.generic_visit(node)
        it = node.iter
        if isinstance(it, ast.Call) and isinstance(it.func, ast.Name) and it.func.id in ('list', 'tuple') and \
                len(it.args) == 1 and not it.keywords and not isinstance(it.args[0], ast.Starred):
            node.iter = it.args[0]
            node._iter_copied = it.func.id
        return node

    def visit_If(self, node):
        self.generic_visit(node)
        if node.orelse and isinstance(node.test, ast.UnaryOp) and isinstance(node.test.op, ast.Not):
            node.test, node.body, node.orelse = node.test.operand, node.orelse, node.body
        # an else-branch that does nothing is no else-branch
        if node.orelse and all(isinstance(s, ast.Pass) for s in node.orelse):
            node.orelse = []
        # two-armed test on a negative comparison: `if a != b: A else: B`  ==  `if a == b: B else: A`
        if node.orelse and not all(isinstance(s, ast.Pass) for s in node.body) and isinstance(node.test, ast.Compare) and \
                len(node.test.ops) == 1 and isinstance(node.test.ops[0], (ast.NotEq, ast.NotIn, ast.IsNot)):
            node.test, node.body, node.orelse = self._negate(node.test), node.orelse, node.body
        # `if c: pass else: B`  ==  `if not c: B`
        if node.orelse and all(isinstance(s, ast.Pass) for s in node.body):
            node.test, node.body, node.orelse = self._negate(node.test), node.orelse, []
        # `if a or b: <body ending in a jump>`  ==  `if a: <body>` followed by `if b: <body>`
        if not node.orelse and isinstance(node.test, ast.BoolOp) and isinstance(node.test.op, ast.Or) and \
                node.body and isinstance(node.body[-1], (ast.Continue, ast.Break, ast.Return, ast.Raise)):
            import copy
            out = []
            for v in node.test.values:
                out.append(ast.copy_location(ast.If(test=v, body=copy.deepcopy(node.body), orelse=[]), node))
            return out
        return node

    def visit_IfExp(self, node):
        self.generic_visit(node)
        if isinstance(node.test, ast.UnaryOp) and isinstance(node.test.op, ast.Not):
            node.test, node.body, node.orelse = node.test.operand, node.orelse, node.body
        if isinstance(node.test, ast.Compare) and len(node.test.ops) == 1 and \
                isinstance(node.test.ops[0], (ast.NotEq, ast.NotIn, ast.IsNot)):
            node.test, node.body, node.orelse = self._negate(node.test), node.orelse, node.body
        return node


class ClassInfo(object):
    def __init__(self, model, mod, node):
        self.model, self.mod, self.node = model, mod, node
        self.name = node.name
        self.methods = {}
        self.attrs = {}  # name -> value node of the *last* simple class-level assignment
        for st in node.body:
            if isinstance(st, ast.FunctionDef):
                self.methods[st.name] = st
            elif isinstance(st, ast.Assign):
                for t in st.targets:
                    for n in _names(t):
                        self.attrs[n] = st.value
        self._mro = None

    def bases(self):
        out = []
        for b in self.node.bases:
            ci = self.model.resolve_class(self.mod, b)
            if ci is not None:
                out.append(ci)
        return out

    def mro(self):
        if self._mro is None:
            seen, order = set(), []

            def walk(ci):
                if id(ci) in seen:
                    return
                seen.add(id(ci))
                order.append(ci)
                for b in ci.bases():
                    walk(b)
            walk(self)
            self._mro = order
        return self._mro

    def find_method(self, name):
        for ci in self.mro():
            if name in ci.methods:
                return ci, ci.methods[name]
        return None, None

    def find_attr(self, name):
        for ci in self.mro():
            if name in ci.attrs:
                return ci, ci.attrs[name]
        return None, None

    def qual(self, fn=None):
        return '%s.%s' % (self.name, fn) if fn else self.name


def _names(t):
    if isinstance(t, ast.Name):
        return [t.id]
    if isinstance(t, (ast.Tuple, ast.List)):
        out = []
        for e in t.elts:
            out.extend(_names(e))
        return out
    return []


class SourceModel(object):
    def __init__(self, repo):
        self.repo = repo
        self.modules = {}
        for top in PKG_DIRS:
            base = os.path.join(repo, top)
            for dirpath, dirnames, filenames in os.walk(base):
                dirnames[:] = [d for d in dirnames if d != '__pycache__']
                for fn in sorted(filenames):
                    if fn.endswith('.py'):
                        rel = os.path.relpath(os.path.join(dirpath, fn), repo)
                        try:
                            self.modules[rel] = Module(repo, rel)
                        except SyntaxError as e:
                            raise AnalysisError('cannot parse %s: %s' % (rel, e))
        self.by_dotted = dict((m.dotted, m) for m in self.modules.values())
        self._classes = {}

    def mod(self, rel, required=True):
        m = self.modules.get(rel)
        if m is None and required:
            raise AnalysisError('subject missing: module %s' % rel)
        return m

    def cls(self, rel, name, required=True):
        key = (rel, name)
        if key not in self._classes:
            m = self.mod(rel, required)
            ci = None
            if m is not None:
                for c in m.classes():
                    if c.name == name:
                        ci = ClassInfo(self, m, c)
            self._classes[key] = ci
        ci = self._classes[key]
        if ci is None and required:
            raise AnalysisError('subject missing: class %s in %s' % (name, rel))
        return ci

    def func(self, rel, name, required=True):
        m = self.mod(rel, required)
        if m is not None:
            for f in m.functions():
                if f.name == name:
                    return f
        if required:
            raise AnalysisError('subject missing: function %s in %s' % (name, rel))
        return None

    def method(self, rel, cname, mname, required=True):
        ci = self.cls(rel, cname, required)
        if ci is None:
            return None, None
        owner, fn = ci.find_method(mname)
        if fn is None and required:
            raise AnalysisError('subject missing: method %s.%s in %s' % (cname, mname, rel))
        return owner, fn

    def resolve_class(self, mod, expr):
        """Resolve a class reference expression (Name or dotted Attribute) seen in `mod`."""
        if isinstance(expr, ast.Name):
            for c in mod.classes():
                if c.name == expr.id:
                    return self.cls(mod.rel, expr.id)
            imp = mod.imports.get(expr.id)
            if imp and imp[0] == 'symbol':
                m = self.by_dotted.get(imp[1])
                if m is not None:
                    return self.cls(m.rel, imp[2], required=False)
            return None
        if isinstance(expr, ast.Attribute) and isinstance(expr.value, ast.Name):
            imp = mod.imports.get(expr.value.id)
            if imp:
                dotted = imp[1] + '.' + imp[2] if imp[0] == 'symbol' else imp[1]
                m = self.by_dotted.get(dotted)
                if m is not None:
                    return self.cls(m.rel, expr.attr, required=False)
            # Class.attr where attr is nested class? not used
        return None

    # -- exception hierarchy ------------------------------------------------
    def exc_ancestors(self, mod, expr):
        """Names of the class and its package ancestors for an exception class
        expression; builtin names are returned as themselves with their
        builtin ancestry."""
        ci = self.resolve_class(mod, expr)
        if ci is not None:
            names = []
            for c in ci.mro():
                names.append(c.name)
            # builtin tail
            for c in ci.mro():
                for b in c.node.bases:
                    if isinstance(b, ast.Name) and self.resolve_class(c.mod, b) is None:
                        names.extend(builtin_ancestors(b.id))
            return names
        name = dotted_name(expr)
        if name:
            return builtin_ancestors(name.split('.')[-1]) if '.' not in name or name.split('.')[0] in (
                'builtins',) else [name] + builtin_ancestors_dotted(name)
        return []


def builtin_ancestors(name):
    import builtins
    obj = getattr(builtins, name, None)
    if isinstance(obj, type) and issubclass(obj, BaseException):
        return [c.__name__ for c in obj.__mro__ if c is not object]
    return [name]


_DOTTED_EXC = {
    'jinja2.exceptions.TemplateError': ['Exception', 'BaseException'],
    'jinja2.exceptions.TemplateSyntaxError': ['jinja2.exceptions.TemplateError', 'Exception', 'BaseException'],
    'jinja2.exceptions.TemplateNotFound': ['jinja2.exceptions.TemplateError', 'OSError', 'LookupError', 'Exception',
                                          'BaseException'],
    'jinja2.exceptions.UndefinedError': ['jinja2.exceptions.TemplateRuntimeError', 'jinja2.exceptions.TemplateError',
                                         'Exception', 'BaseException'],
    'jinja2.exceptions.TemplateRuntimeError': ['jinja2.exceptions.TemplateError', 'Exception', 'BaseException'],
    'py_compile.PyCompileError': ['Exception', 'BaseException'],
}


def builtin_ancestors_dotted(name):
    return list(_DOTTED_EXC.get(name, ['Exception', 'BaseException']))


def dotted_name(expr):
    if isinstance(expr, ast.Name):
        return expr.id
    if isinstance(expr, ast.Attribute):
        b = dotted_name(expr.value)
        return b + '.' + expr.attr if b else None
    return None


def unparse(node):
    try:
        return ast.unparse(node)
    except Exception:
        return '<%s>' % type(node).__name__


def norm(node):
    """Normalised source text of a node, used in finding keys (no line numbers,
    independent of formatting)."""
    return ' '.join(unparse(node).split())


def enclosing(node, kinds):
    n = getattr(node, '_parent', None)
    while n is not None and not isinstance(n, kinds):
        n = getattr(n, '_parent', None)
    return n


def walk_no_nested(node):
    """ast.walk that does not descend into nested function/class definitions
    (lambdas are descended: they are expressions evaluated in place)."""
    stack = [node]
    first = True
    while stack:
        n = stack.pop()
        if not first and isinstance(n, (ast.FunctionDef, ast.AsyncFunctionDef, ast.ClassDef)):
            continue
        first = False
        yield n
        stack.extend(reversed(list(ast.iter_child_nodes(n))))


# ---------------------------------------------------------------------------
# Mini evaluator
# ---------------------------------------------------------------------------

class Unknown(Exception):
    pass


_STR_METHODS = ('replace', 'upper', 'lower', 'split', 'join', 'startswith', 'endswith', 'strip', 'format',
                'capitalize', 'title', 'find', 'count')
_DICT_METHODS = ('get', 'values', 'keys', 'items', 'copy')
_DICT_MUT = ('update', 'setdefault', 'pop')
_LIST_MUT = ('append', 'extend', 'insert', 'remove', 'sort')
_BUILTINS = {'list': list, 'set': set, 'dict': dict, 'tuple': tuple, 'sorted': sorted, 'len': len, 'int': int,
             'str': str, 'bool': bool, 'frozenset': frozenset, 'range': range, 'zip': zip, 'enumerate': enumerate,
             'min': min, 'max': max, 'abs': abs, 'reversed': reversed, 'any': any, 'all': all, 'repr': repr}


class _Return(Exception):
    def __init__(self, value):
        self.value = value


class FuncVal(object):
    def __init__(self, node, mod, cls=None):
        self.node, self.mod, self.cls = node, mod, cls


class ClassVal(object):
    def __init__(self, ci):
        self.ci = ci


class MiniEval(object):
    """Concrete interpreter for table-building code: literals, names, string and
    container operations, for/if, comprehensions, calls of functions defined in
    the analysed tree.  Anything else raises Unknown (the caller decides whether
    that is an analysis error).  `fold_version` folds `sys.version_info[0] > 2`
    style guards for the interpreter the repository runs on (3.12)."""

    VERSION_INFO = (3, 12, 1, 'final', 0)
    MAX_STEPS = 200000

    def __init__(self, model, mod):
        self.model, self.mod = model, mod
        self.steps = 0

    # -- statements -------------------------------------------------------
    def run_body(self, body, env):
        for st in body:
            self.exec_stmt(st, env)
        return env

    def exec_stmt(self, st, env):
        self.steps += 1
        if self.steps > self.MAX_STEPS:
            raise Unknown('step limit')
        if isinstance(st, ast.Assign):
            val = self.ev(st.value, env)
            for t in st.targets:
                self.assign(t, val, env)
        elif isinstance(st, ast.AugAssign):
            cur = self.ev(_load(st.target), env)
            val = self.binop(st.op, cur, self.ev(st.value, env), inplace=True)
            self.assign(st.target, val, env)
        elif isinstance(st, ast.Expr):
            if isinstance(st.value, ast.Constant):
                return
            self.ev(st.value, env)
        elif isinstance(st, ast.For):
            it = self.ev(st.iter, env)
            broke = False
            for v in list(it):
                self.assign(st.target, v, env)
                try:
                    self.run_body(st.body, env)
                except _Break:
                    broke = True
                    break
                except _Continue:
                    continue
            if not broke:
                self.run_body(st.orelse, env)
        elif isinstance(st, ast.If):
            if self.truth(self.ev(st.test, env)):
                self.run_body(st.body, env)
            else:
                self.run_body(st.orelse, env)
        elif isinstance(st, ast.Return):
            raise _Return(self.ev(st.value, env) if st.value is not None else None)
        elif isinstance(st, ast.Pass):
            pass
        elif isinstance(st, ast.Break):
            raise _Break()
        elif isinstance(st, ast.Continue):
            raise _Continue()
        elif isinstance(st, (ast.FunctionDef,)):
            env[st.name] = FuncVal(st, self.mod)
        elif isinstance(st, (ast.Import, ast.ImportFrom, ast.ClassDef, ast.Try)):
            raise Unknown('statement %s' % type(st).__name__)
        else:
            raise Unknown('statement %s' % type(st).__name__)

    def assign(self, target, val, env):
        if isinstance(target, ast.Name):
            env[target.id] = val
        elif isinstance(target, (ast.Tuple, ast.List)):
            vals = list(val)
            if len(vals) != len(target.elts):
                raise Unknown('unpack arity')
            for t, v in zip(target.elts, vals):
                self.assign(t, v, env)
        elif isinstance(target, ast.Subscript):
            obj = self.ev(target.value, env)
            if not isinstance(obj, (dict, list)):
                raise Unknown('subscript store on %s' % type(obj).__name__)
            obj[self.ev(target.slice, env)] = val
        else:
            raise Unknown('assign target %s' % type(target).__name__)

    # -- expressions ---------------------------------------------------------
    def truth(self, v):
        if isinstance(v, (FuncVal, ClassVal)):
            return True
        return bool(v)

    def ev(self, node, env):
        self.steps += 1
        if self.steps > self.MAX_STEPS:
            raise Unknown('step limit')
        m = getattr(self, 'ev_' + type(node).__name__, None)
        if m is None:
            raise Unknown('expression %s' % type(node).__name__)
        return m(node, env)

    def ev_Constant(self, node, env):
        return node.value

    def ev_Name(self, node, env):
        if node.id in env:
            return env[node.id]
        if node.id in ('True', 'False', 'None'):
            return {'True': True, 'False': False, 'None': None}[node.id]
        # module level definitions of the current module
        v = self.module_global(self.mod, node.id)
        if v is not _MISSING:
            return v
        if node.id in _BUILTINS:
            return _BUILTINS[node.id]
        raise Unknown('name %s' % node.id)

    _globals_cache = None

    def module_global(self, mod, name, _stack=()):
        cache = self.model.__dict__.setdefault('_minieval_globals', {})
        key = (mod.rel, name)
        if key in cache:
            return cache[key]
        if key in _stack:
            return _MISSING
        val = _MISSING
        for st in mod.tree.body:
            if isinstance(st, ast.FunctionDef) and st.name == name:
                val = FuncVal(st, mod)
            elif isinstance(st, ast.ClassDef) and st.name == name:
                val = ClassVal(self.model.cls(mod.rel, name))
            elif isinstance(st, ast.Assign) and any(name in _names(t) for t in st.targets):
                # evaluate module-level statements up to and including this one, in order
                env = {}
                sub = MiniEval(self.model, mod)
                try:
                    for st2 in mod.tree.body:
                        if isinstance(st2, (ast.Import, ast.ImportFrom, ast.FunctionDef, ast.ClassDef, ast.Try)):
                            continue
                        if isinstance(st2, ast.If):
                            # version guards at module level: only simple ones
                            try:
                                sub.exec_stmt(st2, env)
                            except Unknown:
                                pass
                            continue
                        if isinstance(st2, ast.Expr):
                            try:
                                sub.exec_stmt(st2, env)
                            except Unknown:
                                pass
                            continue
                        try:
                            sub.exec_stmt(st2, env)
                        except Unknown:
                            if st2 is st:
                                raise
                    val = env.get(name, _MISSING)
                except Unknown:
                    val = _MISSING
        if val is _MISSING:
            imp = mod.imports.get(name)
            if imp and imp[0] == 'symbol':
                m2 = self.model.by_dotted.get(imp[1])
                if m2 is not None:
                    val = self.module_global(m2, imp[2], _stack + (key,))
                else:
                    m3 = self.model.by_dotted.get(imp[1] + '.' + imp[2])
                    if m3 is not None:
                        val = ModuleVal(m3)
            elif imp and imp[0] == 'module':
                m2 = self.model.by_dotted.get(imp[1])
                if m2 is not None:
                    val = ModuleVal(m2)
                elif imp[1] == 'sys':
                    val = SysVal()
        cache[key] = val
        return val

    def ev_List(self, node, env):
        return [self.ev(e, env) for e in node.elts]

    def ev_Tuple(self, node, env):
        return tuple(self.ev(e, env) for e in node.elts)

    def ev_Set(self, node, env):
        return set(self.ev(e, env) for e in node.elts)

    def ev_Dict(self, node, env):
        d = {}
        for k, v in zip(node.keys, node.values):
            if k is None:
                d.update(self.ev(v, env))
            else:
                d[self.ev(k, env)] = self.ev(v, env)
        return d

    def ev_JoinedStr(self, node, env):
        raise Unknown('f-string')

    def ev_BinOp(self, node, env):
        return self.binop(node.op, self.ev(node.left, env), self.ev(node.right, env))

    def binop(self, op, a, b, inplace=False):
        try:
            if isinstance(op, ast.Add):
                if inplace and isinstance(a, list):
                    a.extend(b)
                    return a
                return a + b
            if isinstance(op, ast.Sub):
                return a - b
            if isinstance(op, ast.Mult):
                return a * b
            if isinstance(op, ast.Mod):
                return a % b
            if isinstance(op, ast.BitOr):
                return a | b
            if isinstance(op, ast.BitAnd):
                return a & b
            if isinstance(op, ast.Pow):
                return a ** b
            if isinstance(op, ast.FloorDiv):
                return a // b
            if isinstance(op, ast.LShift):
                return a << b
            if isinstance(op, ast.RShift):
                return a >> b
            if isinstance(op, ast.BitXor):
                return a ^ b
        except Unknown:
            raise
        except Exception as e:
            raise Unknown('binop failed: %s' % e)
        raise Unknown('operator %s' % type(op).__name__)

    def ev_UnaryOp(self, node, env):
        v = self.ev(node.operand, env)
        if isinstance(node.op, ast.Not):
            return not self.truth(v)
        if isinstance(node.op, ast.USub):
            return -v
        raise Unknown('unary')

    def ev_BoolOp(self, node, env):
        if isinstance(node.op, ast.And):
            v = True
            for e in node.values:
                v = self.ev(e, env)
                if not self.truth(v):
                    return v
            return v
        v = False
        for e in node.values:
            v = self.ev(e, env)
            if self.truth(v):
                return v
        return v

    def ev_Compare(self, node, env):
        left = self.ev(node.left, env)
        for op, comp in zip(node.ops, node.comparators):
            right = self.ev(comp, env)
            try:
                if isinstance(op, ast.Eq):
                    r = left == right
                elif isinstance(op, ast.NotEq):
                    r = left != right
                elif isinstance(op, ast.In):
                    r = left in right
                elif isinstance(op, ast.NotIn):
                    r = left not in right
                elif isinstance(op, ast.Lt):
                    r = left < right
                elif isinstance(op, ast.LtE):
                    r = left <= right
                elif isinstance(op, ast.Gt):
                    r = left > right
                elif isinstance(op, ast.GtE):
                    r = left >= right
                elif isinstance(op, ast.Is):
                    r = left is right
                elif isinstance(op, ast.IsNot):
                    r = left is not right
                else:
                    raise Unknown('compare op')
            except Unknown:
                raise
            except Exception as e:
                raise Unknown('compare failed: %s' % e)
            if not r:
                return False
            left = right
        return True

    def ev_IfExp(self, node, env):
        return self.ev(node.body if self.truth(self.ev(node.test, env)) else node.orelse, env)

    def ev_Subscript(self, node, env):
        obj = self.ev(node.value, env)
        idx = self.ev(node.slice, env)
        try:
            return obj[idx]
        except Exception as e:
            raise Unknown('subscript failed: %r' % (e,))

    def ev_Slice(self, node, env):
        return slice(self.ev(node.lower, env) if node.lower else None,
                     self.ev(node.upper, env) if node.upper else None,
                     self.ev(node.step, env) if node.step else None)

    def ev_Attribute(self, node, env):
        dn = dotted_name(node)
        if dn in ('os.path.extsep', 'os.extsep'):
            return '.'
        if dn in ('os.sep', 'os.path.sep'):
            return '/'
        obj = self.ev(node.value, env)
        return self.getattr(obj, node.attr)

    def getattr(self, obj, attr):
        if isinstance(obj, ClassVal):
            owner, val = obj.ci.find_attr(attr)
            if val is not None:
                return self.class_attr(owner, attr)
            owner, fn = obj.ci.find_method(attr)
            if fn is not None:
                return FuncVal(fn, owner.mod, owner)
            raise Unknown('class attribute %s.%s' % (obj.ci.name, attr))
        if isinstance(obj, ModuleVal):
            v = self.module_global(obj.mod, attr)
            if v is _MISSING:
                raise Unknown('module attribute %s.%s' % (obj.mod.dotted, attr))
            return v
        if isinstance(obj, SysVal):
            if attr == 'version_info':
                return self.VERSION_INFO
            raise Unknown('sys.%s' % attr)
        if isinstance(obj, FuncVal):
            if attr in ('__name__', 'func_name'):
                return obj.node.name
            raise Unknown('function attribute')
        if isinstance(obj, str) and attr in _STR_METHODS:
            return getattr(obj, attr)
        if isinstance(obj, dict) and attr in _DICT_METHODS + _DICT_MUT:
            return getattr(obj, attr)
        if isinstance(obj, list) and attr in _LIST_MUT + ('index', 'count', 'copy'):
            return getattr(obj, attr)
        if isinstance(obj, (set, frozenset)) and attr in ('add', 'update', 'union', 'issuperset', 'issubset',
                                                          'difference', 'intersection', 'copy'):
            return getattr(obj, attr)
        if isinstance(obj, tuple) and attr in ('index', 'count'):
            return getattr(obj, attr)
        raise Unknown('attribute %s on %s' % (attr, type(obj).__name__))

    def class_attr(self, ci, attr):
        """Value of a class-level attribute: the class body is interpreted in
        order (assignments, loops, ifs) in a fresh namespace."""
        cache = self.model.__dict__.setdefault('_minieval_classattrs', {})
        key = (ci.mod.rel, ci.name)
        if key not in cache:
            env = {}
            sub = MiniEval(self.model, ci.mod)
            failed = {}
            for st in ci.node.body:
                if isinstance(st, ast.FunctionDef):
                    env[st.name] = FuncVal(st, ci.mod, ci)
                    continue
                if isinstance(st, ast.Expr) and isinstance(st.value, ast.Constant):
                    continue
                try:
                    sub.exec_stmt(st, env)
                except Unknown as e:
                    for t in getattr(st, 'targets', []):
                        for n in _names(t):
                            failed[n] = str(e)
                            env.pop(n, None)
            cache[key] = (env, failed)
        env, failed = cache[key]
        if attr in env:
            return env[attr]
        raise Unknown('class attribute %s.%s not evaluable: %s' % (ci.name, attr, failed.get(attr, 'missing')))

    def ev_Call(self, node, env):
        fn = self.ev(node.func, env)
        args = []
        for a in node.args:
            if isinstance(a, ast.Starred):
                args.extend(list(self.ev(a.value, env)))
            else:
                args.append(self.ev(a, env))
        kwargs = {}
        for k in node.keywords:
            if k.arg is None:
                kwargs.update(self.ev(k.value, env))
            else:
                kwargs[k.arg] = self.ev(k.value, env)
        return self.call(fn, args, kwargs)

    def call(self, fn, args, kwargs):
        if isinstance(fn, FuncVal):
            return self.call_func(fn, args, kwargs)
        if isinstance(fn, ClassVal):
            raise Unknown('instantiation of %s' % fn.ci.name)
        if fn in _BUILTINS.values() or (hasattr(fn, '__self__') and isinstance(
                fn.__self__, (str, dict, list, set, frozenset, tuple))):
            try:
                return fn(*args, **kwargs)
            except Unknown:
                raise
            except Exception as e:
                raise Unknown('call failed: %r' % (e,))
        raise Unknown('call of %r' % (fn,))

    def call_func(self, fv, args, kwargs):
        a = fv.node.args
        if a.vararg or a.kwarg or a.kwonlyargs:
            # *args/**kwargs functions are supported only positionally
            pass
        env = {}
        params = [p.arg for p in a.args]
        decos = [dotted_name(d) for d in fv.node.decorator_list]
        defaults = dict(zip(params[len(params) - len(a.defaults):], a.defaults))
        sub = MiniEval(self.model, fv.mod)
        sub.steps = self.steps
        for i, p in enumerate(params):
            if i < len(args):
                env[p] = args[i]
            elif p in kwargs:
                env[p] = kwargs.pop(p)
            elif p in defaults:
                env[p] = sub.ev(defaults[p], {})
            else:
                raise Unknown('missing argument %s' % p)
        if a.vararg:
            env[a.vararg.arg] = tuple(args[len(params):])
        if a.kwarg:
            env[a.kwarg.arg] = dict(kwargs)
        try:
            sub.run_body(fv.node.body, env)
        except _Return as r:
            return r.value
        return None

    def comp(self, generators, env, emit):
        def rec(i, env):
            if i == len(generators):
                emit(env)
                return
            g = generators[i]
            for v in list(self.ev(g.iter, env)):
                env2 = dict(env)
                self.assign(g.target, v, env2)
                if all(self.truth(self.ev(c, env2)) for c in g.ifs):
                    rec(i + 1, env2)
        rec(0, dict(env))

    def ev_ListComp(self, node, env):
        out = []
        self.comp(node.generators, env, lambda e: out.append(self.ev(node.elt, e)))
        return out

    def ev_SetComp(self, node, env):
        out = set()
        self.comp(node.generators, env, lambda e: out.add(self.ev(node.elt, e)))
        return out

    def ev_GeneratorExp(self, node, env):
        return self.ev_ListComp(node, env)

    def ev_DictComp(self, node, env):
        out = {}

        def emit(e):
            out[self.ev(node.key, e)] = self.ev(node.value, e)
        self.comp(node.generators, env, emit)
        return out

    def ev_Lambda(self, node, env):
        raise Unknown('lambda')

    def ev_Starred(self, node, env):
        raise Unknown('starred')


class _Break(Exception):
    pass


class _Continue(Exception):
    pass


class ModuleVal(object):
    def __init__(self, mod):
        self.mod = mod


class SysVal(object):
    pass


_MISSING = object()


def _load(target):
    t = ast.parse(unparse(target), mode='eval').body
    return t


def class_attr_value(model, rel, cname, attr):
    """Concrete value of a class attribute (through the MRO), evaluated statically."""
    ci = model.cls(rel, cname)
    owner, node = ci.find_attr(attr)
    if owner is None:
        raise AnalysisError('subject missing: attribute %s.%s in %s' % (cname, attr, rel))
    try:
        return MiniEval(model, owner.mod).class_attr(owner, attr)
    except Unknown as e:
        raise AnalysisError('cannot evaluate %s.%s statically: %s' % (cname, attr, e))


def module_value(model, rel, name):
    mod = model.mod(rel)
    v = MiniEval(model, mod).module_global(mod, name)
    if v is _MISSING:
        raise AnalysisError('cannot evaluate %s in %s statically' % (name, rel))
    return v
