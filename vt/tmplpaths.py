"""E6b - rendering paths of a Jinja2 template, enumerated statically.

The template is parsed with jinja2's own parser (same trim_blocks / lstrip_blocks flags as the code generator, so the
TemplateData nodes hold exactly the text a rendering would emit) and *walked*, never rendered: a scenario fixes which
branch every `{% if %}` takes (keyed by the source of its test, so equal tests decide alike) and how many times every
`{% for %}` runs; `loop.first` / `loop.last` / `loop.index` tests are decided from the iteration at hand; every
`{{ expr }}` becomes a placeholder that is an atom of the target language in its lexical position; macro calls are
expanded in place.  The scenarios are the base scenario (first branch everywhere, two iterations) plus, for every
decision point, one scenario per alternative (each-choice coverage) - for loops 0, 1, 2 and 3 iterations, so the
single / first / middle / last arms of the `loop.first and loop.last` idiom are all reached.

What a client does with the emitted text is its business; C04 hands it to Python's parser (syntax only).
"""
import jinja2
from jinja2 import nodes as jn

from vt.runner import AnalysisError


class Scenario(object):
    def __init__(self, ifs=None, loops=None):
        self.ifs = ifs or {}        # test source -> index of the branch taken (0 = if, 1.. = elif, -1 = else/none)
        self.loops = loops or {}    # iter source -> number of iterations

    def key(self):
        return (tuple(sorted(self.ifs.items())), tuple(sorted(self.loops.items())))


class Walker(object):
    def __init__(self, env, tree, src, placeholder):
        self.env, self.tree, self.src = env, tree, src
        self.placeholder = placeholder
        self.macros = dict((m.name, m) for m in tree.find_all(jn.Macro))
        self.decisions = {}     # decision key -> number of alternatives (ifs) / None (loops)

    # -- source text of an expression node (for keys and messages) -----------------------------------------------
    def text(self, n):
        return _unparse(n)

    # -- one scenario -------------------------------------------------------------------------------------------------
    def render(self, body, sc, loopctx=None, depth=0):
        out = []
        for n in body:
            out.append(self.node(n, sc, loopctx, depth))
        return ''.join(out)

    def node(self, n, sc, loopctx, depth):
        if depth > 12:
            raise AnalysisError('template macro recursion too deep')
        if isinstance(n, jn.Output):
            parts = []
            for x in n.nodes:
                if isinstance(x, jn.TemplateData):
                    parts.append(x.data)
                else:
                    parts.append(self.expr(x, sc, loopctx, depth, ''.join(parts)))
            return ''.join(parts)
        if isinstance(n, jn.If):
            branches = [(n.test, n.body)] + [(e.test, e.body) for e in n.elif_]
            taken = self.decide(branches, sc, loopctx)
            if taken is None:
                return self.render(n.else_, sc, loopctx, depth)
            return self.render(branches[taken][1], sc, loopctx, depth)
        if isinstance(n, jn.For):
            key = ('for', self.text(n.iter))      # equal iterables run equally often
            self.decisions.setdefault(key, None)
            count = sc.loops.get(key, 2)
            out = []
            for i in range(count):
                out.append(self.render(n.body, sc, {'index0': i, 'length': count, 'outer': loopctx}, depth))
            if count == 0:
                out.append(self.render(n.else_, sc, loopctx, depth))
            return ''.join(out)
        if isinstance(n, jn.Block):
            return self.render(n.body, sc, loopctx, depth)
        if isinstance(n, (jn.Macro, jn.Assign, jn.AssignBlock, jn.Import, jn.FromImport, jn.Extends)):
            return ''
        if isinstance(n, jn.Include):
            return ''
        if isinstance(n, jn.CallBlock):
            return self.render(n.body, sc, loopctx, depth)
        if isinstance(n, (jn.Scope, jn.ScopedEvalContextModifier, jn.With, jn.FilterBlock)):
            return self.render(n.body, sc, loopctx, depth)
        if isinstance(n, jn.ExprStmt):
            return ''
        raise AnalysisError('template node %s is not modelled' % type(n).__name__)

    def expr(self, x, sc, loopctx, depth, before):
        # macro call: expand
        cur = x
        while isinstance(cur, jn.Filter):
            cur = cur.node
        if isinstance(cur, jn.Call) and isinstance(cur.node, jn.Name) and cur.node.name in self.macros:
            return self.render(self.macros[cur.node.name].body, sc, loopctx, depth + 1)
        if isinstance(cur, jn.Call) and isinstance(cur.node, jn.Name) and cur.node.name == 'caller':
            return ''
        if isinstance(cur, jn.Const):
            return '' if cur.value is None else str(cur.value)
        if isinstance(cur, jn.CondExpr):
            # {{ "," if not loop.last }} and the like: the text depends on the iteration, not on the data
            v = self.loop_value(cur.test, loopctx)
            if v is None:
                key = ('if', self.text(cur.test))
                self.decisions.setdefault(key, 2)
                v = sc.ifs.get(key, True)
            chosen = cur.expr1 if v else cur.expr2
            if chosen is None:
                return ''
            return self.expr(chosen, sc, loopctx, depth, before)
        return self.placeholder(x, before)

    # -- branch decisions ------------------------------------------------------------------------------------------
    def decide(self, branches, sc, loopctx):
        """index of the branch taken, None for else"""
        for i, (test, body) in enumerate(branches):
            v = self.loop_value(test, loopctx)
            if v is True:
                return i
            if v is False:
                continue
            key = ('if', self.text(test))
            self.decisions.setdefault(key, 2)
            if sc.ifs.get(key, self.default_truth(test)):
                return i
        return None

    def default_truth(self, test):
        return True

    def loop_value(self, test, loopctx):
        """True / False for tests over loop.first / loop.last (decidable from the iteration), else None"""
        if loopctx is None:
            return None
        if isinstance(test, jn.Getattr) and isinstance(test.node, jn.Name) and test.node.name == 'loop':
            if test.attr == 'first':
                return loopctx['index0'] == 0
            if test.attr == 'last':
                return loopctx['index0'] == loopctx['length'] - 1
            return None
        if isinstance(test, jn.Not):
            v = self.loop_value(test.node, loopctx)
            return None if v is None else not v
        if isinstance(test, jn.And):
            a, b = self.loop_value(test.left, loopctx), self.loop_value(test.right, loopctx)
            if a is False or b is False:
                return False
            if a is True and b is True:
                return True
            return None
        if isinstance(test, jn.Or):
            a, b = self.loop_value(test.left, loopctx), self.loop_value(test.right, loopctx)
            if a is True or b is True:
                return True
            if a is False and b is False:
                return False
            return None
        return None

    # -- scenarios --------------------------------------------------------------------------------------------------
    def scenarios(self, body):
        """base scenario plus one per alternative of every decision point reached from `body`"""
        base = Scenario()
        self.decisions = {}
        self.render(body, base)
        # decisions discovered while flipping are added until nothing new appears
        done, todo, out = set(), [base], []
        while todo:
            sc = todo.pop()
            if sc.key() in done:
                continue
            done.add(sc.key())
            before = set(self.decisions)
            text = self.render(body, sc)
            out.append((sc, text))
            if len(out) > 4000:
                raise AnalysisError('more than 4000 rendering scenarios')
            if sc is base or set(self.decisions) - before:
                for key in sorted(self.decisions, key=repr):
                    if key[0] == 'if':
                        for val in (True, False):
                            if sc.ifs.get(key, True) != val:
                                s2 = Scenario(dict(sc.ifs), dict(sc.loops))
                                s2.ifs[key] = val
                                todo.append(s2)
                    else:
                        for cnt in (0, 1, 2, 3):
                            if sc.loops.get(key, 2) != cnt:
                                s2 = Scenario(dict(sc.ifs), dict(sc.loops))
                                s2.loops[key] = cnt
                                todo.append(s2)
            # only first-order flips of the base and of scenarios that uncovered new decisions
        return out


def _unparse(n):
    """a stable textual key for a jinja expression node"""
    if isinstance(n, jn.Name):
        return n.name
    if isinstance(n, jn.Const):
        return repr(n.value)
    if isinstance(n, jn.Getitem):
        return '%s[%s]' % (_unparse(n.node), _unparse(n.arg))
    if isinstance(n, jn.Getattr):
        return '%s.%s' % (_unparse(n.node), n.attr)
    if isinstance(n, jn.Compare):
        return '%s %s' % (_unparse(n.expr), ' '.join('%s %s' % (o.op, _unparse(o.expr)) for o in n.ops))
    if isinstance(n, jn.Not):
        return 'not %s' % _unparse(n.node)
    if isinstance(n, jn.And):
        return '(%s and %s)' % (_unparse(n.left), _unparse(n.right))
    if isinstance(n, jn.Or):
        return '(%s or %s)' % (_unparse(n.left), _unparse(n.right))
    if isinstance(n, jn.Tuple):
        return '(%s)' % ', '.join(_unparse(x) for x in n.items)
    if isinstance(n, jn.List):
        return '[%s]' % ', '.join(_unparse(x) for x in n.items)
    if isinstance(n, jn.Filter):
        return '%s|%s' % (_unparse(n.node) if n.node is not None else '', n.name)
    if isinstance(n, jn.Test):
        return '%s is %s' % (_unparse(n.node), n.name)
    if isinstance(n, jn.Call):
        return '%s(%s)' % (_unparse(n.node), ', '.join(_unparse(a) for a in n.args))
    if isinstance(n, jn.CondExpr):
        return '(%s if %s else %s)' % (_unparse(n.expr1), _unparse(n.test), _unparse(n.expr2) if n.expr2 else '')
    return type(n).__name__


def parse(repo_path, trim=True):
    env = jinja2.Environment(trim_blocks=trim, lstrip_blocks=trim)
    try:
        with open(repo_path) as f:
            src = f.read()
    except IOError:
        raise AnalysisError('subject missing: template %s' % repo_path)
    try:
        return env, env.parse(src), src
    except jinja2.TemplateSyntaxError as e:
        raise AnalysisError('template %s does not parse: %s' % (repo_path, e))


MARK = '\x00'


def marker_placeholder(x, before):
    return MARK


def fill_python_placeholders(text, in_string='x', in_code='X'):
    """replace every marker by an atom that fits its lexical position in Python source: inside a string literal a
    letter, in code an identifier"""
    out = []
    glued = fill_python_placeholders.glued = []
    i, n = 0, len(text)
    state = None    # None | "'" | '"' | "'''" | '\"\"\"'
    while i < n:
        ch = text[i]
        if ch == MARK:
            if state is None:
                # pasted directly behind a number prefix or digit (`0x{{ v }}`, `1{{ v }}`): the expression's text
                # becomes part of a numeric literal, read in whatever base the prefix says
                j = len(out) - 1
                tail = ''
                while j >= 0 and len(tail) < 3 and out[j] and (out[j][-1].isalnum()):
                    tail = out[j][-1] + tail
                    j -= 1
                if tail and tail[0].isdigit():
                    glued.append(''.join(out)[-20:])
                    out.append('0')
                    i += 1
                    continue
            out.append(in_string if state else in_code)
            i += 1
            continue
        if state is None:
            if ch == '#':
                j = text.find('\n', i)
                j = n if j < 0 else j
                out.append(text[i:j].replace(MARK, in_string))
                i = j
                continue
            if text.startswith('"""', i) or text.startswith("'''", i):
                state = text[i:i + 3]
                out.append(state)
                i += 3
                continue
            if ch in '"\'':
                state = ch
        else:
            if ch == '\\' and i + 1 < n:
                out.append(text[i:i + 2].replace(MARK, in_string))
                i += 2
                continue
            if len(state) == 3 and text.startswith(state, i):
                out.append(state)
                i += 3
                state = None
                continue
            if len(state) == 1 and ch == state:
                state = None
            elif len(state) == 1 and ch == '\n':
                state = None    # unterminated one-line literal: let the parser complain
        out.append(ch)
        i += 1
    return ''.join(out)
