"""E6 - template analysis: Jinja2 templates are parsed (never rendered) with
jinja2's own parser under the environment flags the code generators use.

Facts extracted
  class blocks   `for symbol, definition in mib.items() if definition['class'] == X / in (...)`
                 -> classes selected, and every `definition[...]...` path read inside the block
  outputs        every `{{ expr }}` with its lexical context in the generated Python text:
                 'code' | 'dq' (inside "...") | 'tq' (inside triple-quoted string)
  macros         bodies of `constraints` / `default`
"""
import os
import re

import jinja2
from jinja2 import nodes

from vt.runner import AnalysisError


class TemplateModel(object):
    def __init__(self, repo, rel):
        self.rel = rel
        self.path = os.path.join(repo, rel)
        try:
            with open(self.path) as f:
                self.src = f.read()
        except IOError:
            raise AnalysisError('subject missing: template %s' % rel)
        self.env = jinja2.Environment(trim_blocks=True, lstrip_blocks=True)
        try:
            self.ast = self.env.parse(self.src)
        except jinja2.TemplateSyntaxError as e:
            raise AnalysisError('template %s does not parse: %s' % (rel, e))

    # ------------------------------------------------------------------ class blocks
    def class_blocks(self):
        """[(For node, classes tuple, loop vars (symbol, definition))] for loops over mib.items() with a class filter"""
        out = []
        for f in self.ast.find_all(nodes.For):
            it = f.iter
            if not (isinstance(it, nodes.Call) and isinstance(it.node, nodes.Getattr) and it.node.attr == 'items' and
                    isinstance(it.node.node, nodes.Name) and it.node.node.name == 'mib'):
                continue
            if f.test is None or not isinstance(f.target, nodes.Tuple):
                continue
            classes = class_test(f.test)
            if classes is None:
                continue
            names = tuple(x.name for x in f.target.items if isinstance(x, nodes.Name))
            out.append((f, classes, names))
        return out

    def paths_read(self, block, root):
        """set of key paths read from variable `root` inside the block: ('syntax','type') ..."""
        out = set()
        for n in block.find_all((nodes.Getitem, nodes.Call, nodes.Compare)):
            p = path_of(n, root)
            if p:
                out.add(p)
        return out

    def membership_tests(self, block, root):
        """keys tested with `'k' in root[...]` -> set of paths"""
        out = set()
        for c in block.find_all(nodes.Compare):
            if isinstance(c.expr, nodes.Const) and c.ops and c.ops[0].op == 'in':
                base = path_of(c.ops[0].expr, root, allow_root=True)
                if base is not None:
                    out.add(tuple(base) + (c.expr.value,))
        return out

    # ------------------------------------------------------------------ outputs with context
    def outputs(self):
        """[(lineno, expr source, context, enclosing-text-before)] scanning the raw template text: context is the
        Python string-literal state of the *generated* text at the point of the expression"""
        res = []
        src = self.src
        i, n = 0, len(src)
        state = 'code'  # 'code' | 'dq' | 'tq'
        line = 1
        while i < n:
            if src.startswith('{#', i):
                j = src.find('#}', i)
                j = n if j < 0 else j + 2
                line += src.count('\n', i, j)
                i = j
                continue
            if src.startswith('{%', i):
                j = src.find('%}', i)
                j = n if j < 0 else j + 2
                tag = src[i:j]
                line += src.count('\n', i, j)
                i = j
                # a block boundary resets string state (each block renders complete statements)
                if re.match(r'\{%-?\s*(end)?(block|macro|for|if|elif|else)\b', tag):
                    if state == 'dq':
                        state = 'code'
                continue
            if src.startswith('{{', i):
                j = src.find('}}', i)
                j = n if j < 0 else j + 2
                expr = src[i + 2:j - 2].strip()
                res.append((line, expr, state))
                line += src.count('\n', i, j)
                i = j
                continue
            ch = src[i]
            if src.startswith('"""', i):
                state = 'code' if state == 'tq' else ('tq' if state == 'code' else state)
                i += 3
                continue
            if ch == '"' and state != 'tq':
                state = 'code' if state == 'dq' else 'dq'
            elif ch == '\n':
                line += 1
                if state == 'dq':
                    state = 'code'
            elif ch == '#' and state == 'code':
                # python comment in generated code: skip to end of line
                j = src.find('\n', i)
                i = n if j < 0 else j
                continue
            i += 1
        return res

    def macro(self, name):
        for m in self.ast.find_all(nodes.Macro):
            if m.name == name:
                return m
        return None

    def macro_source(self, name):
        m = re.search(r'\{%-?\s*macro\s+' + re.escape(name) + r'\b.*?\{%-?\s*endmacro\s*-?%\}', self.src, re.S)
        return m.group(0) if m else None


def class_test(test):
    """definition['class'] == 'x'  or  definition['class'] in ('x', 'y')"""
    if isinstance(test, nodes.Compare) and len(test.ops) == 1:
        left = test.expr
        if isinstance(left, nodes.Getitem) and isinstance(left.arg, nodes.Const) and left.arg.value == 'class':
            op = test.ops[0]
            if op.op == 'eq' and isinstance(op.expr, nodes.Const):
                return (op.expr.value,)
            if op.op == 'in' and isinstance(op.expr, nodes.Tuple):
                return tuple(x.value for x in op.expr.items if isinstance(x, nodes.Const))
    return None


def path_of(n, root, allow_root=False):
    """key path of a Getitem chain / .get('k') call rooted at Name(root)"""
    keys = []
    cur = n
    while True:
        if isinstance(cur, nodes.Getitem) and isinstance(cur.arg, nodes.Const):
            keys.append(cur.arg.value)
            cur = cur.node
        elif isinstance(cur, nodes.Call) and isinstance(cur.node, nodes.Getattr) and cur.node.attr == 'get' and \
                cur.args and isinstance(cur.args[0], nodes.Const):
            keys.append(cur.args[0].value)
            cur = cur.node.node
        elif isinstance(cur, nodes.Getitem):
            # dynamic key: path ends with a wildcard
            keys.append('*')
            cur = cur.node
        else:
            break
    if isinstance(cur, nodes.Name) and cur.name == root and (keys or allow_root):
        return tuple(reversed(keys))
    return None


def expr_info(env, expr):
    """parse one `{{ expr }}` source: (root variable name, path tuple, [filter names])"""
    try:
        t = env.parse('{{ %s }}' % expr)
    except jinja2.TemplateSyntaxError:
        return None, (), []
    out = list(t.find_all(nodes.Output))[0].nodes[0]
    filters = []
    cur = out
    while isinstance(cur, nodes.Filter):
        filters.append(cur.name)
        cur = cur.node
    keys = []
    while isinstance(cur, nodes.Getitem):
        keys.append(cur.arg.value if isinstance(cur.arg, nodes.Const) else '*')
        cur = cur.node
    root = cur.name if isinstance(cur, nodes.Name) else None
    return root, tuple(reversed(keys)), list(reversed(filters))
