"""E8 - per-module typestate analysis of MibCompiler.compile()  (shared by C07 C08 C09 C10 C13 C19 C20).

A path-sensitive dataflow analysis over the statement CFG of compile() with a finite abstract domain.  Nothing is
executed: the analysis interprets the *statements of compile()* over abstract states and explores every abstract path
(all outcomes of every component call, all option settings, all iteration orders).

Abstraction.  One arbitrary module name `A` is tracked; every other name is `O` ("some other module").  A state holds
  in:<D>     abstract value stored under key A in the local dict/set/list D (absent = A not in D)
  oth:<D>    whether D holds keys other than A (kept only for containers whose truth value / length is consulted)
  env:<v>    abstract value of a local variable (only values the analysis understands; absent = unknown)
  opt:<o>    value of options.get('<o>') (ignoreErrors / noDeps / writeMibs fixed per exploration, others on demand)
  req        whether A is one of the names given to compile()
  loop:<id>  per-loop iteration state (for a loop over a snapshot of D: whether A is still to be visited)
  exc / cur  package exception class in flight / being handled
  f:<flag>   event flags (popped, resolved, parsed, generated, fresh, asked to borrow, handed to the writer ...)
Abstract values: ('k','A') / ('k','O',requested?) module names - ('info',k) MibInfo of module k - ('finfo',origin,k) -
('text',k) - ('trees',k) / ('tree',k|None) - ('data',origin,k) code produced for module k by 'gen' or 'bor' -
('symtab',k) - ('exc',) - ('status',word,has_error,keys) - ('tup',...) - ('oth',) anything stored under another key -
('unk',).

Component calls are recognised by role (receiver attribute wired to addSources / addSearchers / addBorrowers or to a
constructor parameter, plus the protocol method name).  Each may return normally or raise any package error class
(classes that no handler of compile() tells apart are merged).  A subscript load or `del` on a key that is absent is
a KeyError in flight.  Branches on untracked facts go both ways.

The invariants (INV below) are checked at the events they speak about (component calls, stores) and at every return.
Because A is arbitrary, an invariant that holds for A on every abstract path holds for every module on every concrete
path that the abstraction covers; the abstraction over-approximates (iteration order of the work list and of dict
snapshots is arbitrary, imports are arbitrary), so a report may in principle be infeasible - every report carries the
abstract path that leads to it so that it can be reproduced or refuted by hand.
"""
import ast

from vt.cfg import CFG, in_subtree
from vt.model import walk_no_nested, norm, dotted_name
from vt.runner import AnalysisError, where
from rules import compile_roles as cr

COMPILER = 'pysmi/compiler.py'
A = ('k', 'A')
UNK = ('unk',)
OTH = ('oth',)
NONE = ('none',)
MUTATORS = ('append', 'extend', 'insert', 'remove', 'pop', 'clear', 'update', 'setdefault', 'add', 'discard',
            'popitem', 'sort', 'reverse')
PURE_FUNCS = ('len', 'bool', 'str', 'repr', 'sorted', 'tuple', 'list', 'set', 'frozenset', 'dict', 'iter', 'any',
              'all', 'min', 'max', 'sum', 'enumerate', 'isinstance', 'hasattr', 'getattr', 'id', 'type', 'print',
              'reversed', 'zip', 'map', 'filter', 'int')
MAX_STATES = 3000000

INV = {
    'escape': 'no exception - package error or KeyError from the bookkeeping itself - leaves compile()',
    'accounted': 'a name taken from the work list, and every module the symbol-table pass produced, has a status '
                 'in the returned map (a name that resolved to differently named modules is represented by them)',
    'status-effect': 'status compiled / borrowed <=> that module\'s text was handed to the writer and the writer '
                     'returned (or writing is switched off); a writer error leaves the module failed, with the error',
    'once': 'a module is handed to the writer at most once per call',
    'verbatim': 'the text handed to the writer for a module is the value the code generator / borrower returned '
                'for that same module, and it is filed under that module\'s name',
    'failed-pairing': 'at return: the module is in the FAILED map <=> its status is failed or missing; a failed '
                      'status carries the error',
    'stale-failure': 'when the pass over the sources ends with a source that delivers the name, an error an earlier '
                     'source raised for that name no longer counts: the name has left the FAILED map by the time '
                     'compile() returns (unless something failed for it afterwards)',
    'failure-forgotten': 'a module leaves the FAILED map only right after its name was fetched and analysed '
                         'successfully, or a borrower supplied it - never because it is skipped or excluded',
    'missing-reported': 'a name that every source was asked for and none delivered, and that no borrower supplied, '
                        'ends missing (or failed) and in the FAILED map - whatever the searchers say about old copies',
    'own-key': 'values of one module (MibInfo, syntax tree, symbol table, generated text, status attributes) are '
               'filed under that module\'s own name, never under another module\'s',
    'abort': 'the first hand-over to the writer happens only when the FAILED map is empty or ignoreErrors is set; '
             'when compile() returns without writing, every built module is reported unprocessed',
    'nowrite-switch': 'with writeMibs switched off the writer is never called',
    'fetch-once': 'the sources are asked for one name in at most one pass over the source list per call',
    'closure': 'the imports of every module the symbol-table pass produced are queued on the work list',
    'fresh': 'a module some searcher reported as up to date is not code-generated afterwards and ends untouched; '
             'untouched is only ever reported for that reason or for the noDeps exclusion',
    'nodeps': 'under noDeps only modules that were requested, or produced by fetching a requested name, are '
              'code-generated, and only other modules are excluded',
    'borrow-failed-only': 'a borrower is asked only for a module that is in the FAILED map at that time, and a '
                          'module with generated code is never replaced by a borrowed copy',
    'borrow-eligible': 'a failed module that was explicitly requested is offered to the borrowers also under noDeps',
    'borrow-status': 'a module ends borrowed only if a borrower supplied its text, and then leaves the FAILED map',
}


class Report(object):
    def __init__(self):
        self.viol = {}      # (inv, site) -> (message, path)
        self.checked = {}   # (inv, site) -> count
        self.states = 0
        self.configs = 0

    def check(self, inv, site, ok, msg, path_fn, st=None):
        if not ok and st is not None and st.get('f:partial'):
            site += '/after-partial-file'
        k = (inv, site)
        self.checked[k] = self.checked.get(k, 0) + 1
        if not ok and k not in self.viol:
            self.viol[k] = (msg, path_fn())


def tagk(k):
    """module tag for embedding in values: the requested-bit of an `other` name is dropped"""
    if isinstance(k, tuple) and k and k[0] == 'k':
        return k if k == A else ('k', 'O')
    return k


def freeze(d):
    return tuple(sorted(d.items()))


def keys_in(v, kinds=('info', 'data', 'tree', 'symtab', 'of')):
    """module tags carried by an abstract value (file infos excepted: a file may be named unlike its module)"""
    out = set()
    if isinstance(v, tuple) and v:
        if v[0] in kinds and len(v) > 1:
            k = v[-1] if v[0] != 'data' else v[2]
            if isinstance(k, tuple) and k and k[0] == 'k':
                out.add(k[1])
        elif v[0] == 'tup':
            for c in v[1:]:
                out |= keys_in(c, kinds)
        elif v[0] == 'status':
            out |= set(v[3])
    return out


class Interp(object):
    def __init__(self, model, merge_classes=True):
        self.model = model
        self.merge_classes = merge_classes
        r = cr.infer(model)
        self.r = r
        self.fn, self.mod, self.cls = r.fn, r.mod, r.cls
        self.cfg = CFG(self.fn)
        self.rep = Report()
        if any(isinstance(n, ast.Try) and n.finalbody for n in walk_no_nested(self.fn)):
            raise AnalysisError('compile() uses try/finally: the typestate interpreter has no continuation model for it')
        self.args_name = self.fn.args.vararg.arg if self.fn.args.vararg else None
        self.opts_name = self.fn.args.kwarg.arg if self.fn.args.kwarg else None
        if not self.args_name or not self.opts_name:
            raise AnalysisError('compile(*names, **options) signature not found')
        self._containers()
        self._component_roles()
        self._alphabet()
        self.result, self.failed = r.result, r.failed
        self.status_consts = r.status_consts
        self.parents = {}
        self._encl = {}
        self._memo = {}
        self._liveness()
        self._container_liveness()
        self._noops()

    def _container_liveness(self):
        """node ids from which a mention of container X is still reachable; elsewhere X's abstract content is dropped
        (the result map, the FAILED map and the work maps stay: the return invariants read them)"""
        keep = set([self.result, self.failed]) | set(self.r.work)
        self.cont_live = {}
        for name in self.cont:
            if name in keep:
                continue
            seeds = []
            for n in self.cfg.nodes:
                roots = []
                if n.kind == 'stmt' and not isinstance(n.ast, (ast.FunctionDef, ast.ClassDef)):
                    roots = [n.ast] if not isinstance(n.ast, (ast.With, ast.AsyncWith)) else \
                        [i.context_expr for i in n.ast.items]
                elif n.kind in ('test', 'iter'):
                    roots = [n.expr]
                if any(isinstance(x, ast.Name) and x.id == name for r in roots for x in ast.walk(r)):
                    seeds.append(n)
            live = set()
            stack = list(seeds)
            while stack:
                n = stack.pop()
                if n.id in live:
                    continue
                live.add(n.id)
                for p, l in n.pred:
                    stack.append(p)
            self.cont_live[name] = live

    def _noops(self):
        """statements without effect on the abstract state (attribute stores with call-free values, pass): the
        exploration walks through them without recording states"""
        self.noop = {}
        for n in self.cfg.nodes:
            if n.kind != 'stmt':
                continue
            a = n.ast
            ok = isinstance(a, ast.Pass)
            if isinstance(a, ast.Assign) and all(isinstance(t, ast.Attribute) for t in a.targets) or \
                    isinstance(a, ast.AugAssign) and isinstance(a.target, ast.Attribute):
                ok = not any(isinstance(x, (ast.Call, ast.Subscript)) for x in ast.walk(a.value))
            if ok:
                nxt = [m for m, l in n.succ if l == 'n']
                if len(nxt) == 1 and nxt[0].kind not in ('exit',):
                    self.noop[n.id] = nxt[0]

    def _liveness(self):
        """live local variables per CFG node (backward may-analysis); dead variables are dropped from the abstract
        environment so that stale values do not multiply states"""
        use, defs = {}, {}
        for n in self.cfg.nodes:
            u, d = set(), set()
            roots = []
            if n.kind == 'stmt' and not isinstance(n.ast, (ast.With, ast.AsyncWith, ast.FunctionDef, ast.ClassDef)):
                roots = [n.ast]
            elif n.kind == 'stmt' and isinstance(n.ast, (ast.With, ast.AsyncWith)):
                roots = [i.context_expr for i in n.ast.items] + [i.optional_vars for i in n.ast.items
                                                                 if i.optional_vars is not None]
            elif n.kind == 'test':
                roots = [n.expr]
            elif n.kind == 'iter':
                roots = [n.expr, n.ast.target]
            elif n.kind == 'handler' and n.ast.name:
                d.add(n.ast.name)
            for r in roots:
                for x in ast.walk(r):
                    if isinstance(x, ast.Name):
                        if isinstance(x.ctx, ast.Load):
                            u.add(x.id)
                        else:
                            d.add(x.id)
                            if isinstance(getattr(x, '_parent', None), ast.AugAssign):
                                u.add(x.id)
            use[n.id], defs[n.id] = u, d
        live = dict((n.id, set()) for n in self.cfg.nodes)
        changed = True
        while changed:
            changed = False
            for n in reversed(self.cfg.nodes):
                out = set()
                for m, l in n.succ:
                    out |= live[m.id]
                # an exception edge leaves before the definition takes effect: keep defs live across it
                new = use[n.id] | (out - defs[n.id]) | (set().union(*[live[m.id] for m, l in n.succ if l == 'exc'])
                                                       if n.succ else set())
                if new != live[n.id]:
                    live[n.id] = new
                    changed = True
        self.live = live

    def _enclosing_loops(self, node):
        cached = self._encl.get(node.id)
        if cached is None:
            cached = set()
            a = node.ast
            if node.kind == 'iter':
                cached.add('loop:%d' % self.loop_id(a))
            child = a
            a = getattr(a, '_parent', None) if a is not None else None
            while a is not None and a is not self.fn:
                if isinstance(a, (ast.For, ast.While)) and any(child is x for x in a.body):
                    cached.add('loop:%d' % self.loop_id(a))
                    if isinstance(a, ast.While):
                        cached.add('@while')
                if isinstance(a, ast.Try) and any(child is x for x in a.body):
                    cached.add('@try')
                child, a = a, getattr(a, '_parent', None)
            if node.kind == 'dispatch':
                cached.add('@try')
            if node.kind == 'test' and isinstance(node.ast, ast.While):
                cached.add('@while')
            self._encl[node.id] = cached
        return cached

    def prune(self, node, st):
        """drop what cannot matter at `node`: dead variables, iteration state of loops that were left"""
        lv = self.live[node.id]
        encl = self._enclosing_loops(node)
        for k in [k for k in st if k.startswith('env:') and k[4:] not in lv]:
            if k == 'env:@popped' and '@while' in encl:
                continue
            del st[k]
        if '@while' not in encl:
            st.pop('f:srcdone', None)
            st.pop('f:res', None)
            st.pop('f:queued', None)
            st.pop('f:imports-phase', None)
            st.pop('f:popped', None)
        if '@try' not in encl:
            st.pop('f:infetch', None)
        for name, live in self.cont_live.items():
            if node.id not in live:
                st.pop('in:' + name, None)
                st.pop('oth:' + name, None)
        for k in [k for k in st if k.startswith('loop:') and k not in encl]:
            d = st.pop(k)
            if d and d[0] == 'comp' and self.attr_role.get(d[1]) == 'source' and st.pop('f:srcasking', None):
                st['f:srcdone'] = True
        return st

    # -- static preparation ------------------------------------------------------------------------------------
    def _containers(self):
        """locals bound to an empty dict / set / list (or a list of the requested names)"""
        self.cont = {}
        for n in walk_no_nested(self.fn):
            if isinstance(n, ast.Assign) and len(n.targets) == 1 and isinstance(n.targets[0], ast.Name):
                k = self._container_literal(n.value)
                if k:
                    name = n.targets[0].id
                    if name in self.cont and self.cont[name] != k[0]:
                        raise AnalysisError('local %s is bound to containers of different kinds' % name)
                    self.cont[name] = k[0]
        # consulted for truth / length
        self.tested = set()
        for n in walk_no_nested(self.fn):
            tests = []
            if isinstance(n, (ast.If, ast.While, ast.IfExp)):
                tests.append(n.test)
            for t in tests:
                self._truth_names(t)
            if isinstance(n, ast.Call) and isinstance(n.func, ast.Name) and n.func.id in ('len', 'bool') and n.args \
                    and isinstance(n.args[0], ast.Name) and n.args[0].id in self.cont:
                self.tested.add(n.args[0].id)
        # FIFO work lists: initialised from the requested names, only ever popped with pop(0) and grown with
        # extend / append
        self.fifo = {}
        for name, kind in self.cont.items():
            if kind != 'list':
                continue
            inits = [n for n in walk_no_nested(self.fn) if isinstance(n, ast.Assign) and len(n.targets) == 1 and
                     isinstance(n.targets[0], ast.Name) and n.targets[0].id == name]
            ok = bool(inits) and all((self._container_literal(n.value) or (None, False))[1] for n in inits)
            for n in walk_no_nested(self.fn):
                if isinstance(n, ast.Call) and isinstance(n.func, ast.Attribute) and isinstance(n.func.value, ast.Name) \
                        and n.func.value.id == name:
                    if n.func.attr == 'pop':
                        ok = ok and len(n.args) == 1 and isinstance(n.args[0], ast.Constant) and n.args[0].value == 0
                    elif n.func.attr not in ('extend', 'append'):
                        ok = False
            self.fifo[name] = ok
        # aliasing of containers is not modelled
        for n in walk_no_nested(self.fn):
            if isinstance(n, ast.Assign) and isinstance(n.value, ast.Name) and n.value.id in self.cont:
                raise AnalysisError('container %s is aliased (%s)' % (n.value.id, norm(n)))

    def _truth_names(self, t):
        if isinstance(t, ast.Name) and t.id in self.cont:
            self.tested.add(t.id)
        elif isinstance(t, ast.BoolOp):
            for v in t.values:
                self._truth_names(v)
        elif isinstance(t, ast.UnaryOp) and isinstance(t.op, ast.Not):
            self._truth_names(t.operand)

    def _container_literal(self, v):
        if isinstance(v, ast.Dict) and not v.keys:
            return ('dict', False)
        if isinstance(v, ast.List) and not v.elts:
            return ('list', False)
        if isinstance(v, ast.Call) and isinstance(v.func, ast.Name) and not v.keywords:
            if v.func.id in ('dict', 'set', 'list') and not v.args:
                return (v.func.id, False)
            if v.func.id in ('list', 'set') and len(v.args) == 1 and isinstance(v.args[0], ast.Name) and \
                    v.args[0].id == self.args_name:
                return (v.func.id, True)
        if isinstance(v, ast.ListComp) and len(v.generators) == 1 and not v.generators[0].ifs and \
                isinstance(v.generators[0].iter, ast.Name) and v.generators[0].iter.id == self.args_name and \
                isinstance(v.elt, ast.Name) and isinstance(v.generators[0].target, ast.Name) and \
                v.elt.id == v.generators[0].target.id:
            return ('list', True)
        return None

    def _component_roles(self):
        """attribute of self -> role, from the constructor and the add* methods of the class"""
        roles = {}
        owner, init = self.model.method(COMPILER, 'MibCompiler', '__init__')
        params = [a.arg for a in init.args.args[1:]]
        for n in walk_no_nested(init):
            if isinstance(n, ast.Assign) and len(n.targets) == 1:
                t = n.targets[0]
                if isinstance(t, ast.Attribute) and isinstance(t.value, ast.Name) and t.value.id == 'self':
                    if isinstance(n.value, ast.Name) and n.value.id in params:
                        roles[t.attr] = ('param', n.value.id)
                    elif isinstance(n.value, ast.Call):
                        roles[t.attr] = ('ctor', norm(n.value.func))
                    elif isinstance(n.value, ast.List) and not n.value.elts:
                        roles[t.attr] = ('list', None)
        adders = {}
        for meth, role in (('addSources', 'source'), ('addSearchers', 'searcher'), ('addBorrowers', 'borrower')):
            o, f = self.model.method(COMPILER, 'MibCompiler', meth)
            for n in walk_no_nested(f):
                if isinstance(n, ast.Call) and isinstance(n.func, ast.Attribute) and n.func.attr in (
                        'extend', 'append') and isinstance(n.func.value, ast.Attribute) and \
                        isinstance(n.func.value.value, ast.Name) and n.func.value.value.id == 'self':
                    adders[n.func.value.attr] = role
        self.attr_role = {}
        for attr, (kind, what) in roles.items():
            if kind == 'list' and attr in adders:
                self.attr_role[attr] = adders[attr]
            elif kind == 'param':
                self.attr_role[attr] = what        # parser / codegen / writer (constructor parameter names)
            elif kind == 'ctor':
                self.attr_role[attr] = 'ctor:' + what
        for need in ('source', 'searcher', 'borrower'):
            if need not in self.attr_role.values():
                raise AnalysisError('cannot find the component list filled by add%ss()' % need.capitalize())

    def role_of_call(self, recv_val, meth):
        """protocol role of <recv>.<meth>(...)"""
        if not isinstance(recv_val, tuple) or recv_val[0] not in ('comp', 'compitem'):
            return None
        ar = self.attr_role.get(recv_val[1])
        if ar is None:
            return None
        if meth == 'getData' and recv_val[0] == 'compitem' and ar in ('source', 'borrower'):
            return ar
        if meth == 'fileExists' and recv_val[0] == 'compitem' and ar == 'searcher':
            return 'searcher'
        if recv_val[0] == 'comp':
            if meth == 'parse':
                return 'parser'
            if meth == 'putData':
                return 'writer'
            if meth == 'genCode':
                return 'symgen' if ar.startswith('ctor:') else 'codegen'
            if meth == 'getData':
                return 'writer-read'
        return None

    def _alphabet(self):
        """package exception classes, merged when no handler of compile() distinguishes them"""
        em = self.model.mod('pysmi/error.py')
        classes = {}
        for c in em.classes():
            anc = self.model.exc_ancestors(em, ast.Name(id=c.name, ctx=ast.Load()))
            if 'PySmiError' in anc:
                classes[c.name] = anc
        self.ancestry = classes
        self.ancestry['KeyError'] = ['KeyError', 'LookupError', 'Exception', 'BaseException']
        htypes = []
        for n in walk_no_nested(self.fn):
            if isinstance(n, ast.ExceptHandler):
                htypes.append(tuple(sorted(cr.handler_type_names(self.model, self.mod, n))))
        self.fresh_cls = 'PySmiFileNotModifiedError'
        sig = {}
        for name, anc in classes.items():
            if name == 'KeyError':
                continue
            s = tuple(any(t in anc for t in ht) for ht in htypes) + (self.fresh_cls in anc,)
            sig.setdefault(s, []).append(name)
        self.alphabet = sorted(min(v, key=lambda x: (len(classes[x]), x)) for v in sig.values())
        self.merged = dict((min(v, key=lambda x: (len(classes[x]), x)), sorted(v)) for v in sig.values())

    # -- exploration -------------------------------------------------------------------------------------------
    def explore(self):
        init_states = []
        for req in (True, False):
            init_states.append({'req': req})
        self.rep.configs = len(init_states)
        seen = {}
        import collections
        work = collections.deque()
        for st in init_states:
            fz = freeze(st)
            seen.setdefault(self.cfg.entry.id, set()).add(fz)
            work.append((self.cfg.entry, fz))
            self.parents[(self.cfg.entry.id, fz)] = None
        n = 0
        while work:
            node, fz = work.popleft()
            n += 1
            if n > MAX_STATES:
                raise AnalysisError('typestate exploration exceeds %d abstract states' % MAX_STATES)
            self._cur = (node.id, fz)
            for succ, st2, note in self.step(node, dict(fz)):
                extra = st2.pop('~n', None)
                if extra:
                    note = extra if not note else '%s; %s' % (note, extra)
                while succ.id in self.noop:
                    succ = self.noop[succ.id]
                fz2 = freeze(self.prune(succ, st2))
                s = seen.setdefault(succ.id, set())
                if fz2 in s:
                    continue
                s.add(fz2)
                self.parents[(succ.id, fz2)] = (node.id, fz, note, node.lineno)
                work.append((succ, fz2))
        self.rep.states = n
        return self.rep

    def path(self):
        cur = self._cur
        notes = []
        while cur is not None:
            p = self.parents.get(cur)
            if p is None:
                break
            if p[2]:
                notes.append('L%s %s' % (p[3], p[2]))
            cur = (p[0], p[1])
        st0 = dict(cur[1]) if cur else {}
        end = dict(self._cur[1])
        head = 'module requested=%s; options as far as consulted: %s' % (st0.get('req'), ', '.join(
            '%s=%s' % (k[4:], v) for k, v in sorted(end.items()) if k.startswith('opt:')) or 'none')
        notes.reverse()
        out = []
        for x in notes:     # compress repetitions
            if len(out) >= 2 and out[-1] == x:
                continue
            out.append(x)
        if len(out) > 60:
            out = out[:25] + ['... %d steps ...' % (len(out) - 50)] + out[-25:]
        return [head] + out

    def edge(self, node, label):
        for m, l in node.succ:
            if l == label:
                return m
        return None

    def step(self, node, st):
        k = node.kind
        if k in ('entry', 'join'):
            return [(m, st, None) for m, l in node.succ if l == 'n']
        if k == 'exit':
            return []
        if k == 'raise':
            cls = st.get('exc')
            self.rep.check('escape', 'compile', False, 'an exception of class %s (or a class handled alike: %s) '
                           'leaves compile()' % (cls, ', '.join(self.merged.get(cls, [cls]))), self.path, st)
            return []
        if k == 'stmt':
            out = []
            for label, st2, note in self.exec_stmt(node.ast, st):
                if label == 'exc':
                    m = self.edge(node, 'exc')
                    if m is None:
                        raise AnalysisError('no exception edge at line %s' % node.lineno)
                    out.append((m, st2, note))
                elif label == 'ret':
                    self.at_return(node, st2)
                    out.append((self.cfg.exit, st2, note))
                elif label == 'brk':
                    loop = cr.enclosing_loop(node.ast, self.fn)
                    if loop is not None:
                        self.leave_loop(loop, st2, via_break=True)
                    m = self.edge(node, 'brk')
                    if m is not None:
                        out.append((m, st2, note))
                elif label == 'cnt':
                    m = self.edge(node, 'cnt')
                    out.append((m, st2, note))
                else:
                    m = self.edge(node, 'n')
                    if m is None:
                        # falling off the end of the function
                        continue
                    if m is self.cfg.exit:
                        st2['ret'] = NONE
                        self.at_return(node, st2)
                    out.append((m, st2, note))
            return out
        if k == 'test':
            out = []
            for tag, val, st2 in self.cond(node.expr, st):
                if tag == 'x':
                    st2['exc'] = val
                    out.append((self.edge(node, 'exc'), st2, 'raises %s' % val))
                    continue
                m = self.edge(node, 'T' if val else 'F')
                if m is None:
                    continue
                if not val and isinstance(node.ast, ast.While):
                    pass
                if m is self.cfg.exit:
                    st2['ret'] = NONE
                    self.at_return(node, st2)
                out.append((m, st2, None))
            return out
        if k == 'iter':
            return self.step_iter(node, st)
        if k == 'dispatch':
            if st.pop('f:infetch', None):
                # the module was produced by a symbol-table pass inside this try body, which then raised: the
                # known partially-readable-file history (see known_findings.json, F44)
                st['f:partial'] = True
            cls = st.get('exc')
            anc = self.ancestry.get(cls, [cls])
            for m, l in node.succ:
                if m.kind == 'handler' and m.try_ast is node.try_ast:
                    names = self.handler_names(m.ast)
                    if any(t in anc for t in names):
                        return [(m, st, None)]
            for m, l in node.succ:
                if m.kind != 'handler' or m.try_ast is not node.try_ast:
                    return [(m, st, None)]
            raise AnalysisError('exception dispatch without continuation at line %s' % node.lineno)
        if k == 'handler':
            cls = st.pop('exc', None)
            st.pop('cur', None)
            k = ('hasraise', node.id)
            if k not in self._memo:
                self._memo[k] = any(isinstance(x, ast.Raise) for x in ast.walk(node.ast))
            if self._memo[k]:
                st['cur'] = cls
            if node.ast.name:
                st['env:' + node.ast.name] = ('exc',)
            return [(m, st, 'handled by `except %s`' % (self.nrm(node.ast.type) if node.ast.type else ''))
                    for m, l in node.succ if l == 'n']
        raise AnalysisError('unhandled CFG node kind %s' % k)

    # -- loops ---------------------------------------------------------------------------------------------------
    def leave_loop(self, loop, st, via_break=False):
        key = 'loop:%d' % self.loop_id(loop)
        d = st.pop(key, None)
        if not via_break and d and d[0] == 'comp' and self.attr_role.get(d[1]) == 'source' and \
                st.get('env:@popped') == A:
            st['f:nosource'] = True     # every source was asked for this name and none delivered it
        if via_break and d and d[0] == 'comp' and self.attr_role.get(d[1]) == 'source' and \
                st.get('env:@popped') == A:
            # the pass over the sources for this name ended with a source that delivered
            st['f:fetchok'] = True
            st.pop('f:failedlater', None)
        if d and d[0] == 'comp' and self.attr_role.get(d[1]) == 'source' and st.pop('f:srcasking', None):
            st['f:srcdone'] = True

    def loop_id(self, loop):
        return getattr(loop, 'lineno', 0) * 1000 + getattr(loop, 'col_offset', 0)

    def step_iter(self, node, st):
        loop = node.ast
        key = 'loop:%d' % self.loop_id(loop)
        out = []
        starts = [(st, None)]
        if key not in st:
            starts = []
            for tag, val, st2 in self.ev(loop.iter, st):
                if tag == 'x':
                    st2['exc'] = val
                    out.append((self.edge(node, 'exc'), st2, 'raises %s' % val))
                    continue
                if val[0] in ('snap', 'cont') and self.cont.get(val[1]) in ('dict', 'set', 'list'):
                    st2[key] = ('keys', val[1], ('in:' + val[1]) in st2)
                elif val[0] == 'comp':
                    st2[key] = ('comp', val[1])
                    self.enter_component_loop(loop, val[1], st2)
                elif val[0] == 'trees':
                    st2[key] = ('trees', val[1], False)
                elif val == ('tup',):
                    st2[key] = ('empty',)
                elif val[0] == 'tup':
                    st2[key] = ('seq', val[1:], 0)
                else:
                    st2[key] = ('unk',)
                starts.append((st2, None))
        for st1, _ in starts:
            d = st1[key]
            tnode, fnode = self.edge(node, 'T'), self.edge(node, 'F')
            if d[0] == 'keys':
                if d[2]:
                    s = dict(st1)
                    s.pop('f:cure', None)
                    s[key] = ('keys', d[1], False)
                    if d[1] == self.failed and self.has_borrower_loop(loop):
                        s['f:borskip'] = True
                    self.bind(loop.target, A, s)
                    out.append((tnode, s, 'next key of %s: A' % d[1]))
                else:
                    s = dict(st1)
                    self.leave_loop(loop, s)
                    if fnode is self.cfg.exit:
                        s['ret'] = NONE
                        self.at_return(node, s)
                    out.append((fnode, s, None))
                for req in (False, True):
                    s = dict(st1)
                    s.pop('f:cure', None)
                    self.bind(loop.target, ('k', 'O', req), s)
                    out.append((tnode, s, 'next key of %s: another module' % d[1]))
            elif d[0] == 'seq':
                s = dict(st1)
                if d[2] < len(d[1]):
                    s[key] = ('seq', d[1], d[2] + 1)
                    self.bind(loop.target, d[1][d[2]], s)
                    out.append((tnode, s, None))
                else:
                    self.leave_loop(loop, s)
                    if fnode is self.cfg.exit:
                        s['ret'] = NONE
                        self.at_return(node, s)
                    out.append((fnode, s, None))
            else:
                s = dict(st1)
                if d[0] == 'comp':
                    self.bind(loop.target, ('compitem', d[1]), s)
                elif d[0] == 'trees':
                    self.bind(loop.target, ('tree', None), s)
                    s[key] = ('trees', d[1], True)
                else:
                    self.bind(loop.target, UNK, s)
                if d[0] != 'empty':
                    out.append((tnode, s, 'next %s' % (d[1] if d[0] == 'comp' else 'item')))
                if d[0] == 'trees' and not d[2]:
                    continue        # a parse result that is not empty yields at least one module
                s = dict(st1)
                self.leave_loop(loop, s)
                if fnode is self.cfg.exit:
                    s['ret'] = NONE
                    self.at_return(node, s)
                out.append((fnode, s, '%s exhausted' % (d[1] if d[0] == 'comp' else 'items')))
        return out

    def has_borrower_loop(self, loop):
        for n in ast.walk(loop):
            if isinstance(n, ast.For) and n is not loop and isinstance(n.iter, ast.Attribute) and \
                    isinstance(n.iter.value, ast.Name) and n.iter.value.id == 'self' and \
                    self.attr_role.get(n.iter.attr) == 'borrower':
                return True
        return False

    def enter_component_loop(self, loop, attr, st):
        role = self.attr_role.get(attr)
        if role != 'borrower':
            return
        # the module the borrowers are tried for: loop variable of the innermost enclosing loop over a snapshot
        for outer in cr.enclosing_loops(loop, self.fn):
            d = st.get('loop:%d' % self.loop_id(outer))
            if d and d[0] == 'keys' and isinstance(outer.target, ast.Name):
                if st.get('env:' + outer.target.id) == A:
                    st.pop('f:borskip', None)
                return

    # -- binding ---------------------------------------------------------------------------------------------------
    def bind(self, target, val, st):
        if isinstance(target, ast.Name):
            if target.id in self.cont:
                raise AnalysisError('container %s is rebound (%s)' % (target.id, norm(target)))
            if val == UNK:
                st.pop('env:' + target.id, None)
            else:
                st['env:' + target.id] = val
        elif isinstance(target, (ast.Tuple, ast.List)):
            if val[0] == 'tup' and len(val) - 1 == len(target.elts):
                for t, v in zip(target.elts, val[1:]):
                    self.bind(t, v, st)
            elif val[0] == 'oth':
                for t in target.elts:
                    self.bind(t, OTH, st)
            else:
                for t in target.elts:
                    self.bind(t, UNK, st)
        # attribute / subscript targets are handled by exec_stmt

    # -- expressions -------------------------------------------------------------------------------------------------
    def ev_seq(self, exprs, st):
        """evaluate expressions left to right -> [('v', [vals], st) | ('x', cls, st)]"""
        res = [('v', [], st)]
        for e in exprs:
            nxt = []
            for tag, vals, s in res:
                if tag == 'x':
                    nxt.append((tag, vals, s))
                    continue
                for t2, v2, s2 in self.ev(e, s):
                    if t2 == 'x':
                        nxt.append(('x', v2, s2))
                    else:
                        nxt.append(('v', vals + [v2], s2))
            res = nxt
        return res

    def key_of(self, v):
        if isinstance(v, tuple) and v and v[0] == 'k':
            return v
        return None

    def ev(self, e, st):
        """-> list of ('v', value, state) | ('x', exception class, state); states are private copies when they differ"""
        if isinstance(e, ast.Constant):
            return [('v', NONE if e.value is None else ('const', e.value), st)]
        if isinstance(e, ast.Name):
            if e.id in self.cont:
                return [('v', ('cont', e.id), st)]
            if e.id == 'self':
                return [('v', ('self',), st)]
            if e.id == self.args_name:
                return [('v', ('args',), st)]
            if e.id == self.opts_name:
                return [('v', ('options',), st)]
            if 'env:' + e.id in st:
                return [('v', st['env:' + e.id], st)]
            if e.id in self.status_consts:
                return [('v', ('status', self.status_consts[e.id], False, ()), st)]
            return [('v', UNK, st)]
        if isinstance(e, ast.Attribute):
            anc = self.anc(e) if isinstance(e.value, ast.Name) else []
            if anc and anc[0] in self.ancestry:
                return [('v', ('exccls', anc[0]), st)]
            out = []
            for tag, v, s in self.ev(e.value, st):
                if tag == 'x':
                    out.append((tag, v, s))
                    continue
                out.append(('v', self.attr(v, e.attr), s))
            return out
        if isinstance(e, (ast.Tuple, ast.List)):
            out = []
            for tag, vals, s in self.ev_seq(e.elts, st):
                out.append((tag, vals, s) if tag == 'x' else ('v', ('tup',) + tuple(vals), s))
            return out
        if isinstance(e, ast.Subscript):
            return self.ev_subscript(e, st)
        if isinstance(e, ast.Call):
            return self.ev_call(e, st)
        if isinstance(e, (ast.BoolOp, ast.Compare)) or (isinstance(e, ast.UnaryOp) and isinstance(e.op, ast.Not)):
            if isinstance(e, ast.BoolOp):
                return self.ev_boolop_value(e, st)
            return [(t, ('bool', v) if t == 'v' else v, s) for t, v, s in self.cond(e, st)]
        if isinstance(e, ast.IfExp):
            out = []
            for tag, v, s in self.cond(e.test, st):
                if tag == 'x':
                    out.append((tag, v, s))
                else:
                    out += self.ev(e.body if v else e.orelse, s)
            return out
        if isinstance(e, ast.ListComp) and len(e.generators) == 1:
            out = []
            for tag, v, s in self.ev(e.generators[0].iter, st):
                if tag == 'x':
                    out.append((tag, v, s))
                elif v[0] == 'imports':
                    out.append(('v', v, s))
                elif v[0] == 'args':
                    out.append(('v', ('args',), s))
                else:
                    out.append(('v', UNK, s))
            return out
        # anything else: evaluate sub-expressions for their effects, value unknown
        subs = [c for c in ast.iter_child_nodes(e) if isinstance(c, ast.expr)]
        if isinstance(e, (ast.Lambda, ast.GeneratorExp, ast.SetComp, ast.DictComp, ast.ListComp)):
            return [('v', UNK, st)]
        out = []
        for tag, vals, s in self.ev_seq(subs, st):
            out.append((tag, vals, s) if tag == 'x' else ('v', UNK, s))
        return out

    def anc(self, e):
        """ancestry of a class expression that resolves to a class of the package ([] otherwise), memoised"""
        k = ('anc', id(e))
        if k not in self._memo:
            self._memo[k] = self.model.exc_ancestors(self.mod, e) \
                if self.model.resolve_class(self.mod, e) is not None else []
        return self._memo[k]

    def nrm(self, e):
        k = ('norm', id(e))
        if k not in self._memo:
            self._memo[k] = norm(e)
        return self._memo[k]

    def attr(self, v, name):
        if v[0] == 'self':
            return ('comp', name)
        if v[0] == 'info':
            if name == 'name':
                return v[1]
            if name == 'imported':
                return ('imports', v[1])
            return ('of', v[1])
        if v[0] == 'oth':
            return OTH
        return UNK

    def ev_boolop_value(self, e, st):
        """value of `a and b` / `a or b` (Python semantics: the deciding operand)"""
        res = []
        pend = [(0, st)]
        while pend:
            i, s = pend.pop()
            for tag, v, s2 in self.ev(e.values[i], s):
                if tag == 'x':
                    res.append((tag, v, s2))
                    continue
                if i == len(e.values) - 1:
                    res.append(('v', v, s2))
                    continue
                for b, s3 in self.truth(v, s2):
                    if (isinstance(e.op, ast.And) and not b) or (isinstance(e.op, ast.Or) and b):
                        res.append(('v', v, s3))
                    else:
                        pend.append((i + 1, s3))
        return res

    def truth(self, v, st):
        """-> [(bool, state)]"""
        t = v[0]
        if t == 'cont':
            if ('in:' + v[1]) in st:
                return [(True, st)]
            return self.oth_truth(v[1], st)
        if t == 'opt':
            return self.opt_truth(v[1], st, v[2])
        if t == 'bool':
            return [(v[1], st)]
        if t == 'none':
            return [(False, st)]
        if t == 'const':
            return [(bool(v[1]), st)]
        if t in ('tup',):
            return [(len(v) > 1, st)]
        if t in ('trees', 'member', 'status', 'info', 'finfo', 'exc', 'k', 'comp', 'compitem', 'self', 'symtab', 'exccls'):
            return [(True, st)]
        s2 = dict(st)
        return [(True, st), (False, s2)]

    def oth_truth(self, name, st):
        key = 'oth:' + name
        if key in st:
            return [(st[key], st)]
        a, b = dict(st), dict(st)
        if name in self.tested:
            a[key], b[key] = True, False
        return [(True, a), (False, b)]

    def opt_truth(self, name, st, default):
        """truth of options.get(name[, default]): the caller passed a true value, a false value, or nothing ('A':
        the default decides)"""
        key = 'opt:' + name
        if key in st:
            if st[key] == 'A':
                return self.truth(default, st)
            return [(st[key], st)]
        out = []
        for v in (True, False, 'A'):
            s2 = dict(st)
            s2[key] = v
            out += self.opt_truth(name, s2, default)
        return out

    def cond(self, e, st):
        """-> [('v', bool, state) | ('x', cls, state)]"""
        if isinstance(e, ast.UnaryOp) and isinstance(e.op, ast.Not):
            return [(t, (not v) if t == 'v' else v, s) for t, v, s in self.cond(e.operand, st)]
        if isinstance(e, ast.BoolOp):
            res = []
            pend = [(0, st)]
            while pend:
                i, s = pend.pop()
                for tag, v, s2 in self.cond(e.values[i], s):
                    if tag == 'x':
                        res.append((tag, v, s2))
                    elif i == len(e.values) - 1:
                        res.append(('v', v, s2))
                    elif (isinstance(e.op, ast.And) and not v) or (isinstance(e.op, ast.Or) and v):
                        res.append(('v', v, s2))
                    else:
                        pend.append((i + 1, s2))
            return res
        if isinstance(e, ast.Compare) and len(e.ops) == 1:
            op = e.ops[0]
            res = []
            for tag, vals, s in self.ev_seq([e.left, e.comparators[0]], st):
                if tag == 'x':
                    res.append((tag, vals, s))
                    continue
                l, r = vals
                if isinstance(op, (ast.In, ast.NotIn)):
                    outs = self.member(l, r, s)
                    neg = isinstance(op, ast.NotIn)
                elif isinstance(op, (ast.Is, ast.IsNot, ast.Eq, ast.NotEq)):
                    outs = self.equal(l, r, s)
                    neg = isinstance(op, (ast.IsNot, ast.NotEq))
                else:
                    outs = [(True, s), (False, dict(s))]
                    neg = False
                for b, s2 in outs:
                    res.append(('v', (not b) if neg else b, s2))
            return res
        res = []
        for tag, v, s in self.ev(e, st):
            if tag == 'x':
                res.append((tag, v, s))
            else:
                for b, s2 in self.truth(v, s):
                    res.append(('v', b, s2))
        return res

    def member(self, l, r, st):
        k = self.key_of(l)
        if r[0] in ('cont', 'snap') and k is not None:
            if k == A:
                return [(('in:' + r[1]) in st, st)]
            return [(True, st), (False, dict(st))]
        if r[0] == 'args' and k is not None:
            if k == A:
                return [(st['req'], st)]
            if len(k) > 2:
                return [(bool(k[2]), st)]
        return [(True, st), (False, dict(st))]

    def equal(self, l, r, st):
        if l == NONE or r == NONE:
            o = r if l == NONE else l
            if o == NONE:
                return [(True, st)]
            if o[0] in ('unk', 'oth', 'opt', 'of'):
                return [(True, st), (False, dict(st))]
            return [(False, st)]
        kl, kr = self.key_of(l), self.key_of(r)
        if kl is not None and kr is not None:
            if kl == A and kr == A:
                return [(True, st)]
            if kl == A or kr == A:
                return [(False, st)]
        if l[0] == 'status' and r[0] == 'const':
            return [(l[1] == r[1], st)]
        return [(True, st), (False, dict(st))]

    def ev_subscript(self, e, st):
        out = []
        idx = e.slice
        for tag, vals, s in self.ev_seq([e.value, idx] if not isinstance(idx, ast.Slice) else [e.value], st):
            if tag == 'x':
                out.append((tag, vals, s))
                continue
            base = vals[0]
            if isinstance(idx, ast.Slice):
                out.append(('v', UNK, s))
                continue
            i = vals[1]
            if base[0] == 'cont':
                k = self.key_of(i)
                if k == A:
                    if ('in:' + base[1]) in s:
                        out.append(('v', s['in:' + base[1]], s))
                    else:
                        out.append(('x', 'KeyError', s))
                elif k is not None:
                    out.append(('v', OTH, s))
                else:
                    out.append(('v', UNK, s))
            elif base[0] == 'tup' and i[0] == 'const' and isinstance(i[1], int) and -len(base) < i[1] < len(base) - 1:
                out.append(('v', base[1:][i[1]], s))
            elif base[0] == 'oth':
                out.append(('v', OTH, s))
            else:
                out.append(('v', UNK, s))
        return out

    # -- calls ---------------------------------------------------------------------------------------------------------
    def ev_call(self, e, st):
        f = e.func
        anc = self.anc(f) if isinstance(f, (ast.Name, ast.Attribute)) else []
        if anc and anc[0] in self.ancestry:
            out = []
            for tag, vals, s in self.ev_seq(list(e.args) + [k.value for k in e.keywords], st):
                out.append((tag, vals, s) if tag == 'x' else ('v', ('exc',), s))
            return out
        # receiver.method(...)
        if isinstance(f, ast.Attribute):
            out = []
            for tag, recv, s in self.ev(f.value, st):
                if tag == 'x':
                    out.append((tag, recv, s))
                    continue
                out += self.call_method(e, recv, f.attr, s)
            return out
        args = list(e.args) + [k.value for k in e.keywords]
        name = f.id if isinstance(f, ast.Name) else None
        out = []
        for tag, vals, s in self.ev_seq(args, st):
            if tag == 'x':
                out.append((tag, vals, s))
                continue
            pos = vals[:len(e.args)]
            kw = dict((k.arg, v) for k, v in zip(e.keywords, vals[len(e.args):]))
            if name in ('tuple', 'list', 'sorted', 'set', 'frozenset', 'iter', 'reversed') and len(pos) == 1 and \
                    pos[0][0] in ('cont', 'snap'):
                out.append(('v', ('snap', pos[0][1]), s))
            elif name in ('len', 'bool') and len(pos) == 1 and pos[0][0] == 'cont':
                for b, s2 in self.truth(pos[0], s):
                    out.append(('v', ('bool', b), s2))
            elif name is not None and self.is_class(f, 'pysmi/mibinfo.py', 'MibInfo'):
                out.append(('v', ('info', tagk(kw.get('name', UNK)) if self.key_of(kw.get('name', UNK)) else UNK), s))
            elif name is not None and name in PURE_FUNCS:
                out.append(('v', UNK, s))
            else:
                for v in vals:
                    if v[0] == 'cont':
                        raise AnalysisError('container %s is passed to %s(): effects of the callee are not modelled'
                                            % (v[1], norm(f)))
                out.append(('v', UNK, s))
        return out

    def is_class(self, expr, rel, cname):
        ci = self.model.resolve_class(self.mod, expr)
        return ci is not None and ci.name == cname and ci.mod.rel == rel

    def call_method(self, e, recv, meth, st):
        args = list(e.args) + [k.value for k in e.keywords]
        out = []
        for tag, vals, s in self.ev_seq(args, st):
            if tag == 'x':
                out.append((tag, vals, s))
                continue
            pos = vals[:len(e.args)]
            kw = dict((k.arg, v) for k, v in zip(e.keywords, vals[len(e.args):]) if k.arg)
            if recv[0] == 'cont':
                out += self.container_method(e, recv[1], meth, pos, kw, s)
                continue
            if recv[0] == 'options' and meth == 'get' and pos and pos[0][0] == 'const':
                out.append(('v', ('opt', pos[0][1], pos[1] if len(pos) > 1 else NONE), s))
                continue
            if recv[0] == 'status' and meth == 'setOptions':
                tags = set()
                for v in kw.values():
                    tags |= keys_in(v)
                err = kw.get('error', NONE)[0] == 'exc'
                out.append(('v', ('status', recv[1], err, tuple(sorted(tags))), s))
                continue
            if recv[0] == 'exccls' or (isinstance(e.func, ast.Attribute) and False):
                out.append(('v', UNK, s))
                continue
            role = self.role_of_call(recv, meth)
            if role is not None:
                out += self.protocol(e, role, pos, kw, s)
                continue
            if self.nrm(e.func) == 'sys.exc_info':
                out.append(('v', ('tup', UNK, ('exc',), UNK), s))
                continue
            if recv[0] in ('comp', 'compitem') and meth in cr.PROTOCOL:
                raise AnalysisError('protocol call %s on a receiver whose role is unknown' % norm(e.func))
            if recv[0] == 'self':
                for v in vals:
                    if v[0] == 'cont':
                        raise AnalysisError('container %s is passed to %s(): effects of the callee are not modelled'
                                            % (v[1], norm(e.func)))
            out.append(('v', UNK, s))
        return out

    def forgetting(self, name, st):
        if name == self.failed:
            self.rep.check('failure-forgotten', 'remove@FAILED', bool(st.get('f:cure')),
                           'a recorded failure is dropped although the module has not just been read, analysed or '
                           'borrowed successfully', self.path, st)

    def container_method(self, e, name, meth, pos, kw, st):
        kind = self.cont[name]
        ikey, okey = 'in:' + name, 'oth:' + name
        k = self.key_of(pos[0]) if pos else None
        if meth in ('copy', 'keys'):
            return [('v', ('snap', name), st)]
        if meth in ('values', 'items'):
            return [('v', UNK, st)]
        if meth == 'get':
            if k == A:
                return [('v', st.get(ikey, pos[1] if len(pos) > 1 else NONE), st)]
            return [('v', OTH if k is not None else UNK, st)]
        if meth == 'add' and kind == 'set' or meth == 'append' and kind == 'list':
            if k == A:
                st[ikey] = ('member',)
                self.note_store(name, A, st)
            elif k is not None and name in self.tested:
                st[okey] = True
            elif k is None and kind == 'list':
                # unknown element appended to a tracked list: may be A
                s2 = dict(st)
                s2[ikey] = ('member',)
                return [('v', NONE, st), ('v', NONE, s2)]
            return [('v', NONE, st)]
        if meth == 'update' and kind == 'set' and len(pos) == 1 and pos[0][0] != 'cont':
            # a set grows by an iterable of names (imports or anything else): A may be among them
            s2 = dict(st)
            s2[ikey] = ('member',)
            st.pop(okey, None)
            s2.pop(okey, None)
            return [('v', NONE, st), ('v', NONE, s2)]
        if meth == 'extend' and kind == 'list':
            v = pos[0] if pos else UNK
            if v[0] == 'imports' and v[1] == A:
                st.pop('f:unq', None)
                st['f:queued'] = True
            # imports (or anything else) may or may not name A
            s2 = dict(st)
            s2[ikey] = ('member',)
            s2['~n'] = 'A is among the names queued'
            st.pop(okey, None)
            s2.pop(okey, None)
            return [('v', NONE, st), ('v', NONE, s2)]
        if meth == 'pop':
            if kind == 'list':
                # A list initialised from the requested names, popped at the front and grown at the end is a FIFO:
                # every requested name is taken before any name that only an import brought in.
                fifo = self.fifo.get(name, False)
                outs = []
                if ikey in st:
                    for still in (False, True):
                        s2 = dict(st)
                        if not still:
                            s2.pop(ikey)
                        if not s2.get('f:res'):
                            s2['f:unres'] = True
                        if fifo and not st['req']:
                            s2['f:imports-phase'] = True
                        s2['f:popped'] = True
                        s2.pop('f:cure', None)
                        s2['env:@popped'] = A
                        s2['~n'] = 'name taken from the work list: A'
                        outs.append(('v', A, s2))
                if st.get(okey) is not False:
                    for req in (False, True):
                        if fifo and req and st.get('f:imports-phase'):
                            continue      # requested names come first
                        if fifo and not req and st['req'] and not st.get('f:popped'):
                            continue      # A is requested and still waiting at the front
                        s2 = dict(st)
                        s2.pop(okey, None)
                        s2.pop('f:cure', None)
                        if fifo and not req:
                            s2['f:imports-phase'] = True
                        s2['env:@popped'] = ('k', 'O', req)
                        s2['~n'] = 'name taken from the work list: another %s name' % (
                            'requested' if req else 'imported')
                        outs.append(('v', ('k', 'O', req), s2))
                if not outs:
                    return [('x', 'IndexError', st)]
                return outs
            if k == A:
                if ikey in st:
                    self.forgetting(name, st)
                    v = st.pop(ikey)
                    return [('v', v, st)]
                if len(pos) > 1:
                    return [('v', pos[1], st)]
                return [('x', 'KeyError', st)]
            if k is not None:
                st.pop(okey, None)
                return [('v', OTH, st)]
            return [('v', UNK, st)]
        if meth in ('discard', 'remove'):
            if k == A:
                if ikey not in st and meth == 'remove':
                    return [('x', 'KeyError', st)]
                st.pop(ikey, None)
            elif k is not None:
                st.pop(okey, None)
            return [('v', NONE, st)]
        if meth == 'clear':
            st.pop(ikey, None)
            if name in self.tested:
                st[okey] = False
            return [('v', NONE, st)]
        if meth == 'setdefault' and kind == 'dict' and len(pos) == 2:
            if k == A:
                if ikey not in st:
                    st[ikey] = pos[1]
                    self.note_store(name, A, st)
                return [('v', st[ikey], st)]
            if k is not None and name in self.tested:
                st[okey] = True
            return [('v', OTH, st)]
        raise AnalysisError('container method %s.%s() is not modelled' % (name, meth))

    # -- protocol calls ------------------------------------------------------------------------------------------------
    def protocol(self, e, role, pos, kw, st):
        ln = getattr(e, 'lineno', '?')
        site = '%s@%s' % (role, self.nrm(e.func))
        outs = []
        k = self.key_of(pos[0]) if pos else None
        isA = k == A
        raises = self.site_alphabet(e, role)

        def fail(s, extra=None):
            res = []
            for cls in raises:
                s2 = dict(s)
                if extra:
                    extra(s2, cls)
                res.append(('x', cls, s2))
            return res

        if role == 'source':
            if isA:
                self.rep.check('fetch-once', site, not st.get('f:srcdone'),
                               'the sources are asked for the same name again after a complete pass over them',
                               self.path)
                st['f:srcasking'] = True
            outs += fail(st)
            s = dict(st)
            outs.append(('v', ('tup', ('finfo', 'src'), ('text', tagk(k) or UNK)), s))
            return outs
        if role == 'parser':
            outs += fail(st)
            src = pos[0][1] if pos and pos[0][0] == 'text' else UNK
            for empty in (False, True):
                s = dict(st)
                outs.append(('v', ('trees', src) if not empty else ('tup',), s))
            return outs
        if role == 'symgen':
            outs += fail(st)
            arg = e.args[0] if e.args else None
            choices = [A, ('k', 'O')]
            for kk in choices:
                s = dict(st)
                if isinstance(arg, ast.Name) and s.get('env:' + arg.id, UNK)[0] == 'tree':
                    s['env:' + arg.id] = ('tree', kk)
                s['~n'] = 'symbol-table pass yields module %s' % ('A' if kk == A else 'of another name')
                if kk == A or s.get('env:@popped') == A:
                    s['f:cure'] = True      # the name / module at hand has just been read and analysed successfully
                if kk == A:
                    s['f:infetch'] = True
                outs.append(('v', ('tup', ('info', kk), ('symtab', kk)), s))
            return outs
        if role == 'codegen':
            t = pos[0] if pos else UNK
            kk = t[1] if t[0] == 'tree' and t[1] is not None else (('k', 'O') if t[0] == 'oth' else None)
            if kk is None:
                raise AnalysisError('code generator called on a value that is not a parsed tree (line %s)' % ln)
            if kk == A:
                self.rep.check('fresh', site, not st.get('f:fresh'),
                               'code is generated for a module after a searcher reported it up to date', self.path, st)
                self.rep.check('nodeps', site, not (st.get('opt:noDeps') in (True, None) and not st.get('f:preq') and
                                                    not st['req']),
                               'under noDeps code is generated for a module that was neither requested nor produced '
                               'by fetching a requested name', self.path, st)
            outs += fail(st)
            s = dict(st)
            outs.append(('v', ('tup', ('info', kk), ('data', 'gen', kk)), s))
            return outs
        if role == 'searcher':
            def mark(s2, cls):
                if isA and self.fresh_cls in self.ancestry.get(cls, []):
                    s2['f:fresh'] = True
            outs += fail(st, mark)
            outs.append(('v', NONE, dict(st)))
            return outs
        if role == 'borrower':
            if isA:
                self.rep.check('borrow-failed-only', site, ('in:' + self.failed) in st,
                               'a borrower is asked for a module that is not in the FAILED map', self.path, st)
            outs += fail(st)
            s = dict(st)
            if isA:
                s['f:cure'] = True          # a borrower has just supplied this module
                s['f:borok'] = True
            outs.append(('v', ('tup', ('finfo', 'bor'), ('data', 'bor', tagk(k) or UNK)), s))
            return outs
        if role == 'writer':
            data = pos[1] if len(pos) > 1 else kw.get('data', UNK)
            self.rep.check('nowrite-switch', site, st.get('opt:writeMibs') in (True, 'A'),
                           'the writer is called although writeMibs is switched off (or was never consulted)', self.path, st)
            if not st.get('f:anyput'):
                failed_nonempty = ('in:' + self.failed) in st or st.get('oth:' + self.failed)
                if ('oth:' + self.failed) not in st and ('in:' + self.failed) not in st and self.failed in self.tested:
                    failed_nonempty = None      # never consulted: decided below
                self.rep.check('abort', site, not (failed_nonempty and st.get('opt:ignoreErrors') is not True),
                               'the writer is called while the FAILED map is non-empty and ignoreErrors is off',
                               self.path)
            st['f:anyput'] = True
            if isA:
                self.rep.check('once', site, not st.get('f:put'),
                               'the same module is handed to the writer a second time', self.path, st)
                built = None
                for name in self.cont:
                    v = st.get('in:' + name)
                    if v and v[0] == 'tup' and any(c[0] == 'data' for c in v[1:] if isinstance(c, tuple)):
                        built = [c for c in v[1:] if isinstance(c, tuple) and c[0] == 'data'][0]
                ok = data[0] == 'data' and data[2] == A and (built is None or built == data)
                self.rep.check('verbatim', site, ok,
                               'the text handed to the writer (%s) is not the text produced for this module (%s)' % (
                                   self.show(data), self.show(built)), self.path, st)
                st['f:put'] = True
                st['f:putsrc'] = data[1] if data[0] == 'data' else 'unknown'

                def wf(s2, cls):
                    s2['f:putfail'] = True
                outs += fail(st, wf)
                s = dict(st)
                s['f:putok'] = True
                outs.append(('v', NONE, s))
                return outs
            if data[0] == 'data' and data[2] == A:
                self.rep.check('verbatim', site, False, 'the text of one module is handed to the writer under the '
                               'name of another module', self.path, st)
            outs += fail(st)
            outs.append(('v', NONE, dict(st)))
            return outs
        if role == 'writer-read':
            outs += fail(st)
            outs.append(('v', UNK, dict(st)))
            return outs
        raise AnalysisError('unknown role %s' % role)

    def site_alphabet(self, call, role):
        """exception classes a component call may raise, merged when neither a handler around this call site nor the
        protocol (the searcher's not-modified answer) tells them apart"""
        k = ('alpha', id(call))
        if k in self._memo:
            return self._memo[k]
        from vt.cfg import enclosing_trys
        st = cr.stmt_of(call, self.fn)
        hts = []
        for t in enclosing_trys(st, self.fn):
            for h in t.handlers:
                hts.append(tuple(sorted(self.handler_names(h))))
        sig = {}
        for name, anc in self.ancestry.items():
            if 'PySmiError' not in anc:
                continue
            sg = tuple(any(t in anc for t in ht) for ht in hts) + ((self.fresh_cls in anc) if role == 'searcher'
                                                                  else False,)
            if not self.merge_classes:
                sg = name       # thorough tier: every class of pysmi/error.py is raised individually
            sig.setdefault(sg, []).append(name)
        out = sorted(min(v, key=lambda x: (len(self.ancestry[x]), x)) for v in sig.values())
        self._memo[k] = out
        return out

    def show(self, v):
        if v is None:
            return 'nothing'
        if v[0] == 'data':
            return '%s text of %s' % ({'gen': 'generated', 'bor': 'borrowed'}.get(v[1], v[1]),
                                      'this module' if v[2] == A else 'another module')
        if v[0] == 'oth':
            return 'a value stored under another module'
        return {'unk': 'an unknown value'}.get(v[0], v[0])

    # -- statements ----------------------------------------------------------------------------------------------------
    def note_store(self, name, key, st):
        if name in self.tested and key != A:
            st['oth:' + name] = True

    def store(self, node, name, keyv, val, st):
        """container[key] = val"""
        k = self.key_of(keyv)
        ln = getattr(node, 'lineno', '?')
        site = 'store@%s' % self.value_kind(val)   # named by what is stored, not by the local variable's name
        if k is None:
            if keyv[0] == 'oth':
                k = ('k', 'O')
            else:
                # unknown key: may be A
                raise AnalysisError('store into %s under a key the analysis cannot classify (line %s: %s)' % (
                    name, ln, norm(node)))
        tags = keys_in(val)
        mine = 'A' if k == A else 'O'
        wrong = [t for t in tags if t != mine]
        self.rep.check('own-key', site, not wrong,
                       'a value belonging to %s is filed in %s under the name of %s' % (
                           'another module' if mine == 'A' else 'this module', name,
                           'this module' if mine == 'A' else 'another module'), self.path, st)
        if k == A and name == self.result and val[0] == 'status' and val[1] == 'borrowed':
            have = any(isinstance(c, tuple) and c[0] == 'data' and c[1] == 'bor' and c[2] == A
                       for kk, v in st.items() if kk.startswith('in:') and isinstance(v, tuple) and v[0] == 'tup'
                       for c in v[1:])
            self.rep.check('borrow-status', site, have,
                           'a module is given the status borrowed although no borrowed text of it is at hand',
                           self.path, st)
        if k == A and name == self.failed and st.get('f:fetchok'):
            st['f:failedlater'] = True
        if k == A:
            old = st.get('in:' + name)
            if val[0] == 'tup' and any(isinstance(c, tuple) and c[0] == 'data' and c[1] == 'bor' for c in val[1:]) \
                    and old and old[0] == 'tup' and any(isinstance(c, tuple) and c[0] == 'data' and c[1] == 'gen'
                                                        for c in old[1:]):
                self.rep.check('borrow-failed-only', site, False,
                               'generated code of a module is replaced by a borrowed copy', self.path, st)
            st['in:' + name] = val
            if val[0] == 'tup' and any(isinstance(c, tuple) and c[0] == 'info' for c in val[1:]) and \
                    any(isinstance(c, tuple) and c[0] == 'tree' for c in val[1:]):
                st['f:parsed'] = True
                if not st.get('f:queued'):
                    st['f:unq'] = True
        else:
            self.note_store(name, k, st)

    def value_kind(self, v):
        if v[0] == 'status':
            return 'status'
        if v[0] == 'exc':
            return 'error'
        if v[0] == 'symtab':
            return 'symbol-table'
        if v[0] == 'tup':
            kinds = [c[0] for c in v[1:] if isinstance(c, tuple)]
            if 'data' in kinds:
                return 'module-text-record'
            if 'tree' in kinds:
                return 'parsed-record'
            return 'tuple'
        if v[0] == 'member':
            return 'name'
        return v[0]

    def exec_stmt(self, n, st):
        """-> [(label, state, note)]"""
        if isinstance(n, (ast.Pass, ast.Global, ast.Nonlocal, ast.Import, ast.ImportFrom, ast.FunctionDef,
                          ast.ClassDef, ast.Assert)):
            return [('n', st, None)]
        if isinstance(n, ast.Break):
            return [('brk', st, None)]
        if isinstance(n, ast.Continue):
            return [('cnt', st, None)]
        if isinstance(n, ast.Return):
            out = []
            for tag, v, s in (self.ev(n.value, st) if n.value is not None else [('v', NONE, st)]):
                if tag == 'x':
                    s['exc'] = v
                    out.append(('exc', s, 'raises %s' % v))
                else:
                    s['ret'] = v
                    out.append(('ret', s, 'return'))
            return out
        if isinstance(n, ast.Raise):
            if n.exc is None:
                st['exc'] = st.get('cur')
                return [('exc', st, 're-raise')]
            out = []
            for tag, v, s in self.ev(n.exc, st):
                if tag == 'x':
                    s['exc'] = v
                    out.append(('exc', s, 'raises %s' % v))
                    continue
                cls = None
                if v[0] == 'excobj':
                    cls = v[1]
                elif v[0] == 'exccls':
                    cls = v[1]
                elif v[0] == 'exc':
                    cls = s.get('cur') or 'PySmiError'
                elif isinstance(n.exc, ast.Call):
                    anc = self.model.exc_ancestors(self.mod, n.exc.func)
                    cls = anc[0] if anc else None
                if cls is None:
                    anc = self.model.exc_ancestors(self.mod, n.exc)
                    cls = anc[0] if anc else 'Exception'
                if cls not in self.ancestry:
                    self.ancestry[cls] = self.model.exc_ancestors(self.mod, n.exc.func if isinstance(
                        n.exc, ast.Call) else n.exc) or [cls, 'Exception']
                s['exc'] = cls
                out.append(('exc', s, 'raise %s' % cls))
            return out
        if isinstance(n, ast.Expr):
            out = []
            for tag, v, s in self.ev(n.value, st):
                if tag == 'x':
                    s['exc'] = v
                    out.append(('exc', s, '%s raises %s' % (self.callname(n.value), v)))
                else:
                    out.append(('n', s, self.note_for(n.value)))
            return out
        if isinstance(n, ast.Delete):
            res = [('n', st, None)]
            for t in n.targets:
                nxt = []
                for label, s, note in res:
                    if label != 'n':
                        nxt.append((label, s, note))
                        continue
                    if isinstance(t, ast.Subscript):
                        for tag, vals, s2 in self.ev_seq([t.value, t.slice], s):
                            if tag == 'x':
                                s2['exc'] = vals
                                nxt.append(('exc', s2, 'raises %s' % vals))
                                continue
                            base, kv = vals
                            if base[0] == 'cont':
                                k = self.key_of(kv)
                                if k == A:
                                    if ('in:' + base[1]) in s2:
                                        self.forgetting(base[1], s2)
                                        s2.pop('in:' + base[1])
                                        nxt.append(('n', s2, None))
                                    else:
                                        s2['exc'] = 'KeyError'
                                        nxt.append(('exc', s2, '`%s` raises KeyError' % norm(n)))
                                elif k is not None or kv[0] == 'oth':
                                    if s2.get('oth:' + base[1]):
                                        s3 = dict(s2)
                                        s3['oth:' + base[1]] = False
                                        nxt.append(('n', s3, None))
                                    nxt.append(('n', s2, None))
                                else:
                                    raise AnalysisError('`%s`: key cannot be classified' % norm(n))
                            else:
                                nxt.append(('n', s2, None))
                    elif isinstance(t, ast.Name):
                        if t.id in self.cont:
                            raise AnalysisError('container %s is deleted' % t.id)
                        s.pop('env:' + t.id, None)
                        nxt.append(('n', s, None))
                    else:
                        nxt.append(('n', s, None))
                res = nxt
            return res
        if isinstance(n, ast.Assign):
            if len(n.targets) == 1 and isinstance(n.targets[0], ast.Name) and n.targets[0].id in self.cont:
                lit = self._container_literal(n.value)
                if not lit:
                    raise AnalysisError('container %s is rebound to %s' % (n.targets[0].id, norm(n.value)))
                name = n.targets[0].id
                st.pop('in:' + name, None)
                if lit[1]:      # initialised from the requested names
                    if st['req']:
                        st['in:' + name] = ('member',)
                    st.pop('oth:' + name, None)
                elif name in self.tested:
                    st['oth:' + name] = False
                return [('n', st, None)]
            out = []
            for tag, v, s in self.ev(n.value, st):
                if tag == 'x':
                    s['exc'] = v
                    out.append(('exc', s, '%s raises %s' % (self.callname(n.value), v)))
                    continue
                res = [('n', s, self.note_for(n.value))]
                for t in n.targets:
                    nxt = []
                    for label, s1, note in res:
                        if label != 'n':
                            nxt.append((label, s1, note))
                            continue
                        if isinstance(t, ast.Subscript):
                            for tag2, vals, s2 in self.ev_seq([t.value, t.slice], s1):
                                if tag2 == 'x':
                                    s2['exc'] = vals
                                    nxt.append(('exc', s2, 'raises %s' % vals))
                                elif vals[0][0] == 'cont':
                                    self.store(n, vals[0][1], vals[1], v, s2)
                                    nxt.append(('n', s2, note))
                                else:
                                    nxt.append(('n', s2, note))
                        elif isinstance(t, ast.Attribute):
                            nxt.append(('n', s1, note))
                        else:
                            self.bind(t, v, s1)
                            self.after_bind(n, t, v, s1)
                            nxt.append(('n', s1, note))
                    res = nxt
                out += res
            return out
        if isinstance(n, ast.AugAssign):
            if isinstance(n.target, ast.Name) and n.target.id in self.cont:
                raise AnalysisError('augmented assignment to container %s' % n.target.id)
            out = []
            for tag, v, s in self.ev(n.value, st):
                if tag == 'x':
                    s['exc'] = v
                    out.append(('exc', s, 'raises %s' % v))
                else:
                    if isinstance(n.target, ast.Name):
                        s.pop('env:' + n.target.id, None)
                    out.append(('n', s, None))
            return out
        if isinstance(n, (ast.With, ast.AsyncWith)):
            return [('n', st, None)]
        raise AnalysisError('statement kind %s is not modelled (line %s)' % (type(n).__name__, n.lineno))

    def after_bind(self, n, target, v, st):
        """events attached to bindings: a successful symbol-table pass inside the fetch of a name"""
        if v[0] == 'tup' and len(v) == 3 and v[1][0] == 'info' and v[2][0] == 'symtab':
            # which name was being fetched: the key most recently popped from the work list
            popped = st.get('env:@popped')
            if popped == A:
                st.pop('f:unres', None)
                st['f:res'] = True
            if v[1][1] == A:
                req = st['req'] if popped == A else (bool(popped[2]) if popped and popped[0] == 'k' and
                                                     len(popped) > 2 else False)
                if req:
                    st['f:preq'] = True

    def callname(self, e):
        k = ('cn', id(e))
        if k not in self._memo:
            self._memo[k] = self._callname(e)
        return self._memo[k]

    def _callname(self, e):
        if isinstance(e, ast.Call):
            return norm(e.func)
        for c in ast.walk(e):
            if isinstance(c, ast.Call) and isinstance(c.func, ast.Attribute) and c.func.attr in cr.PROTOCOL:
                return norm(c.func)
        return norm(e)[:40]

    def note_for(self, e):
        k = ('note', id(e))
        if k not in self._memo:
            self._memo[k] = self._note_for(e)
        return self._memo[k]

    def _note_for(self, e):
        for c in ast.walk(e):
            if isinstance(c, ast.Call) and isinstance(c.func, ast.Attribute) and c.func.attr in cr.PROTOCOL:
                return '%s returns' % norm(c.func)
        return None

    def handler_names(self, h):
        k = ('hn', id(h))
        if k not in self._memo:
            self._memo[k] = cr.handler_type_names(self.model, self.mod, h)
        return self._memo[k]

    # -- return ------------------------------------------------------------------------------------------------------
    def at_return(self, node, st):
        ln = node.lineno
        site = 'return'
        ret = st.get('ret', NONE)
        P = self.path
        ok_ret = ret[0] == 'cont' and ret[1] == self.result
        self.rep.check('accounted', site + '/value', ok_ret, 'compile() returns something else than the result map', P, st)
        if not ok_ret:
            return
        status = st.get('in:' + self.result)
        word = status[1] if status and status[0] == 'status' else (None if status is None else '?')
        in_failed = ('in:' + self.failed) in st
        wm = st.get('opt:writeMibs') is not False
        ign = st.get('opt:ignoreErrors') is True
        nodeps = st.get('opt:noDeps') is True
        # accounted
        self.rep.check('accounted', site + '/popped', not (st.get('f:unres') and status is None),
                       'a name taken from the work list ends without a status', P, st)
        self.rep.check('accounted', site + '/parsed', not (st.get('f:parsed') and status is None),
                       'a module that was parsed ends without a status', P, st)
        self.rep.check('accounted', site + '/word', status is None or word in self.status_consts.values(),
                       'the value stored for a module is not one of the status constants', P, st)
        # statuses match effects
        if word in ('compiled', 'borrowed'):
            self.rep.check('status-effect', site + '/' + word, bool(st.get('f:putok')) or not wm,
                           'a module is reported %s although its text was not handed to the writer successfully'
                           % word, P, st)
            if st.get('f:putok'):
                want = {'gen': 'compiled', 'bor': 'borrowed'}.get(st.get('f:putsrc'))
                self.rep.check('status-effect', site + '/origin', want == word,
                               'a module whose %s text was written is reported %s' % (
                                   {'gen': 'generated', 'bor': 'borrowed'}.get(st.get('f:putsrc'), '?'), word), P, st)
        if st.get('f:putok'):
            self.rep.check('status-effect', site + '/written', word in ('compiled', 'borrowed'),
                           'a module whose text the writer accepted is reported %s' % word, P, st)
        if st.get('f:putfail'):
            self.rep.check('status-effect', site + '/writer-error', word == 'failed' and in_failed and
                           bool(status[2]), 'a module whose hand-over to the writer failed is reported %s%s' % (
                               word, '' if in_failed else ' and is not in the FAILED map'), P, st)
        # FAILED <-> status
        self.rep.check('failed-pairing', site + '/in-failed', not in_failed or word in ('failed', 'missing'),
                       'a module in the FAILED map is reported %s' % word, P, st)
        self.rep.check('failed-pairing', site + '/status', word not in ('failed', 'missing') or in_failed,
                       'a module reported %s is not in the FAILED map' % word, P, st)
        if st.get('f:nosource') and not st.get('f:parsed') and not st.get('f:borok'):
            self.rep.check('missing-reported', site, word in ('missing', 'failed') and in_failed,
                           'a name that no source delivered (and no borrower supplied) is reported %s%s' % (
                               word, '' if in_failed else ' and is not in the FAILED map'), P, st)
        self.rep.check('stale-failure', site, not (in_failed and st.get('f:fetchok') and not st.get('f:failedlater')),
                       'a name that a source delivered in the end is still in the FAILED map because of an earlier '
                       'source\'s error', P, st)
        if word == 'failed':
            self.rep.check('failed-pairing', site + '/error', bool(status[2]),
                           'a failed status does not carry the error', P, st)
        # abort
        built_left = any(('in:' + w) in st for w in self.r.work)
        if word == 'unprocessed':
            self.rep.check('abort', site + '/unprocessed', built_left and not st.get('f:put') and not ign,
                           'a module is reported unprocessed although %s' % (
                               'it was handed to the writer' if st.get('f:put') else
                               'errors are ignored' if ign else 'it is not waiting to be written'),
                           P)
        if not st.get('f:anyput') and wm:
            for w in self.r.work:
                v = st.get('in:' + w)
                if v and v[0] == 'tup' and any(isinstance(c, tuple) and c[0] == 'data' for c in v[1:]):
                    self.rep.check('abort', site + '/built-reported', word == 'unprocessed',
                                   'compile() returns without writing and a built module is reported %s' % word, P, st)
        # closure
        self.rep.check('closure', site, not st.get('f:unq'),
                       'the imports of a parsed module were never queued on the work list', P, st)
        # freshness
        if st.get('f:fresh') and not in_failed:
            self.rep.check('fresh', site + '/status', word == 'untouched',
                           'a module reported up to date by a searcher ends %s' % word, P, st)
        if word == 'untouched':
            self.rep.check('fresh', site + '/reason', bool(st.get('f:fresh')) or
                           (nodeps and not st.get('f:preq') and not st['req']),
                           'a module is reported untouched although no searcher reported it up to date and it is '
                           'not excluded by noDeps', P, st)
        if nodeps and word == 'untouched' and not st.get('f:fresh'):
            self.rep.check('nodeps', site + '/excluded', not st.get('f:preq') and not st['req'],
                           'under noDeps a module that was requested (or produced by fetching a requested name) is '
                           'excluded', P, st)
        # borrowing
        if st.get('f:borok'):
            self.rep.check('borrow-status', site + '/supplied', word in ('borrowed', 'failed', 'unprocessed') or
                           (word == 'untouched' and bool(st.get('f:fresh'))),
                           'a borrower supplied this module (so it no longer counts as failed) but it ends %s: the '
                           'borrowed text is dropped and nothing stands in for the module' % word, P, st)
        if word == 'borrowed':
            self.rep.check('borrow-status', site, not in_failed,
                           'a module is reported borrowed although it is still in the FAILED map', P, st)
        self.rep.check('escape', 'compile', True, '', P, st)
        if in_failed and not (nodeps and not st['req']):
            self.rep.check('borrow-eligible', site, not st.get('f:borskip'),
                           'a failed module (explicitly requested, or noDeps off) was passed over without trying the borrowers '
                           '(noDeps=%s)' % nodeps, P, st)


def _digest(model):
    """digest of everything the analysis consults: the repository's Python sources and the analyser's own code"""
    import hashlib
    import os
    h = hashlib.sha256()
    for rel in sorted(model.modules):
        if rel.startswith('pysmi/') and rel.count('/') <= 1 or rel in (COMPILER, 'pysmi/error.py', 'pysmi/mibinfo.py'):
            h.update(rel.encode())
            with open(os.path.join(model.repo, rel), 'rb') as f:
                h.update(f.read())
    here = os.path.dirname(os.path.dirname(os.path.abspath(__file__)))
    for sub in ('rules', 'vt'):
        for fn in sorted(os.listdir(os.path.join(here, sub))):
            if fn.endswith('.py'):
                with open(os.path.join(here, sub, fn), 'rb') as f:
                    h.update(fn.encode())
                    h.update(f.read())
    return h.hexdigest()[:24]


def analyse(model, thorough=False):
    """-> Report; memoised per source model and, across the processes of one run of all checks, in
    /verif/.cache keyed by the digest of all consulted files (so the seven properties that share this analysis pay
    for it once; any change to compiler.py, error.py, mibinfo.py or to the analyser recomputes it)"""
    import json
    import os
    slot = '_compile_ts_thorough' if thorough else '_compile_ts'
    cached = model.__dict__.get(slot)
    if cached is not None:
        return cached
    here = os.path.dirname(os.path.dirname(os.path.abspath(__file__)))
    path = None
    if not os.environ.get('VERIF_NO_CACHE'):
        try:
            path = os.path.join(here, '.cache', 'compile_ts-%s%s.json' % (_digest(model), '-t' if thorough else ''))
            if os.path.exists(path):
                with open(path) as f:
                    d = json.load(f)
                rep = Report()
                rep.states, rep.configs = d['states'], d['configs']
                rep.checked = dict(((a, b), c) for a, b, c in d['checked'])
                rep.viol = dict(((a, b), (m, p)) for a, b, m, p in d['viol'])
                rep.from_cache = True
                model.__dict__[slot] = rep
                return rep
        except Exception:
            path = None
    it = Interp(model, merge_classes=not thorough)
    rep = it.explore()
    rep.from_cache = False
    model.__dict__[slot] = rep
    if path:
        try:
            os.makedirs(os.path.dirname(path), exist_ok=True)
            tmp = '%s.%d.tmp' % (path, os.getpid())
            with open(tmp, 'w') as f:
                json.dump({'states': rep.states, 'configs': rep.configs,
                           'checked': [[a, b, c] for (a, b), c in rep.checked.items()],
                           'viol': [[a, b, m, p] for (a, b), (m, p) in rep.viol.items()]}, f)
            os.replace(tmp, path)
            # keep the cache directory small
            d = os.path.dirname(path)
            old = sorted((os.path.getmtime(os.path.join(d, x)), x) for x in os.listdir(d) if x.startswith('compile_ts-'))
            for _, x in old[:-8]:
                os.unlink(os.path.join(d, x))
        except Exception:
            pass
    return rep


def ts_rule(chk, rule, invs):
    """report the given invariants as obligations of `rule`"""
    rep = analyse(chk.model, thorough=(chk.tier == 'thorough'))
    chk.unit('pysmi/compiler.py:MibCompiler.compile [typestate: %d abstract states, %d start configurations%s]' % (
        rep.states, rep.configs, '; every error class raised individually' if chk.tier == 'thorough' else
        '; error classes no handler tells apart merged'))
    if getattr(rep, 'from_cache', False):
        chk.note('typestate result reused from /verif/.cache (keyed by the digest of every consulted file of the '
                 'repository and of the analyser; computed earlier in this run of the checks)')
    chk.doc(rule, 'typestate analysis of compile() over all outcomes of all component calls, for an arbitrary module: '
            + '; '.join('(%s) %s' % (i, INV[i]) for i in invs))
    n = 0
    for inv in invs:
        if not any(i == inv for (i, _) in rep.checked):
            raise AnalysisError('typestate invariant %r was never evaluated: the event it speaks about does not occur '
                                'on any abstract path of compile()' % inv)
    for (inv, site), cnt in sorted(rep.checked.items()):
        if inv not in invs:
            continue
        n += 1
        v = rep.viol.get((inv, site))
        if v is None:
            chk.ob(rule, 'compile/ts:%s:%s' % (inv, site), True, COMPILER,
                   'holds in all %d abstract states reaching it' % cnt)
        else:
            chk.ob(rule, 'compile/ts:%s:%s' % (inv, site), False, COMPILER,
                   '%s. Abstract path: %s' % (v[0], ' | '.join(v[1])))
    return n
