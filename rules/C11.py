"""C11 - malformed input is rejected with a located package error, never accepted."""
import ast
import re

from vt import rx
from vt.cfg import CFG, enclosing_trys
from vt.grammar import lexer_tables, shipped_dialects, Dialect
from rules.C17 import dialect_list
from vt.model import walk_no_nested, norm, dotted_name, class_attr_value
from vt.runner import where, AnalysisError
from rules import common
from rules import compile_roles as cr
from rules.C07 import _key_is

EXPLANATION = (
    "Rules on the lexer and parser error mechanism: every raise in lexer/parser rule functions is a package lexer/"
    "parser error carrying lineno= of the offending token (the lexer's current line only where no token exists); "
    "per lexer state, the characters matched unconditionally by some rule, the literals and the ignore set cover the "
    "alphabet, or the state has an error rule all of whose paths raise a package error (so ply never raises its own "
    "LexError); no rule regex is nullable; token types assigned in rule bodies are declared tokens in every dialect; "
    "every rule whose regex can consume CR or LF adds exactly the number of line breaks consumed to lineno; numeric "
    "conversion of unbounded digit strings is guarded; p_error raises a located package error on every path "
    "including end of input; parse() returns [] only for an empty mibFile node and resets the lexer on all exits.")
ASSUMPTIONS = [
    "that *every* malformed text is rejected is a language-complement question and is not decided; the four "
    "mechanisms above are",
    "ply calls t_error / p_error as documented and assigns token.lineno before calling a rule function",
]
TECHNIQUE = 'regex structure analysis per lexer state (re._parser), CFG all-paths-raise, AST rules on raise sites; mandatory-clause derivability on the LALR grammar of every dialect; nested-repeat (ReDoS) analysis through branches; ignore sets vs line counting'

LEXER = 'pysmi/lexer/smi.py'
PARSER = 'pysmi/parser/smi.py'


def lexer_model(chk):
    m = chk.model.__dict__.get('_lexer_model')
    if m is None:
        ci = chk.model.cls(LEXER, 'SmiV2Lexer')
        # reflags from the lex.lex(...) call in reset()
        owner, rs = ci.find_method('reset')
        flags = 0
        for c in ast.walk(rs) if rs else []:
            if isinstance(c, ast.Call) and dotted_name(c.func) == 'lex.lex':
                for k in c.keywords:
                    if k.arg == 'reflags':
                        for n in ast.walk(k.value):
                            if isinstance(n, ast.Attribute) and isinstance(n.value, ast.Name) and n.value.id == 're':
                                flags |= getattr(re, n.attr)
        m = rx.LexerModel(ci, chk.model, None, reflags=flags)
        chk.model.__dict__['_lexer_model'] = m
    return m


def r1_located_package_errors(chk):
    model = chk.model
    chk.unit(LEXER, PARSER)
    chk.doc('C11.R1', 'every raise in a t_* / p_* function is PySmiLexerError / PySmiParserError (or subclass) with '
                      'lineno= taken from the offending token (t.lineno / p.lineno); the lexer\'s current lineno is '
                      'accepted only where no token exists (end of input)')
    n = 0
    for rel, cname in ((LEXER, 'SmiV2Lexer'), (PARSER, 'SmiV2Parser')):
        ci = model.cls(rel, cname)
        mod = ci.mod
        classes = [c for c in mod.classes()]
        for c in classes:
            for fn in [x for x in c.body if isinstance(x, ast.FunctionDef)]:
                if not (fn.name.startswith('t_') or fn.name.startswith('p_')):
                    continue
                tokparam = fn.args.args[-1].arg
                for x in walk_no_nested(fn):
                    if not isinstance(x, ast.Raise):
                        continue
                    n += 1
                    key = '%s.%s/raise#%d' % (c.name, fn.name, len([y for y in walk_no_nested(fn)
                                                                       if isinstance(y, ast.Raise) and
                                                                       y.lineno <= x.lineno]))
                    exc = x.exc.func if isinstance(x.exc, ast.Call) else x.exc
                    anc = model.exc_ancestors(mod, exc) if exc is not None else []
                    ok_cls = 'PySmiLexerError' in anc
                    kw = [k for k in x.exc.keywords if k.arg == 'lineno'] if isinstance(x.exc, ast.Call) else []
                    if not ok_cls or len(kw) != 1:
                        chk.ob('C11.R1', key, False, where(mod, x),
                               'must raise a package lexer/parser error with lineno= (got %s)' % norm(x)[:70])
                        continue
                    src = norm(kw[0].value)
                    from_token = src == '%s.lineno' % tokparam
                    from_lexer = src in ('self.lexer.lexer.lineno', '%s.lexer.lineno' % tokparam, 'self.lexer.lineno')
                    ok = from_token
                    detail = ''
                    if not ok and from_lexer:
                        # only where the token parameter is known to be absent: not reachable through the true edge
                        # of a test of the token parameter
                        cfg = CFG(fn)
                        xn = cfg.node_of(x)
                        tests = [t for t in cfg.nodes if t.kind == 'test' and _key_is(t.expr, tokparam)]
                        reach_true = set()
                        for t in tests:
                            reach_true |= cfg.reach([m_ for m_, l in t.succ if l == 'T'], skip_labels=('exc',))
                        ok = bool(tests) and xn not in reach_true
                        detail = 'error for an existing token is located at the lexer\'s current line (after ' \
                                 'multi-line tokens that is past the offending token) instead of %s.lineno' % tokparam
                    elif not ok:
                        detail = 'lineno=%s is not the offending token\'s line' % src
                    chk.ob('C11.R1', key, ok, where(mod, x), detail)
    chk.floor('C11.R1', 6, 'raise sites in lexer and parser rule functions')
    # PySmiLexerError / ParserError render the line
    eci = model.cls('pysmi/error.py', 'PySmiLexerError')
    o, s = eci.find_method('__str__')
    ok = s is not None and 'self.lineno' in norm(s)
    chk.ob('C11.R1', 'PySmiLexerError.__str__', ok, 'pysmi/error.py', 'message must carry the line number')
    pci = model.cls('pysmi/error.py', 'PySmiParserError')
    chk.ob('C11.R1', 'PySmiParserError<:PySmiLexerError<:PySmiError',
           [c.name for c in pci.mro()][:3] == ['PySmiParserError', 'PySmiLexerError', 'PySmiError'], 'pysmi/error.py',
           'hierarchy: %s' % [c.name for c in pci.mro()])


def all_paths_raise_package_error(model, mod, fn):
    cfg = CFG(fn)
    rs = [n for n in cfg.nodes if n.kind == 'stmt' and isinstance(n.ast, ast.Raise)]
    good = set()
    for n in rs:
        exc = n.ast.exc.func if isinstance(n.ast.exc, ast.Call) else n.ast.exc
        if exc is not None and 'PySmiError' in model.exc_ancestors(mod, exc):
            good.add(n)
    reach = cfg.reach([cfg.entry], avoid=good, skip_labels=('exc',))
    return cfg.exit not in reach and bool(good), cfg


def r2_state_totality(chk):
    model = chk.model
    lm = lexer_model(chk)
    chk.doc('C11.R2', 'for every lexer state: each character is in the ignore set, a literal, matched '
                      'unconditionally by some rule - or the state has an error rule whose every path raises a '
                      'package error')
    mod = model.mod(LEXER)
    for s in sorted(lm.states):
        covered = set(lm.ignore[s]) | set(lm.literals)
        for r in lm.rules[s]:
            covered |= rx.uncond_first(r, lm.flags)
        missing = [c for c in rx.ALPHABET if c not in covered]
        ef = lm.errorf[s]
        ef_ok = False
        if ef is not None:
            ef_ok, _ = all_paths_raise_package_error(model, mod, ef)
        ok = not missing or ef_ok
        detail = ''
        if not ok:
            detail = 'state %r can meet %d character(s) no rule matches unconditionally (e.g. %r) and has %s: ply ' \
                     'raises its own LexError' % (s, len(missing), ''.join(missing[:6]),
                                                  'no error rule' if ef is None else 'an error rule that can return')
        chk.ob('C11.R2', 'lexer-state %s' % s, ok, where(mod, ef) if ef is not None else LEXER, detail)
    chk.floor('C11.R2', 5, 'INITIAL + four exclusive states')
    # an error rule must not skip (lexer.skip) silently
    for s, ef in sorted(lm.errorf.items()):
        if ef is None:
            continue
        skips = [c for c in walk_no_nested(ef) if isinstance(c, ast.Call) and isinstance(c.func, ast.Attribute) and
                 c.func.attr == 'skip']
        chk.ob('C11.R2', 'lexer-state %s/error-rule-does-not-skip' % s, not skips, where(mod, ef),
               'illegal characters are skipped instead of rejected')


def r3_progress_and_token_types(chk):
    model = chk.model
    lm = lexer_model(chk)
    mod = model.mod(LEXER)
    chk.doc('C11.R3', 'no rule regex matches the empty string; every token type a rule can return (function name, '
                      't.type assignments, values of the reserved table) is a declared token in every dialect')
    for s in sorted(lm.states):
        for r in lm.rules[s]:
            if s != 'INITIAL' and s not in r.states:
                continue
            chk.ob('C11.R3', 'rule %s/not-nullable' % r.name, not rx.nullable(r.parsed(lm.flags)),
                   where(mod, r.fn) if r.fn is not None else LEXER, 'regex %r matches the empty string' % r.pattern)
    for dname, opts in dialect_list(chk):
        reserved, forbidden, tokens = lexer_tables(model, opts)
        toks = set(tokens)
        bad = sorted(set(v for v in reserved.values() if v not in toks))
        chk.ob('C11.R3', 'dialect %s/reserved-types-declared' % dname, not bad, LEXER,
               'reserved words map to undeclared token types %s' % bad)
        for s in lm.states:
            for r in lm.rules[s]:
                if r.fn is None:
                    ok = r.tokname in toks
                    chk.ob('C11.R3', 'dialect %s/%s-type' % (dname, r.name), ok, LEXER, 'undeclared token %s' % r.tokname)
                    continue
                returns = [x for x in walk_no_nested(r.fn) if isinstance(x, ast.Return) and x.value is not None]
                if returns and not any(isinstance(x, ast.Assign) and norm(x.targets[0]).endswith('.type')
                                       for x in walk_no_nested(r.fn)):
                    chk.ob('C11.R3', 'dialect %s/%s-type' % (dname, r.name), r.tokname in toks, where(mod, r.fn),
                           'rule returns undeclared token type %s' % r.tokname)
                for x in walk_no_nested(r.fn):
                    if isinstance(x, ast.Assign) and norm(x.targets[0]).endswith('.type') and \
                            isinstance(x.value, ast.Constant):
                        chk.ob('C11.R3', 'dialect %s/%s-type=%s' % (dname, r.name, x.value.value),
                               x.value.value in toks, where(mod, x), 'assigned token type is not declared')
    chk.floor('C11.R3', 30, 'rules x dialects')


LB_RX = (r'\r\n|\n|\r', r'\r\n|\r|\n', r'(\r\n|\n|\r)', r'\r\n?|\n', r'\n|\r\n?')


def r4_line_accounting(chk):
    model = chk.model
    lm = lexer_model(chk)
    mod = model.mod(LEXER)
    chk.doc('C11.R4', 'a rule whose regex can consume CR or LF updates lineno by the number of line breaks in the '
                      'match: `+= 1` only if every match is exactly one line break (CRLF, LF or CR), otherwise '
                      '`+= len(re.findall(<CRLF|LF|CR>, t.value))`; no ignore set holds CR or LF (ply skips ignored characters before '
                      'any rule sees them)')
    probes = ['\r\n', '\n', '\r', '\n\n', '\r\r', '\n\r', '\r\n\n', 'a', ' ', '', 'a\n', '\na', '\r\n\r\n']
    done = set()
    n = 0
    # characters in an ignore set are skipped before any rule is tried: a line break there is never counted
    for s in sorted(lm.states):
        lb = sorted(set(lm.ignore.get(s) or '') & set('\r\n'))
        chk.ob('C11.R4', 'state %s/no-line-break-ignored' % s, not lb, LEXER,
               'the ignore set of state %s holds %r: ply skips ignored characters before trying any rule, so these '
               'line breaks never reach the rule that counts them and every later line number is too small' % (s, ''.join(lb)))
    for s in sorted(lm.states):
        for r in lm.rules[s]:
            if r.name in done:
                continue
            done.add(r.name)
            p = r.parsed(lm.flags)
            eats = rx.can_consume(p, '\n', lm.flags) or rx.can_consume(p, '\r', lm.flags)
            if not eats:
                continue
            n += 1
            key = 'rule %s' % r.name
            if r.fn is None:
                chk.ob('C11.R4', key, False, LEXER, 'string rule %r can consume line breaks but cannot count them'
                       % r.pattern)
                continue
            single = rx.language_subset_of(r.pattern, lm.flags, LINEBREAKS, probes)
            incs = []
            for x in walk_no_nested(r.fn):
                if isinstance(x, ast.AugAssign) and isinstance(x.op, ast.Add) and norm(x.target).endswith('lexer.lineno'):
                    incs.append(x)
            cfg = CFG(r.fn)
            inc_nodes = set(cfg.node_of(x) for x in incs)
            on_all_paths = bool(incs) and cfg.exit not in cfg.reach([cfg.entry], avoid=inc_nodes, skip_labels=('exc',))
            ok, detail = False, ''
            if not incs:
                detail = 'regex %r can consume line breaks but the rule never updates lineno: later errors are ' \
                         'reported on the wrong line' % r.pattern
            elif len(incs) > 1 or not on_all_paths:
                detail = 'lineno update is not executed exactly once on every path'
            else:
                v = incs[0].value
                if isinstance(v, ast.Constant) and v.value == 1:
                    ok = single
                    detail = '' if ok else 'lineno += 1 but a match of %r can hold several (or no) line breaks' % r.pattern
                elif isinstance(v, ast.Call) and dotted_name(v.func) == 'len' and v.args and \
                        isinstance(v.args[0], ast.Call) and dotted_name(v.args[0].func) == 're.findall':
                    fa = v.args[0]
                    pat = fa.args[0].value if fa.args and isinstance(fa.args[0], ast.Constant) else None
                    tokparam = r.fn.args.args[-1].arg
                    ok = pat in LB_RX and len(fa.args) == 2 and norm(fa.args[1]) == '%s.value' % tokparam
                    detail = '' if ok else 'line breaks are counted with %r over %s (CRLF, LF and CR must each ' \
                                           'count once, over the whole match)' % (pat, norm(fa.args[1]) if len(fa.args) > 1 else '?')
                else:
                    detail = 'unrecognised line counting idiom: %s' % norm(incs[0])
            chk.ob('C11.R4', key, ok, where(mod, r.fn), detail)
    chk.floor('C11.R4', 9, '5 line-break rules, 3 body rules, quoted string')
    # sibling agreement: the line-break rules of all states share one regex
    pats = set(r.pattern for s in lm.states for r in lm.rules[s] if r.tokname.endswith('newline'))
    chk.ob('C11.R4', 'newline-rules-agree', len(pats) == 1, LEXER, 'line-break rules differ: %s' % sorted(pats))


LINEBREAKS = ('\r\n', '\n', '\r')


def r5_p_error(chk):
    model = chk.model
    owner, fn = model.method(PARSER, 'SmiV2Parser', 'p_error')
    chk.doc('C11.R5', 'SmiV2Parser.p_error raises a package parser error on every path, also when the token is '
                      'None (end of input); no relaxation class overrides it')
    ok, cfg = all_paths_raise_package_error(model, owner.mod, fn)
    chk.ob('C11.R5', 'SmiV2Parser.p_error/all-paths-raise', ok, where(owner.mod, fn),
           'p_error can return without raising: at end of input a truncated file parses to an empty result')
    # recovery calls are not allowed
    rec = [c for c in walk_no_nested(fn) if isinstance(c, ast.Call) and isinstance(c.func, ast.Attribute) and
           c.func.attr in ('errok', 'restart', 'token')]
    chk.ob('C11.R5', 'SmiV2Parser.p_error/no-recovery', not rec, where(owner.mod, fn), 'error recovery resumes parsing')
    # the token handed to p_error carries a value of token-dependent type (text, or int for numbers): the message may
    # only use it through operations defined for every type
    tokp = fn.args.args[-1].arg
    parents = {}
    for n_ in ast.walk(fn):
        for c_ in ast.iter_child_nodes(n_):
            parents[c_] = n_
    uses = 0
    for a in ast.walk(fn):
        if isinstance(a, ast.Attribute) and isinstance(a.value, ast.Name) and a.value.id == tokp and a.attr == 'value':
            uses += 1
            par = parents.get(a)
            if isinstance(par, ast.Tuple):
                par2 = parents.get(par)
                ok_use = isinstance(par2, ast.BinOp) and isinstance(par2.op, ast.Mod) and par2.right is par
            elif isinstance(par, ast.BinOp) and isinstance(par.op, ast.Mod):
                ok_use = par.right is a
            elif isinstance(par, ast.Call):
                ok_use = dotted_name(par.func) in ('str', 'repr') and a in par.args
            elif isinstance(par, ast.keyword):
                ok_use = True
            elif isinstance(par, ast.FormattedValue):
                ok_use = True
            else:
                ok_use = False
            chk.ob('C11.R5', 'SmiV2Parser.p_error/token-value-use@%s' % type(par).__name__, ok_use, where(owner.mod, a),
                   'the value of the offending token is a number for NUMBER tokens and text otherwise; `%s` is not '
                   'defined for both, so reporting the syntax error raises a foreign exception' % norm(par)[:60])
    # grammar has no `error` token productions in any dialect
    for dname, opts in dialect_list(chk):
        d = Dialect(model, opts)
        bad = [p for p in d.prods if 'error' in p.rhs]
        chk.ob('C11.R5', 'dialect %s/no-error-productions' % dname, not bad, PARSER, '%s' % bad[:2])


def r6_parse_result(chk):
    model = chk.model
    owner, fn = model.method(PARSER, 'SmiV2Parser', 'parse')
    mod = owner.mod
    chk.doc('C11.R6', 'parse() returns the module list of the mibFile node; [] only when that node is empty; it '
                      'contains no handler that turns an exception into a result; the lexer is reset on all exits')
    rets = [x for x in walk_no_nested(fn) if isinstance(x, ast.Return)]
    empties = [x for x in rets if isinstance(x.value, (ast.List, ast.Tuple)) and not x.value.elts]
    for i, x in enumerate(empties):
        # must be in the else-branch of a test on the tree variable
        p = getattr(x, '_parent', None)
        ok = isinstance(p, ast.If) and x in p.orelse and 'mibFile' in norm(p.test)
        chk.ob('C11.R6', 'SmiV2Parser.parse/empty-result#%d' % (i + 1), ok, where(mod, x),
               'an empty result must only stand for an empty mibFile node')
    handlers = [h for h in walk_no_nested(fn) if isinstance(h, ast.ExceptHandler)]
    for h in handlers:
        swallow = not any(isinstance(x, ast.Raise) for x in walk_no_nested(h)) or \
            not isinstance(h.body[-1], ast.Raise)
        chk.ob('C11.R6', 'SmiV2Parser.parse/handler(%s)' % (norm(h.type) if h.type else 'bare'), not swallow,
               where(mod, h), 'parse() turns an exception into a normal return')
    chk.ob('C11.R6', 'SmiV2Parser.parse/returns', len(rets) >= 1 and len(rets) - len(empties) >= 1, where(mod, fn), '')
    from rules.C12 import r1_parser_reset
    r1_parser_reset(chk, rule='C11.R6')


def r7_numeric_conversion(chk):
    model = chk.model
    lm = lexer_model(chk)
    mod = model.mod(LEXER)
    chk.doc('C11.R7', 'int() applied to token text whose regex admits unboundedly many digits is guarded by a '
                      'handler for ValueError that raises a package error (CPython >= 3.11 limits int(str) to 4300 '
                      'digits), or the regex bounds the length')
    n = 0
    for s in sorted(lm.states):
        for r in lm.rules[s]:
            if r.fn is None:
                continue
            tokparam = r.fn.args.args[-1].arg
            for c in walk_no_nested(r.fn):
                if isinstance(c, ast.Call) and dotted_name(c.func) == 'int' and c.args and \
                        norm(c.args[0]).startswith('%s.value' % tokparam) and len(c.args) == 1:
                    n += 1
                    lo, hi = r.parsed(lm.flags).getwidth()
                    bounded = hi <= 4300
                    guarded = False
                    for t in enclosing_trys(common.stmt_of(c), r.fn):
                        for h in t.handlers:
                            names = cr.handler_type_names(model, mod, h)
                            if any(x in ('ValueError', 'Exception', 'BaseException') for x in names):
                                rs = [x for x in walk_no_nested(h) if isinstance(x, ast.Raise) and x.exc is not None]
                                guarded = any('PySmiError' in model.exc_ancestors(
                                    mod, x.exc.func if isinstance(x.exc, ast.Call) else x.exc) for x in rs)
                    chk.ob('C11.R7', 'rule %s/int(%s)' % (r.name, norm(c.args[0])), bounded or guarded, where(mod, c),
                           'a number with more than 4300 digits makes int() raise ValueError, which escapes as a '
                           'foreign exception')
    chk.floor('C11.R7', 1, 't_NUMBER')


def r9_number_classifier(chk):
    """numbers beyond 64 bits are rejected with a located lexer error, whatever their sign (C05.R1 under this property)"""
    from rules.C05 import r1_number_classifier
    r1_number_classifier(chk, rule='C11.R9')


def r8_actions_cannot_raise_typeerror(chk):
    from rules.C02 import r2b_operand_shapes
    r2b_operand_shapes(chk, rule='C11.R8')


def ir_guards(node, fn):
    from rules import ir
    return ir.guards_of(node, fn)


def r10_token_rules_return_the_token(chk):
    """a lexer rule named after a declared token hands that token to the parser on every path that does not raise; the
    other rule functions (comment, newline, macro/exports/choice bodies) consume silently"""
    from vt import defuse
    model = chk.model
    lm = lexer_model(chk)
    mod = model.mod(LEXER)
    chk.doc('C11.R10', 'every function rule t_[<state>_]<NAME> whose NAME is a declared token returns its token '
                       'argument on every returning path (a bare return or falling off the end drops the token and the '
                       'text it matched vanishes from the parse); rule functions whose name is not a token return '
                       'nothing')
    toks = set()
    for dname, opts in sorted(shipped_dialects(model).items()):
        toks |= set(lexer_tables(model, opts)[2])
    n = 0
    seen = set()
    for s_ in sorted(lm.states):
        for r in lm.rules[s_]:
            if r.fn is None or id(r.fn) in seen or r.name == 't_error':
                continue
            seen.add(id(r.fn))
            tokp = r.fn.args.args[-1].arg
            rets = [x for x in walk_no_nested(r.fn) if isinstance(x, ast.Return)]
            if r.tokname in toks:
                none_paths = defuse.returns_none_somewhere(r.fn)
                other = [x for x in rets if x.value is not None and norm(x.value) != tokp]
                n += 1
                chk.ob('C11.R10', 'rule %s/returns-token' % r.name, not none_paths and not other,
                       where(mod, (none_paths or other or [r.fn])[0]),
                       'token rule can finish without returning its token: the matched text is silently skipped')
            else:
                vals = [x for x in rets if x.value is not None]
                n += 1
                chk.ob('C11.R10', 'rule %s/consumes-silently' % r.name, not vals, where(mod, r.fn),
                       '%s is not a declared token but the rule returns a value' % r.tokname)
    # identifiers: a forbidden word and a trailing hyphen are rejected (raise reachable exactly under the test)
    from vt.cfg import CFG
    ci = model.cls(LEXER, 'SmiV2Lexer')
    for rname, needs in (('t_UPPERCASE_IDENTIFIER', ('forbidden', 'hyphen')), ('t_LOWERCASE_IDENTIFIER', ('hyphen',))):
        o, fn = ci.find_method(rname)
        tokp = fn.args.args[-1].arg
        cfg = CFG(fn)
        raises = [x for x in walk_no_nested(fn) if isinstance(x, ast.Raise)]
        for what in needs:
            atom = '%s.value in self.forbidden_words' % tokp if what == 'forbidden' else "%s.value[-1] == '-'" % tokp
            tgt = []
            for x in raises:
                g = [norm(t_) for t_, b_ in ir_guards(x, fn)]
                if atom in g:
                    tgt.append(cfg.node_of(x))
            common.requires(chk, 'C11.R10', 'rule %s/rejects-%s' % (rname, what), cfg, mod, tgt, {atom: True},
                            'identifier check missing or inverted')
    chk.floor('C11.R10', 15, 'function rules')



def r10_rule_functions_cannot_raise_foreign(chk):
    """Expressions inside lexer / parser rule functions (the error rules above all: they run on exactly the inputs
    nobody tried) that raise a foreign exception on some input text: a constant index into the result of a
    whitespace split() (empty for blank text; any index >= 1 may be missing), .group() on an unchecked match,
    str.index()."""
    model = chk.model
    chk.doc('C11.R13', 'no expression in a t_* / p_* function can raise IndexError / AttributeError / ValueError on '
                       'some input text: no constant subscript of a whitespace-split() result (or index >= 1 of any '
                       'split), no .group() on an unchecked re.match/search result, no str.index(); whatever an error '
                       'rule quotes from the input is taken by slicing')
    n = 0
    for rel in (LEXER, 'pysmi/parser/smi.py'):
        mod = model.mod(rel)
        for c in mod.classes():
            for fn in [f for f in c.body if isinstance(f, ast.FunctionDef) and f.name.startswith(('t_', 'p_'))]:
                n += 1
                bad = []
                for x in walk_no_nested(fn):
                    if isinstance(x, ast.Subscript) and isinstance(x.value, ast.Call) and \
                            isinstance(x.value.func, ast.Attribute) and x.value.func.attr in ('split', 'rsplit',
                                                                                             'splitlines', 'findall'):
                        idx = x.slice
                        if isinstance(idx, ast.Slice):
                            continue
                        k = idx.value if isinstance(idx, ast.Constant) else None
                        if isinstance(idx, ast.UnaryOp) and isinstance(idx.op, ast.USub) and \
                                isinstance(idx.operand, ast.Constant):
                            k = -idx.operand.value
                        sep = bool(x.value.args) and not (isinstance(x.value.args[0], ast.Constant) and
                                                          x.value.args[0].value is None)
                        safe = x.value.func.attr in ('split', 'rsplit') and sep and k in (0, -1)
                        if not safe:
                            bad.append((x, 'IndexError when the text has fewer parts'))
                    if isinstance(x, ast.Call) and isinstance(x.func, ast.Attribute) and x.func.attr == 'group' and \
                            isinstance(x.func.value, ast.Call) and dotted_name(x.func.value.func) in (
                                're.match', 're.search', 're.fullmatch'):
                        bad.append((x, 'AttributeError when the pattern does not match'))
                    if isinstance(x, ast.Call) and isinstance(x.func, ast.Attribute) and x.func.attr == 'index' and \
                            len(x.args) >= 1 and not isinstance(x.func.value, ast.Name):
                        bad.append((x, 'ValueError when the text does not contain it'))
                for x, why in bad:
                    chk.ob('C11.R13', '%s.%s/%s' % (c.name, fn.name, norm(x)[:60]), False, where(mod, x),
                           '%s: %s - a foreign exception escapes from parse() / compile()' % (norm(x)[:80], why))
                if not bad:
                    chk.ob('C11.R13', '%s.%s' % (c.name, fn.name), True, where(mod, fn), '')
    chk.floor('C11.R13', 150, 'rule functions of lexer and parser')



def r11_class_tables_not_mutated(chk):
    """dialect classes and code generators derive tables from each other: a derived table must be a copy"""
    common.no_mutation_of_class_tables_through_aliases(chk, 'C11.R11', sorted(r for r in chk.model.modules if r.startswith(('pysmi/lexer/', 'pysmi/parser/', 'pysmi/codegen/', 'pysmi/compiler.py'))), floor=4)



def r12_format_arity(chk):
    """error messages of lexer and parser"""
    common.format_arity(chk, 'C11.R12', ['pysmi/parser/smi.py', 'pysmi/lexer/smi.py'], floor=10)



def r14_text_reaches_the_lexer_as_given(chk):
    """line numbers in error messages are those of the text the caller gave: parse() must not edit it (shared with
    C02.R6)"""
    from rules.C02 import r6_entry_point
    r6_entry_point(chk, rule='C11.R14')



def r15_lexer_regexes_terminate_quickly(chk):
    """"never fails to terminate": Python's regex matcher backtracks; a token rule with an unbounded repeat nested in an
    unbounded repeat (everything else in the body optional) needs time exponential in the length of a run that finally
    does not match - e.g. a long hex literal whose closing quote is missing"""
    lm = lexer_model(chk)
    mod = chk.model.mod(LEXER)
    chk.doc('C11.R15', 'no lexer rule regex (any state, any dialect) contains an unbounded repeat whose body contains '
                       'another unbounded repeat while the rest of that body can match the empty string ((X+ Y*)*, (X*)*, '
                       '(X+)+): matching stays polynomial in the input length')
    n = 0
    for s in sorted(lm.states):
        for r in lm.rules[s]:
            n += 1
            bad = rx.exponential_repeats(r.parsed(lm.flags))
            chk.ob('C11.R15', 'state %s/rule %s' % (s, r.name), not bad,
                   where(mod, r.fn) if r.fn is not None else LEXER,
                   'regex %r: %s - the lexer can take exponential time on a long run that fails to match' % (
                       r.pattern, '; '.join(bad)))
    chk.floor('C11.R15', 20, 'lexer rules')



MANDATORY_CLAUSES = {
    # macro production -> keyword tokens every derivation must contain (RFC 2578 ch. 5-8, RFC 2580 ch. 3-6, RFC 1215)
    'module': ('DEFINITIONS', 'BEGIN', 'END'),
    'moduleIdentityClause': ('LAST_UPDATED', 'ORGANIZATION', 'CONTACT_INFO', 'DESCRIPTION'),
    'objectIdentityClause': ('STATUS', 'DESCRIPTION'),
    'objectTypeClause': ('SYNTAX', 'STATUS'),
    'notificationTypeClause': ('STATUS', 'DESCRIPTION'),
    'objectGroupClause': ('OBJECTS', 'STATUS', 'DESCRIPTION'),
    'notificationGroupClause': ('NOTIFICATIONS', 'STATUS', 'DESCRIPTION'),
    'moduleComplianceClause': ('STATUS', 'DESCRIPTION', 'MODULE'),
    'agentCapabilitiesClause': ('PRODUCT_RELEASE', 'STATUS', 'DESCRIPTION'),
    'trapTypeClause': ('ENTERPRISE',),
}


def r16_mandatory_clauses(chk):
    """a declaration that lacks a clause the SMI makes mandatory is malformed input: the grammar must not derive it"""
    from rules.C17 import dialect
    chk.doc('C11.R16', 'for every dialect: each macro production derives only texts that contain the clauses the SMI makes '
                       'mandatory for it (table MANDATORY_CLAUSES from RFC 2578 / 2580 / 1215: e.g. OBJECTS, STATUS and '
                       'DESCRIPTION of an OBJECT-GROUP) - decided on the grammar: the keyword occurs in every alternative '
                       'of the production, directly or through a non-terminal all of whose alternatives contain it; a '
                       'production re-used from a macro where the clause is optional lets malformed declarations through')
    n = 0
    for dname, opts in dialect_list(chk):
        d = dialect(chk.model, opts)
        by = d.by_lhs()

        def always(sym, tok, seen=()):
            if sym == tok:
                return True
            if sym not in by or sym in seen:
                return False
            return all(any(always(x, tok, seen + (sym,)) for x in p.rhs) for p in by[sym])
        for lhs, toks in sorted(MANDATORY_CLAUSES.items()):
            if lhs not in by:
                chk.ob('C11.R16', '%s/%s' % (dname, lhs), False, 'pysmi/parser/smi.py', 'production missing')
                continue
            missing = [t for t in toks if not always(lhs, t)]
            n += 1
            fn = by[lhs][0].fn
            chk.ob('C11.R16', '%s/%s' % (dname, lhs), not missing, '%s:%s' % ('pysmi/parser/smi.py', fn.lineno if fn else 0),
                   'the grammar derives a %s without %s' % (lhs, ' / '.join(missing)))
    chk.floor('C11.R16', 30, 'macro productions x dialects')


RULES = [r1_located_package_errors, r2_state_totality, r3_progress_and_token_types, r4_line_accounting, r5_p_error,
         r6_parse_result, r7_numeric_conversion, r8_actions_cannot_raise_typeerror, r9_number_classifier,
         r10_token_rules_return_the_token, r10_rule_functions_cannot_raise_foreign, r11_class_tables_not_mutated, r12_format_arity, r14_text_reaches_the_lexer_as_given, r15_lexer_regexes_terminate_quickly, r16_mandatory_clauses]
