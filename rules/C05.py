"""C05 - types, constraints and default values survive compilation exactly."""
import ast
import re

from vt.grammar import shipped_dialects, PARSER, LEXER
from vt.model import walk_no_nested, norm, dotted_name, module_value, class_attr_value
from vt.shapes import Sym, Tup
from vt.runner import where, AnalysisError
from rules import common, ir
from vt.cfg import CFG
from rules.C07 import _key_is
from rules.C11 import lexer_model
from rules.C17 import shapes, dialect, dialect_list

EXPLANATION = (
    "Structural rules along the path of a SYNTAX/DEFVAL value: the number classifier t_NUMBER partitions the "
    "integers at 2^32-1 and 2^64-1 into the four numeric token types; every numeric token class plus hex/binary "
    "strings is an alternative of `value` and `valueofSimpleSyntax` (and NUMBER/NEGATIVENUMBER of enumNumber) with "
    "pass-through actions; str2int converts with base 2 exactly under isBinary, base 16 exactly under isHex, whose "
    "predicates accept both suffix cases; the range and size handlers are the same code modulo key names and keep "
    "min/max roles and order; enum and bits handlers keep (label, number) pairs; getBaseType follows both "
    "components of the (type, module) pair, stops at the base types, raises package errors and never mutates the "
    "shared table or caches under an incomplete key; genDefVal has a branch for every DEFVAL notation the grammar "
    "can deliver, compares base type *names* (not records) with strings and wraps every result the same way; the "
    "pysnmp constraints()/default() macros read min/max, label/value in the right argument order.")
ASSUMPTIONS = [
    "value equality of constraints end to end is not decided, only the mechanism's structure",
    "pyasn1/pysnmp constraint classes take (min, max) and (name, value) in that order",
]
TECHNIQUE = 'AST/path-condition rules on the classifier, grammar alternative sets, sibling comparison, taint of ' \
            'symbol-table aliases, template AST rules'

INTER = 'pysmi/codegen/intermediate.py'


def path_conditions(node, fn):
    """[(test text, branch 'T'|'F')] of the enclosing ifs, outermost first"""
    out = []
    child, a = node, getattr(node, '_parent', None)
    while a is not None and a is not fn:
        if isinstance(a, ast.If):
            in_body = any(common._within(child, s) for s in a.body)
            out.append((norm(a.test), 'T' if in_body else 'F'))
        child, a = a, getattr(a, '_parent', None)
    # elif chains: an `if` in orelse of its parent is already represented by parent's 'F'
    return list(reversed(out))


def r1_number_classifier(chk, rule='C05.R1'):
    model = chk.model
    lm = lexer_model(chk)
    mod = model.mod(LEXER)
    chk.unit(LEXER)
    chk.doc(rule, 't_NUMBER: value <= 2^32-1 keeps NUMBER / NEGATIVENUMBER, value <= 2^64-1 gives NUMBER64 / '
                      'NEGATIVENUMBER64, anything larger raises; the limits are exactly 2^32-1 and 2^64-1')
    u32 = module_value(model, LEXER, 'UNSIGNED32_MAX')
    u64 = module_value(model, LEXER, 'UNSIGNED64_MAX')
    chk.ob(rule, 'UNSIGNED32_MAX', u32 == 2 ** 32 - 1, LEXER, 'UNSIGNED32_MAX = %r' % (u32,))
    chk.ob(rule, 'UNSIGNED64_MAX', u64 == 2 ** 64 - 1, LEXER, 'UNSIGNED64_MAX = %r' % (u64,))
    ci = model.cls(LEXER, 'SmiV2Lexer')
    o, fn = ci.find_method('t_NUMBER')
    chk.subject(fn, 'SmiV2Lexer.t_NUMBER')
    tok = fn.args.args[-1].arg
    # The classifier is decided by abstract interpretation over intervals: the integer line is cut at every constant
    # the function compares with and at the oracle's limits; each piece (an interval of token values) is pushed
    # through the statements of t_NUMBER with comparisons evaluated on the interval.  Whatever the shape of the
    # if-chain, each piece must come out with exactly the oracle's token type (or a package error).
    INF = float('inf')
    consts = set([0, 2 ** 32 - 1, 2 ** 64 - 1])

    def const_of(e):
        if isinstance(e, ast.Constant) and isinstance(e.value, int) and not isinstance(e.value, bool):
            return e.value
        if isinstance(e, ast.Name):
            try:
                v = module_value(model, LEXER, e.id)
            except Exception:
                return None
            return v if isinstance(v, int) and not isinstance(v, bool) else None
        if isinstance(e, ast.UnaryOp) and isinstance(e.op, ast.USub):
            v = const_of(e.operand)
            return -v if v is not None else None
        if isinstance(e, ast.BinOp) and isinstance(e.op, (ast.Add, ast.Sub)):
            a, b = const_of(e.left), const_of(e.right)
            if a is not None and b is not None:
                return a + b if isinstance(e.op, ast.Add) else a - b
        return None
    for x in walk_no_nested(fn):
        if isinstance(x, ast.Compare):
            for e in [x.left] + list(x.comparators):
                c = const_of(e)
                if c is not None:
                    consts.update([c, -c])
    cuts = sorted(set(c for k in consts for c in (k - 1, k, k + 1, -k - 1, -k, -k + 1)))
    pieces = [(-INF, cuts[0] - 1)]
    for a, b in zip(cuts, cuts[1:]):
        pieces.append((a, a))
        if b - a > 1:
            pieces.append((a + 1, b - 1))
    pieces.append((cuts[-1], cuts[-1]))
    pieces.append((cuts[-1] + 1, INF))

    class Unknown(Exception):
        pass

    def cmp_iv(op, a, b):
        """three-valued comparison of intervals a, b"""
        (al, ah), (bl, bh) = a, b
        if isinstance(op, ast.Lt):
            return True if ah < bl else False if al >= bh else None
        if isinstance(op, ast.LtE):
            return True if ah <= bl else False if al > bh else None
        if isinstance(op, ast.Gt):
            return True if al > bh else False if ah <= bl else None
        if isinstance(op, ast.GtE):
            return True if al >= bh else False if ah < bl else None
        if isinstance(op, ast.Eq):
            return True if al == ah == bl == bh else False if ah < bl or al > bh else None
        if isinstance(op, ast.NotEq):
            r = cmp_iv(ast.Eq(), a, b)
            return None if r is None else not r
        raise Unknown('comparison %s' % type(op).__name__)

    def ev(e, env):
        c = const_of(e)
        if c is not None:
            return ('int', c, c)
        if isinstance(e, ast.Constant):
            if isinstance(e.value, bool):
                return ('bool', e.value)
            if isinstance(e.value, str):
                return ('str', e.value)
            if e.value is None:
                return ('bool', False)
        if isinstance(e, ast.Name) and e.id in env:
            return env[e.id]
        if isinstance(e, ast.Attribute) and norm(e) == '%s.value' % tok:
            return env['@value']
        if isinstance(e, ast.Attribute) and norm(e) == '%s.type' % tok:
            return env['@type']
        if isinstance(e, ast.Call) and norm(e.func) == 'abs' and len(e.args) == 1:
            v = ev(e.args[0], env)
            if v[0] == 'int':
                lo, hi = v[1], v[2]
                if lo >= 0:
                    return v
                if hi <= 0:
                    return ('int', -hi, -lo)
                return ('int', 0, max(-lo, hi))
        if isinstance(e, ast.Call) and norm(e.func) == 'int' and len(e.args) == 1:
            return ev(e.args[0], env)
        if isinstance(e, ast.UnaryOp) and isinstance(e.op, ast.USub):
            v = ev(e.operand, env)
            if v[0] == 'int':
                return ('int', -v[2], -v[1])
        if isinstance(e, ast.UnaryOp) and isinstance(e.op, ast.Not):
            t = truth(ev(e.operand, env))
            return ('bool', None if t is None else not t)
        if isinstance(e, ast.Compare) and len(e.ops) == 1:
            a, b = ev(e.left, env), ev(e.comparators[0], env)
            if a[0] == 'int' and b[0] == 'int':
                return ('bool', cmp_iv(e.ops[0], (a[1], a[2]), (b[1], b[2])))
        if isinstance(e, ast.BoolOp):
            cur = ev(e.values[0], env)
            for nxt in e.values[1:]:
                t = truth(cur)
                if t is None:
                    raise Unknown('undecided operand in %s' % norm(e))
                if isinstance(e.op, ast.And):
                    cur = ev(nxt, env) if t else cur
                else:
                    cur = cur if t else ev(nxt, env)
            return cur
        if isinstance(e, ast.IfExp):
            t = truth(ev(e.test, env))
            if t is None:
                raise Unknown('undecided test in %s' % norm(e))
            return ev(e.body if t else e.orelse, env)
        raise Unknown('expression %s' % norm(e)[:60])

    def truth(v):
        if v[0] == 'bool':
            return v[1]
        if v[0] == 'str':
            return bool(v[1])
        if v[0] == 'int':
            if v[1] == v[2]:
                return v[1] != 0
            if v[1] > 0 or v[2] < 0:
                return True
            return None
        return None

    def run(body, env):
        """-> outcome: ('ret', type) | ('raise', class) | None (fell through)"""
        for st in body:
            if isinstance(st, ast.Expr) and isinstance(st.value, ast.Constant):
                continue
            if isinstance(st, ast.Try):
                r = run(st.body, env)
                if r is not None:
                    return r
                continue
            if isinstance(st, ast.Assign) and len(st.targets) == 1:
                t = st.targets[0]
                v = ev(st.value, env)
                if isinstance(t, ast.Name):
                    env[t.id] = v
                elif norm(t) == '%s.value' % tok:
                    env['@value'] = v
                elif norm(t) == '%s.type' % tok:
                    env['@type'] = v
                else:
                    raise Unknown('assignment to %s' % norm(t))
                continue
            if isinstance(st, ast.If):
                t = truth(ev(st.test, env))
                if t is None:
                    raise Unknown('the test `%s` is not decided on this piece' % norm(st.test))
                r = run(st.body if t else st.orelse, env)
                if r is not None:
                    return r
                continue
            if isinstance(st, ast.Raise):
                anc = model.exc_ancestors(mod, st.exc.func if isinstance(st.exc, ast.Call) else st.exc)
                return ('raise', anc[0] if anc else norm(st.exc)[:30], 'PySmiError' in anc)
            if isinstance(st, ast.Return):
                ok_ret = _key_is(st.value, tok)
                ty = env['@type']
                return ('ret', ty[1] if ty[0] == 'str' else None, ok_ret)
            if isinstance(st, ast.Pass):
                continue
            raise Unknown('statement %s' % type(st).__name__)
        return None

    def want(lo, hi):
        m = max(abs(lo), abs(hi))
        small = min(abs(lo), abs(hi)) if (lo >= 0 or hi <= 0) else 0
        neg = hi < 0
        if small > 2 ** 64 - 1:
            return 'raise'
        if m <= 2 ** 32 - 1:
            return 'NEGATIVENUMBER' if neg else 'NUMBER'
        if small > 2 ** 32 - 1 and m <= 2 ** 64 - 1:
            return 'NEGATIVENUMBER64' if neg else 'NUMBER64'
        return None     # the piece straddles a limit (cannot happen: the limits are cuts)
    bad, npieces = [], 0
    for lo, hi in pieces:
        w = want(lo, hi)
        if w is None:
            continue
        npieces += 1
        env = {'@value': ('int', lo, hi), '@type': ('str', 'NUMBER')}
        try:
            r = run(fn.body, env)
        except Unknown as e:
            bad.append(('values %s..%s' % (lo, hi), 'cannot be decided: %s' % e))
            continue
        if r is None:
            got = 'no token returned'
        elif r[0] == 'raise':
            got = 'raise' if r[2] else 'raise of a foreign exception %s' % r[1]
        else:
            got = r[1] if r[2] else 'something else than the token returned'
        if got != w:
            bad.append(('values %s..%s' % (lo, hi), 'come out as %s, expected %s' % (got, w)))
    chk.ob(rule, 't_NUMBER/classification-by-magnitude', not bad, where(mod, fn),
           '; '.join('%s %s' % b for b in bad[:4]) or 'all %d pieces of the integer line classified as specified' % npieces)
    # the regex accepts an optional minus and digits only
    r = [x for x in lm.rules['INITIAL'] if x.name == 't_NUMBER'][0]
    chk.ob(rule, 't_NUMBER/regex', r.pattern == '-?[0-9]+', LEXER, 'regex %r' % r.pattern)
    for nm, pat in (('t_HEX_STRING', "\\'[0-9a-fA-F]*\\'[hH]"), ('t_BIN_STRING', "\\'[01]*\\'[bB]")):
        rr = [x for x in lm.rules['INITIAL'] if x.name == nm]
        chk.ob(rule, '%s/regex' % nm, bool(rr) and rr[0].pattern == pat, LEXER,
               'regex %r' % (rr[0].pattern if rr else None))


def r2_value_alternatives(chk):
    model = chk.model
    chk.doc('C05.R2', 'in every shipped dialect `value` and `valueofSimpleSyntax` accept NUMBER, NEGATIVENUMBER, '
                      'NUMBER64, NEGATIVENUMBER64, HEX_STRING, BIN_STRING; enumNumber = {NUMBER, NEGATIVENUMBER}; the '
                      'actions pass the token through; range/enumItem/NamedBit keep (first, second) order')
    need = set(['NUMBER', 'NEGATIVENUMBER', 'NUMBER64', 'NEGATIVENUMBER64', 'HEX_STRING', 'BIN_STRING'])
    for dname, opts in dialect_list(chk):
        gs = shapes(model, opts)
        by = gs.by_lhs
        for nt in ('value', 'valueofSimpleSyntax'):
            alts = set(p.rhs[0] for p in by.get(nt, []) if len(p.rhs) == 1)
            chk.ob('C05.R2', '%s/%s-alternatives' % (dname, nt), need <= alts, PARSER,
                   '%s lacks %s' % (nt, sorted(need - alts)))
            for p in by.get(nt, []):
                if len(p.rhs) == 1:
                    t = gs.terms[p]
                    chk.ob('C05.R2', '%s/%s[%s]-pass-through' % (dname, nt, p.rhs[0]), isinstance(t, Sym) and t.i == 1,
                           '%s:%s' % (PARSER, p.fn.lineno), 'value becomes %r' % t)
        alts = set(p.rhs for p in by.get('enumNumber', []))
        chk.ob('C05.R2', '%s/enumNumber-alternatives' % dname, alts == set([('NUMBER',), ('NEGATIVENUMBER',)]), PARSER,
               '%s' % sorted(alts))
        for nt, want in (('range', None), ('enumItem', '(p1, p3)'), ('NamedBit', '(p1, p3)')):
            for p in by.get(nt, []):
                t = gs.terms[p]
                if nt == 'range':
                    w = '(p1, p3)' if len(p.rhs) == 3 else '(p1)'
                    ok = repr(t) == w or (len(p.rhs) == 1 and isinstance(t, Tup) and len(t.items) == 1)
                else:
                    ok = repr(t) == want
                chk.ob('C05.R2', '%s/%s[%s]' % (dname, nt, ' '.join(p.rhs)), ok, '%s:%s' % (PARSER, p.fn.lineno),
                       '%s yields %r' % (nt, t))
    chk.floor('C05.R2', 60, 'value alternatives x dialects')


def r3_literal_conversion(chk):
    model = chk.model
    ci = model.cls('pysmi/codegen/base.py', 'AbstractCodeGen')
    mod = ci.mod
    chk.unit('pysmi/codegen/base.py:AbstractCodeGen.str2int/isHex/isBinary')
    chk.doc('C05.R3', 'str2int: int(<digits>, 2) only under isBinary(s), int(<digits>, 16) only under isHex(s), '
                      'int(s) otherwise; empty digit strings raise a package error; isBinary / isHex test the '
                      'opening quote and the two-character suffix in both letter cases')
    o, fn = ci.find_method('str2int')
    chk.subject(fn, 'AbstractCodeGen.str2int')
    s = fn.args.args[1].arg
    ints = [c for c in walk_no_nested(fn) if isinstance(c, ast.Call) and dotted_name(c.func) == 'int']
    seen = set()
    for c in ints:
        conds = path_conditions(c, fn)
        base = c.args[1] if len(c.args) > 1 else None
        if base is None:
            ok = conds == [('self.isBinary(%s)' % s, 'F'), ('self.isHex(%s)' % s, 'F')] and norm(c.args[0]) == s
            seen.add(10)
            chk.ob('C05.R3', 'str2int/decimal', ok, where(mod, c), 'int(%s) under %s' % (norm(c.args[0]), conds))
            continue
        if not isinstance(base, ast.Constant):
            chk.ob('C05.R3', 'str2int/base-not-constant', False, where(mod, c),
                   'the radix is computed (%s): the notation decided by isBinary/isHex can disagree with it'
                   % norm(base))
            continue
        b = base.value
        seen.add(b)
        pred = {2: 'self.isBinary(%s)' % s, 16: 'self.isHex(%s)' % s}.get(b)
        digits_ok = norm(c.args[0]) == '%s[1:-2]' % s
        if b == 2:
            want = [(pred, 'T'), ('%s[1:-2]' % s, 'T')]
        else:
            want = [('self.isBinary(%s)' % s, 'F'), (pred, 'T'), ('%s[1:-2]' % s, 'T')]
        chk.ob('C05.R3', 'str2int/base%s' % b, pred is not None and conds == want and digits_ok, where(mod, c),
               'int(%s, %s) under %s' % (norm(c.args[0]), b, conds))
    chk.ob('C05.R3', 'str2int/all-notations', seen == set([2, 16, 10]), where(mod, fn), 'conversions found: %s' % sorted(
        seen, key=str))
    rs = [x for x in walk_no_nested(fn) if isinstance(x, ast.Raise)]
    good = [x for x in rs if 'PySmiError' in model.exc_ancestors(mod, x.exc.func if isinstance(x.exc, ast.Call) else x.exc)]
    chk.ob('C05.R3', 'str2int/empty-raises', len(good) == 2 and len(rs) == 2, where(mod, fn),
           'empty hex/binary strings must raise a package error')
    for name, letters in (('isBinary', "bB"), ('isHex', "hH")):
        o, f = ci.find_method(name)
        chk.subject(f, 'AbstractCodeGen.%s' % name)
        a = f.args.args[-1].arg
        txt = norm(f)
        consts = set(n.value for n in ast.walk(f) if isinstance(n, ast.Constant) and isinstance(n.value, str))
        want = set(["'", "'" + letters[0], "'" + letters[1]])
        tests_quote = any(isinstance(n, ast.Compare) and norm(n.left) == '%s[0]' % a and isinstance(n.ops[0], ast.Eq)
                          for n in ast.walk(f))
        tests_suffix = any(isinstance(n, ast.Compare) and norm(n.left) == '%s[-2:]' % a and isinstance(n.ops[0], ast.In)
                           for n in ast.walk(f))
        chk.ob('C05.R3', '%s/predicate' % name, consts == want and tests_quote and tests_suffix, where(mod, f),
               'predicate tests %s' % sorted(consts))


def renamed_dump(fn, mapping):
    class R(ast.NodeTransformer):
        def visit_Name(self, n):
            return ast.copy_location(ast.Name(id=mapping.get(n.id, n.id), ctx=n.ctx), n)

        def visit_Constant(self, n):
            if isinstance(n.value, str):
                return ast.copy_location(ast.Constant(value=mapping.get(n.value, n.value)), n)
            return n
    import copy
    f2 = R().visit(copy.deepcopy(fn))
    f2.name = 'F'
    return ast.dump(ast.Module(body=f2.body, type_ignores=[]))


def r4_ranges(chk):
    model = chk.model
    ci = model.cls(INTER, 'IntermediateCodeGen')
    mod = ci.mod
    chk.unit(INTER)
    chk.doc('C05.R4', 'genIntegerSubType and genOctetStringSubType are the same code modulo key names; each range '
                      'tuple (a, b) gives min <- str2int(a), max <- str2int(b), a single value gives min = max; '
                      'entries are appended in source order')
    o, f1 = ci.find_method('genIntegerSubType')
    o, f2 = ci.find_method('genOctetStringSubType')
    chk.subject(f1, 'genIntegerSubType')
    chk.subject(f2, 'genOctetStringSubType')
    d1 = '\n'.join(common.canon_text(s) for s in f1.body).replace("'range'", "'K'")
    d2 = '\n'.join(common.canon_text(s) for s in f2.body).replace("'size'", "'K'")
    chk.ob('C05.R4', 'range/size-handlers-agree', d1 == d2, where(mod, f2),
           'the two constraint handlers differ beyond their key names')
    for fn, key in ((f1, 'range'), (f2, 'size')):
        lp = [n for n in fn.body if isinstance(n, ast.For)]
        ok = len(lp) == 1 and norm(lp[0].iter) == '%s[0]' % fn.args.args[1].arg
        chk.ob('C05.R4', '%s/iterates-in-order' % fn.name, ok, where(mod, fn), 'must iterate data[0] in order')
        if not ok:
            continue
        body = lp[0].body
        unpacks = [s for s in body if isinstance(s, ast.Assign) and isinstance(s.targets[0], ast.Tuple) and
                   len(s.targets[0].elts) == 2]
        okv = len(unpacks) == 2
        if okv:
            a, b = [e.id for e in unpacks[0].targets[0].elts]
            rng = lp[0].target.id
            first = norm(unpacks[0].value)
            okv = first in ('len(%s) == 1 and (%s[0], %s[0]) or %s' % (rng, rng, rng, rng),) and \
                norm(unpacks[1]) == '%s, %s = (self.str2int(%s), self.str2int(%s))' % (a, b, a, b)
            stores = dict((norm(s.targets[0].slice), norm(s.value)) for s in body if isinstance(s, ast.Assign) and
                          isinstance(s.targets[0], ast.Subscript))
            okv = okv and stores.get("'min'") == a and stores.get("'max'") == b
        chk.ob('C05.R4', '%s/min-max-roles' % fn.name, okv, where(mod, fn),
               'min must receive the first bound and max the second: %s' % [norm(s)[:60] for s in body][:6])
        app = [s for s in body if isinstance(s, ast.Expr) and isinstance(s.value, ast.Call) and
               isinstance(s.value.func, ast.Attribute) and s.value.func.attr == 'append']
        chk.ob('C05.R4', '%s/append-order' % fn.name, len(app) == 1 and body[-1] is app[0], where(mod, fn),
               'each entry must be appended once, in loop order')
        rets = [x for x in walk_no_nested(fn) if isinstance(x, ast.Return)]
        okr = len(rets) == 1 and isinstance(rets[0].value, ast.Dict) and len(rets[0].value.keys) == 1 and \
            rets[0].value.keys[0].value == key
        chk.ob('C05.R4', '%s/returns-%s' % (fn.name, key), okr, where(mod, fn), '')


def r5_enum_bits(chk):
    model = chk.model
    ci = model.cls(INTER, 'IntermediateCodeGen')
    mod = ci.mod
    chk.doc('C05.R5', 'genEnumSpec returns {"enumeration": dict(<label/number pairs>)} unchanged; genBits orders by '
                      'bit position only and stores name -> position')
    o, fn = ci.find_method('genEnumSpec')
    chk.subject(fn, 'genEnumSpec')
    rets = [x for x in walk_no_nested(fn) if isinstance(x, ast.Return)]
    d = fn.args.args[1].arg
    ok = len(rets) == 1 and isinstance(rets[0].value, ast.Dict) and rets[0].value.keys[0].value == 'enumeration'
    if ok:
        v = rets[0].value.values[0]
        src = v.args[0] if isinstance(v, ast.Call) and dotted_name(v.func) in ('dict', 'OrderedDict') and v.args else None
        if isinstance(src, ast.Name):
            asg = [s for s in fn.body if isinstance(s, ast.Assign) and _key_is(s.targets[0], src.id)]
            ok = bool(asg) and norm(asg[0].value) == '%s[0]' % d
        else:
            ok = src is not None and norm(src) == '%s[0]' % d
    chk.ob('C05.R5', 'genEnumSpec', ok, where(mod, fn), 'enumeration must be dict(data[0])')
    o, fb = ci.find_method('genBits')
    chk.subject(fb, 'genBits')
    loops = [n for n in walk_no_nested(fb) if isinstance(n, ast.For)]
    ok = len(loops) == 1 and isinstance(loops[0].iter, ast.Call) and dotted_name(loops[0].iter.func) == 'sorted'
    if ok:
        kw = [k for k in loops[0].iter.keywords if k.arg == 'key']
        ok = len(kw) == 1 and norm(kw[0].value) in ('lambda x: x[1]',) and isinstance(loops[0].target, ast.Tuple)
        if ok:
            nme, pos = [e.id for e in loops[0].target.elts]
            ok = any(isinstance(s, ast.Assign) and isinstance(s.targets[0], ast.Subscript) and
                     norm(s.targets[0].slice) == nme and norm(s.value) == pos for s in loops[0].body)
    chk.ob('C05.R5', 'genBits', ok, where(mod, fb), 'bits must be stored name -> position, ordered by position')


def r7_base_type_walk(chk):
    model = chk.model
    ci = model.cls(INTER, 'IntermediateCodeGen')
    mod = ci.mod
    chk.doc('C05.R7', 'getBaseType(name, module): unknown module / symbol / type raise package errors; the walk stops '
                      'at baseTypes and otherwise recurses on both components of the (type, module) pair read from '
                      'the symbol table; no in-place mutation of table values; no cache keyed by less than '
                      '(name, module)')
    o, fn = ci.find_method('getBaseType')
    chk.subject(fn, 'IntermediateCodeGen.getBaseType')
    fn = resolve_impl(ci, fn)
    params = [a.arg for a in fn.args.args[1:]]
    chk.ob('C05.R7', 'getBaseType/signature', len(params) == 2, where(mod, fn), 'parameters %s' % params)
    if len(params) != 2:
        return
    name, module = params
    rs = [x for x in walk_no_nested(fn) if isinstance(x, ast.Raise)]
    good = [x for x in rs if 'PySmiSemanticError' in model.exc_ancestors(
        mod, x.exc.func if isinstance(x.exc, ast.Call) else x.exc)]
    conds = [tuple(c[0] for c in path_conditions(x, fn)) for x in good]
    want = [('%s not in self.symbolTable' % module,), ('%s not in self.symbolTable[%s]' % (name, module),)]
    chk.ob('C05.R7', 'getBaseType/unknown-module-symbol-raise', all(w in conds for w in want) and len(good) == len(rs),
           where(mod, fn), 'guards found: %s' % conds)
    chk.ob('C05.R7', 'getBaseType/unknown-type-raises', len(good) >= 3, where(mod, fn), '')
    # the pair read from the table
    reads = [s for s in walk_no_nested(fn) if isinstance(s, ast.Assign) and 'self.symbolTable[%s][%s]' % (
        module, name) in norm(s.value)]
    chk.ob('C05.R7', 'getBaseType/reads-own-entry', len(reads) == 1, where(mod, fn),
           'the entry looked up must be symbolTable[module][name]')
    tvar = None
    if reads and isinstance(reads[0].targets[0], ast.Tuple) and isinstance(reads[0].targets[0].elts[0], ast.Name):
        tvar = reads[0].targets[0].elts[0].id
    recs = [c for c in walk_no_nested(fn) if isinstance(c, ast.Call) and isinstance(c.func, ast.Attribute) and
            c.func.attr in ('getBaseType', '_getBaseType') and _key_is(c.func.value, 'self')]
    ok = bool(recs) and tvar is not None
    for c in recs:
        a = [norm(x) for x in c.args]
        if not (a == ['*%s' % tvar] or a == ['%s[0]' % tvar, '%s[1]' % tvar]):
            ok = False
    chk.ob('C05.R7', 'getBaseType/recursion-follows-pair', ok, where(mod, fn),
           'recursive call(s): %s (must pass both the parent type name and the module that declares it)' % [
               norm(c) for c in recs])
    stop = [n for n in walk_no_nested(fn) if isinstance(n, ast.If) and norm(n.test) == '%s[0] in self.baseTypes' % tvar]
    chk.ob('C05.R7', 'getBaseType/stops-at-base-types', len(stop) == 1, where(mod, fn), '')
    # polarity and constraint inheritance, by reachability under a valuation of the predicates
    gcfg = CFG(fn)
    if tvar and recs and stop:
        rec_nodes = [gcfg.node_of(common.stmt_of(c)) for c in recs]
        common.requires(chk, 'C05.R7', 'getBaseType/recurses-only-for-derived-types', gcfg, mod, rec_nodes,
                        {'%s[0] in self.baseTypes' % tvar: False, '%s[0]' % tvar: True})
        direct = [x for x in stop[0].body if isinstance(x, ast.Return)]
        common.requires(chk, 'C05.R7', 'getBaseType/base-type-returned-as-is', gcfg, mod,
                        [gcfg.node_of(x) for x in direct], {'%s[0] in self.baseTypes' % tvar: True})
        unk = [x for x in good if any(norm(t_) == 'not %s[0]' % tvar for t_, b_ in ir.guards_of(x, fn))]
        common.requires(chk, 'C05.R7', 'getBaseType/untyped-symbol-raises', gcfg, mod, [gcfg.node_of(x) for x in unk],
                        {'%s[0]' % tvar: False})
        # the refinement of the derived type is kept and the base's is added: own + base when both are lists, the
        # base's when only the base has one, the own otherwise
        b_ = common.pfind([s_ for s_ in walk_no_nested(fn) if isinstance(s_, ast.Assign)], '$bt, $bs = self.getBaseType(',
                          full=False)
        sv = reads[0].targets[0].elts[1].id if reads and isinstance(reads[0].targets[0], ast.Tuple) and \
            len(reads[0].targets[0].elts) == 2 and isinstance(reads[0].targets[0].elts[1], ast.Name) else None
        if b_ and sv:
            both = [s_ for s_ in walk_no_nested(fn) if isinstance(s_, ast.Assign) and norm(s_) in (
                '%s = %s + %s' % (sv, sv, b_['bs']),)]
            only = [s_ for s_ in walk_no_nested(fn) if isinstance(s_, ast.Assign) and norm(s_) == '%s = %s' % (sv, b_['bs'])]
            common.requires(chk, 'C05.R7', 'getBaseType/constraints-own-then-base', gcfg, mod,
                            [gcfg.node_of(x) for x in both],
                            {'isinstance(%s, list)' % b_['bs']: True, 'isinstance(%s, list)' % sv: True})
            common.requires(chk, 'C05.R7', 'getBaseType/constraints-inherited', gcfg, mod,
                            [gcfg.node_of(x) for x in only],
                            {'isinstance(%s, list)' % b_['bs']: True, 'isinstance(%s, list)' % sv: False})
            fin = [x for x in walk_no_nested(fn) if isinstance(x, ast.Return) and isinstance(x.value, ast.Tuple) and
                   [norm(e) for e in x.value.elts] == [b_['bt'], sv]]
            chk.ob('C05.R7', 'getBaseType/returns-base-type-with-merged-constraints', len(fin) == 1, where(mod, fn),
                   'return (<base type of the parent>, <merged constraints>)')
    bt = class_attr_value(model, INTER, 'IntermediateCodeGen', 'baseTypes')
    chk.ob('C05.R7', 'baseTypes', sorted(bt) == sorted(['Integer', 'Integer32', 'Bits', 'ObjectIdentifier',
                                                         'OctetString']), INTER, 'baseTypes = %s' % (bt,))
    from rules.C12 import r4_symbol_table_read_only
    r4_symbol_table_read_only(chk, rule='C05.R7m')
    memo_keys(chk, ci, 'C05.R7')


def resolve_impl(ci, fn, depth=0):
    """follow a thin wrapper (no symbol-table access of its own) to the self-method it delegates to"""
    if depth > 2 or any(common.is_self_attr(n, 'symbolTable') for n in walk_no_nested(fn)):
        return fn
    params = [a.arg for a in fn.args.args[1:]]
    for c in walk_no_nested(fn):
        if isinstance(c, ast.Call) and isinstance(c.func, ast.Attribute) and _key_is(c.func.value, 'self') and \
                [norm(a) for a in c.args] == params:
            o, f2 = ci.find_method(c.func.attr)
            if f2 is not None and f2 is not fn:
                return resolve_impl(ci, f2, depth + 1)
    return fn


def memo_keys(chk, ci, rule, only=('getBaseType', '_getBaseType', 'genNumericOid', '_genNumericOid')):
    """A cache filled and consulted inside a resolver must be keyed by every variable its value depends on."""
    mod = ci.mod
    for mname, fn in sorted(ci.methods.items()):
        if mname not in only and not any(isinstance(c, ast.Call) and isinstance(c.func, ast.Attribute) and
                                         c.func.attr in only for c in walk_no_nested(fn)):
            continue
        params = set(a.arg for a in fn.args.args[1:])
        for st in walk_no_nested(fn):
            if not (isinstance(st, ast.Assign) and isinstance(st.targets[0], ast.Subscript) and
                    common.is_self_attr(st.targets[0].value)):
                continue
            attr = st.targets[0].value.attr
            if attr in ('symbolTable', '_out', '_importMap', 'genRules', 'moduleName'):
                continue
            reads = [n for n in walk_no_nested(fn) if (isinstance(n, ast.Subscript) and isinstance(n.ctx, ast.Load) and
                                                       common.is_self_attr(n.value, attr)) or (
                isinstance(n, ast.Compare) and isinstance(n.ops[0], (ast.In, ast.NotIn)) and
                common.is_self_attr(n.comparators[0], attr)) or (
                isinstance(n, ast.Call) and isinstance(n.func, ast.Attribute) and n.func.attr == 'get' and
                common.is_self_attr(n.func.value, attr))]
            if not reads:
                continue
            key_names = set(n.id for n in ast.walk(st.targets[0].slice) if isinstance(n, ast.Name))
            # names the cached value depends on: lookups in the symbol table inside this function
            dep = set()
            for n in walk_no_nested(fn):
                if isinstance(n, ast.Subscript) and 'self.symbolTable' in norm(n.value):
                    for x in ast.walk(n.slice):
                        if isinstance(x, ast.Name):
                            dep.add(x.id)
                if isinstance(n, ast.Call) and isinstance(n.func, ast.Attribute) and n.func.attr in only:
                    for a in n.args:
                        for x in ast.walk(a):
                            if isinstance(x, ast.Name) and x.id != 'self':
                                dep.add(x.id)
            dep |= params & set(['module', 'symName', 'parent'])
            missing = sorted(d for d in dep if d not in key_names and d in ('module', 'symName', 'parent') or
                             (d in params and d not in key_names))
            chk.ob(rule, '%s.%s/cache self.%s[%s]' % (ci.name, mname, attr, norm(st.targets[0].slice)), not missing,
                   where(mod, st), 'results are cached under a key that leaves out %s: two different symbols '
                                   '(same name in different modules) share one entry' % missing)


def r8_defval(chk):
    model = chk.model
    ci = model.cls(INTER, 'IntermediateCodeGen')
    mod = ci.mod
    chk.doc('C05.R8', 'genDefVal has a branch for each DEFVAL notation (number, hex, binary, quoted string, label: '
                      'OID / enumeration / bits); the record returned by getBaseType is never compared with a '
                      'string as a whole; every non-empty result has the same {"default": record} wrapper; the '
                      'base type is resolved for the object itself in its own module')
    o, fn = ci.find_method('genDefVal')
    chk.subject(fn, 'IntermediateCodeGen.genDefVal')
    tests = [norm(n.test) for n in walk_no_nested(fn) if isinstance(n, ast.If)]
    dp = fn.args.args[1].arg
    b = common.pfind([s for s in fn.body if isinstance(s, ast.Assign)], '$dv = %s[0]' % dp)
    dv = b['dv'] if b else 'defval'
    need = {'number': 'isinstance(%s, (int, long))' % dv, 'hex': 'self.isHex(%s)' % dv,
            'binary': 'self.isBinary(%s)' % dv,
            'quoted string': "%s[0] == %s[-1] and %s[0] == '\"'" % (dv, dv, dv)}
    for k, t in sorted(need.items()):
        chk.ob('C05.R8', 'genDefVal/branch-%s' % k.replace(' ', '-'), t in tests, where(mod, fn),
               'no branch for DEFVAL written as %s' % k)
    for k, frag in (('oid', "== 'ObjectIdentifier'"), ('bits', "== 'Bits'"), ('enum', "in ('Integer32', 'Integer')")):
        chk.ob('C05.R8', 'genDefVal/label-%s' % k, any(frag in t for t in tests), where(mod, fn),
               'no label branch for base type %s' % k)
    # entry guards: no DEFVAL clause -> no default; first pass (no object name yet) -> the clause is handed back
    body = [st for st in fn.body if not (isinstance(st, ast.Expr) and isinstance(st.value, ast.Constant))]
    g1 = body[0] if body else None
    ok1 = isinstance(g1, ast.If) and norm(g1.test) == 'not %s' % dp and len(g1.body) == 1 and \
        isinstance(g1.body[0], ast.Return) and isinstance(g1.body[0].value, ast.Dict) and not g1.body[0].value.keys
    chk.ob('C05.R8', 'genDefVal/no-clause-no-default', ok1, where(mod, g1 or fn),
           'the function must start with `if not %s: return {}` (found `%s`): an object without DEFVAL has no default, '
           'one with DEFVAL is not cut short' % (dp, norm(g1)[:60] if g1 is not None else None))
    g2 = body[1] if len(body) > 1 else None
    on = fn.args.args[2].arg if len(fn.args.args) > 2 else 'objname'
    ok2 = isinstance(g2, ast.If) and norm(g2.test) == 'not %s' % on and len(g2.body) == 1 and \
        isinstance(g2.body[0], ast.Return) and _key_is(g2.body[0].value, dp)
    chk.ob('C05.R8', 'genDefVal/first-pass-hands-the-clause-back', ok2, where(mod, g2 or fn),
           'second statement must be `if not %s: return %s` (found `%s`)' % (on, dp, norm(g2)[:60] if g2 is not None
                                                                              else None))
    # the label chain ends in a package error: a label that is neither an OID, an enumeration label nor a bit name
    chain = [st for st in body if isinstance(st, ast.If) and need['number'] == norm(st.test)]
    last_else = None
    if chain:
        cur = chain[0]
        while cur.orelse and len(cur.orelse) == 1 and isinstance(cur.orelse[0], ast.If):
            cur = cur.orelse[0]
        inner = [st for st in cur.orelse if isinstance(st, ast.If)]
        last_else = cur.orelse
        if inner:
            cur = inner[0]
            while cur.orelse and len(cur.orelse) == 1 and isinstance(cur.orelse[0], ast.If):
                cur = cur.orelse[0]
            last_else = cur.orelse
    rs = [x for x in (last_else or []) if isinstance(x, ast.Raise) and x.exc is not None and 'PySmiError' in
          model.exc_ancestors(mod, x.exc.func if isinstance(x.exc, ast.Call) else x.exc)]
    chk.ob('C05.R8', 'genDefVal/unknown-label-raises', bool(rs), where(mod, fn),
           'a DEFVAL label that fits no base type must end in a package error (final else of the label chain)')
    # shape-typed comparison
    tvars = set()
    for s in walk_no_nested(fn):
        if isinstance(s, ast.Assign) and isinstance(s.targets[0], ast.Name) and isinstance(s.value, ast.Call) and \
                isinstance(s.value.func, ast.Attribute) and s.value.func.attr == 'getBaseType':
            tvars.add(s.targets[0].id)
            a = [norm(x) for x in s.value.args]
            chk.ob('C05.R8', 'genDefVal/base-type-of-own-object', a == ['objname', 'self.moduleName[0]'], where(mod, s),
                   'base type must be resolved for (objname, own module): %s' % a)
    n = 0
    for c in walk_no_nested(fn):
        if isinstance(c, ast.Compare):
            for side in [c.left] + c.comparators:
                if isinstance(side, ast.Name) and side.id in tvars:
                    others = [x for x in [c.left] + c.comparators if x is not side]
                    if any(isinstance(x, ast.Constant) and isinstance(x.value, str) or
                           (isinstance(x, ast.Tuple) and all(isinstance(e, ast.Constant) for e in x.elts))
                           for x in others):
                        n += 1
                        chk.ob('C05.R8', 'genDefVal/record-vs-string %s' % norm(c), False, where(mod, c),
                               'the ((type, module), subtype) record is compared with a string: the result is a '
                               'constant, so the branch it guards is always or never taken')
    chk.ob('C05.R8', 'genDefVal/no-record-vs-string', n == 0, where(mod, fn), '')
    # wrapper shape of returns
    for x in walk_no_nested(fn):
        if isinstance(x, ast.Return) and x.value is not None:
            v = x.value
            if isinstance(v, ast.Dict) and not v.keys:
                continue
            if isinstance(v, ast.Name) and v.id == fn.args.args[1].arg:
                continue  # first pass: raw value handed back for the second pass
            ok = isinstance(v, ast.Dict) and len(v.keys) == 1 and v.keys[0].value == 'default'
            chk.ob('C05.R8', 'genDefVal/return-shape %s' % ('bare-record' if isinstance(v, ast.Name) else norm(v)[:30]),
                   ok, where(mod, x),
                   'this path returns %s while the other notations return {"default": record}: the consumer reads '
                   'a member that does not exist' % norm(v)[:40])
    # genObjectType stores it under 'default' when non-empty
    o2, got = ci.find_method('genObjectType')
    un_ = [a.id for s in got.body if isinstance(s, ast.Assign) and isinstance(s.targets[0], ast.Tuple) and
           _key_is(s.value, got.args.args[1].arg) for a in s.targets[0].elts]
    ok = len(un_) == 11 and any(isinstance(s, ast.Assign) and norm(s) == "%s = self.genDefVal(%s, objname=%s)" % (
        un_[9], un_[9], un_[0]) for s in walk_no_nested(got))
    chk.ob('C05.R8', 'genObjectType/defval-plumbing', ok, where(mod, got), 'genDefVal(defval, objname=name) expected')


SYNTAX_FAMILY = ('Syntax', 'ObjectSyntax', 'SimpleSyntax', 'ApplicationSyntax', 'sequenceSyntax', 'sequenceObjectSyntax',
                 'sequenceSimpleSyntax', 'sequenceApplicationSyntax', 'anySubType', 'integerSubType',
                 'octetStringSubType', 'ranges', 'range', 'value', 'enumSpec', 'enumItems', 'enumItem', 'enumNumber',
                 'NamedBits', 'NamedBit', 'DefValPart', 'Value', 'valueofObjectSyntax', 'valueofSimpleSyntax',
                 'BitsValue', 'BitNames', 'typeDeclarationRHS', 'typeDeclaration', 'conceptualTable', 'row', 'entryType',
                 'sequenceItems', 'sequenceItem')


def r9_syntax_productions(chk):
    """every part of a SYNTAX / DEFVAL construct reaches the tree in every dialect (C02.R1 restricted to the syntax
    productions) and overriding dialect functions agree with the base ones (C17.R2)"""
    from vt.runner import Check
    from rules.C02 import r1_nothing_dropped
    from rules.C17 import r2_shared_terms
    chk.doc('C05.R9', 'no grammar action of the SYNTAX/DEFVAL family drops, duplicates or reorders a value-carrying '
                      'part (all three dialects), and dialect overrides compute the same value as the base action')
    tmp = Check(chk.prop, chk.tier, chk.model, chk.repo)
    r1_nothing_dropped(tmp, only_lhs=set(SYNTAX_FAMILY))
    r2_shared_terms(tmp)
    for o in tmp.obligations:
        if o.rule == 'C02.R1' or (o.rule == 'C17.R2' and any(x in o.key for x in ('Syntax', 'enum', 'Index'))):
            chk.ob('C05.R9', o.key, o.ok, o.where, o.detail)
    chk.floor('C05.R9', 40, 'syntax productions')


def r10_collectors(chk):
    ci = chk.model.cls(INTER, 'IntermediateCodeGen')
    ir.elementwise_collectors(chk, 'C05.R10', ci, ['genIntegerSubType', 'genOctetStringSubType'], 2)



def r11_guard_slice_agreement(chk):
    """`len(X) > N and X[a:-b] or default`: the guard must hold exactly when the slice is non-empty (N == a + b)"""
    model = chk.model
    chk.doc('C05.R11', 'where a length test guards a slice of the same literal (directly or through a local alias), '
                       'the test is true exactly for the lengths that make the slice non-empty: len(X) > a+b for '
                       'X[a:-b]; otherwise short literals silently become the default value')
    n = 0
    for rel in sorted(r for r in model.modules if r.startswith('pysmi/codegen/')):
        mod = model.mod(rel)
        for cnode in mod.classes():
            ci = model.cls(rel, cnode.name)
            for mname, fn in sorted(ci.methods.items()):
                aliases = {}
                for st in ast.walk(fn):
                    if isinstance(st, ast.Assign) and len(st.targets) == 1 and isinstance(st.targets[0], ast.Name) and \
                            isinstance(st.value, ast.Subscript) and isinstance(st.value.slice, ast.Slice):
                        aliases.setdefault(st.targets[0].id, []).append(st.value)
                for b in ast.walk(fn):
                    guard = val = None
                    if isinstance(b, ast.BoolOp) and isinstance(b.op, ast.And) and len(b.values) >= 2:
                        guard, val = b.values[0], b.values[1]
                    elif isinstance(b, ast.IfExp):
                        guard, val = b.test, b.body
                    if guard is None or not (isinstance(guard, ast.Compare) and len(guard.ops) == 1 and
                                             isinstance(guard.left, ast.Call) and dotted_name(guard.left.func) == 'len'
                                             and isinstance(guard.comparators[0], ast.Constant)):
                        continue
                    subj = norm(guard.left.args[0])
                    if isinstance(val, ast.Name) and len(aliases.get(val.id, ())) == 1:
                        val = aliases[val.id][0]
                    if not (isinstance(val, ast.Subscript) and isinstance(val.slice, ast.Slice) and
                            norm(val.value) == subj):
                        continue
                    lo, hi = val.slice.lower, val.slice.upper
                    try:
                        a = 0 if lo is None else ast.literal_eval(lo)
                        bb = 0 if hi is None else -ast.literal_eval(hi)
                    except Exception:
                        continue
                    if a < 0 or bb < 0:
                        continue
                    nconst = guard.comparators[0].value
                    op = guard.ops[0]
                    need = a + bb   # slice non-empty iff len > need
                    if isinstance(op, ast.Gt):
                        ok = nconst == need
                    elif isinstance(op, ast.GtE):
                        ok = nconst == need + 1
                    else:
                        ok = False
                    n += 1
                    chk.ob('C05.R11', '%s.%s/%s' % (ci.name, mname, norm(guard)), ok, where(mod, b),
                           '%s is non-empty for len(%s) > %d but is used only when %s: literals in between become '
                           'the default' % (norm(val), subj, need, norm(guard)))
    chk.floor('C05.R11', 1, 'length-guarded slices')


def r12_defval_decision_table(chk):
    """which conversion a DEFVAL gets is decided by its notation (and, for labels, by the base type of the object)"""
    model = chk.model
    ci = model.cls(INTER, 'IntermediateCodeGen')
    mod = ci.mod
    o, fn = ci.find_method('genDefVal')
    chk.doc('C05.R12', 'genDefVal decision table: every store of format=F lies on the positive branch of the notation '
                       'test for F and on no positive branch of another notation (number -> decimal, value as is; hex '
                       'literal -> hex digits, or their value when the base type is an integer; binary literal -> value '
                       '(integer types) or hex digits; quoted -> string between the quotes; label -> oid / enum / bits '
                       'by base type, only when all four notation tests fail), and the value stored is the conversion '
                       'that belongs to that (notation, format) pair')
    dp = fn.args.args[1].arg
    asg = [s_ for s_ in walk_no_nested(fn) if isinstance(s_, ast.Assign)]
    b = common.pfind([s_ for s_ in fn.body if isinstance(s_, ast.Assign)], '$dv = %s[0]' % dp)
    dv = b['dv'] if b else None
    b2 = common.pfind(asg, '$t = self.getBaseType(', full=False)
    tv = b2['t'] if b2 else None
    chk.ob('C05.R12', 'genDefVal/locals', bool(dv and tv), where(mod, fn), 'value / base-type locals not found')
    if not (dv and tv):
        return
    atoms = [
        ('N', 'isinstance(%s, (int, long))' % dv), ('H', 'self.isHex(%s)' % dv), ('B', 'self.isBinary(%s)' % dv),
        ('Q', "%s[0] == %s[-1]" % (dv, dv)), ('Q2', "%s[0] == '\"'" % dv),
        ('I', "%s[0][0] in ('Integer32', 'Integer')" % tv), ('O', "%s[0][0] == 'ObjectIdentifier'" % tv),
        ('EL', 'isinstance(%s[1], list)' % tv), ('BITS', "%s[0][0] == 'Bits'" % tv),
        ('L', 'isinstance(%s, list)' % dv), ('M', '%s in dict(%s[1])' % (dv, tv)), ('NE', dv),
    ]
    names = dict((t, a) for a, t in atoms)

    def path_atoms(node):
        pos, neg, unknown = set(), set(), []
        for test, in_body in ir.guards_of(node, fn):
            cjs = ir.conjuncts(test)
            if in_body:
                for cj in cjs:
                    a = names.get(norm(cj))
                    if a:
                        pos.add(a)
                    else:
                        unknown.append(norm(cj)[:50])
            else:
                if len(cjs) == 1 and names.get(norm(cjs[0])):
                    neg.add(names[norm(cjs[0])])
                else:
                    # the else-branch of an and-chain: at least one conjunct is false; recorded as the chain's name
                    key = '&'.join(sorted(names.get(norm(cj), '?') for cj in cjs))
                    neg.add(key)
        return pos, neg, unknown
    aliases = {}
    for s_ in asg:
        if len(s_.targets) == 1 and isinstance(s_.targets[0], ast.Name):
            aliases.setdefault(s_.targets[0].id, []).append(s_.value)

    def expand(e):
        if isinstance(e, ast.Name) and e.id not in (dv, tv) and len(aliases.get(e.id, ())) == 1:
            return expand(aliases[e.id][0])
        return e

    def vtext(e):
        e = expand(e)
        t = norm(e)
        for nm, vals in aliases.items():
            if len(vals) == 1 and nm not in (dv, tv):
                import re as _re
                t = _re.sub(r'\b%s\b' % _re.escape(nm), '(%s)' % norm(expand(vals[0])), t)
        return t
    notation_pos = {'decimal': {'N'}, 'string': {'Q', 'Q2'}, 'oid': {'O'}, 'bits': {'BITS'}, 'enum': {'I', 'EL'}}
    LABEL_NEG = {'N', 'H', 'B', 'Q&Q2'}
    stores = [s_ for s_ in ir.record_stores(fn) if s_.key == ('format',)]
    chk.ob('C05.R12', 'genDefVal/format-stores', len(stores) >= 9, where(mod, fn), '%d format= stores' % len(stores))
    seen = {}
    for s_ in stores:
        fmt = s_.value.value if isinstance(s_.value, ast.Constant) else None
        pos, neg, unknown = path_atoms(s_.node)
        vals = [x for x in ir.record_stores(fn) if x.node is s_.node and x.key == ('value',)]
        if not vals:
            # value and format stored by neighbouring statements of the same block
            par = getattr(s_.node, '_parent', None)
            vals = [x for x in ir.record_stores(fn) if x.key == ('value',) and x.var == s_.var and
                    getattr(x.node, '_parent', None) is par and
                    [norm(t) for t, b in x.guards] == [norm(t) for t, b in s_.guards] and
                    [b for t, b in x.guards] == [b for t, b in s_.guards]]
        val = vtext(vals[0].value) if vals else ''
        notation = 'N' if 'N' in pos else 'H' if 'H' in pos else 'B' if 'B' in pos else 'Q' if 'Q' in pos else 'label'
        problems = []
        if len(pos & {'N', 'H', 'B', 'Q'}) > 1:
            problems.append('lies on the positive branch of two notation tests %s' % sorted(pos & {'N', 'H', 'B', 'Q'}))
        want_val = None
        if notation == 'N':
            ok_fmt = fmt == 'decimal'
            want_val = [dv]
        elif notation == 'H':
            ok_fmt = fmt == 'hex'
            if 'I' in pos:
                want_val = ["str(int(len(%s) > 3 and %s[1:-2] or '0', 16))" % (dv, dv),
                            "str(int(len(%s) > 3 and (%s[1:-2]) or '0', 16))" % (dv, dv)]
            elif 'I' in neg:
                want_val = ['%s[1:-2]' % dv, '(%s[1:-2])' % dv]
            else:
                problems.append('hex literal: neither branch of the integer-type test')
        elif notation == 'B':
            if 'I' in pos:
                ok_fmt = fmt == 'bin'
                want_val = ["str(int((%s[1:-2]) or '0', 2))" % dv, "str(int(%s[1:-2] or '0', 2))" % dv]
            elif 'I' in neg:
                ok_fmt = fmt == 'hex'
                want_val = ["(%s[1:-2]) and hex(int((%s[1:-2]), 2))[2:] or ''" % (dv, dv)]
            else:
                ok_fmt = False
                problems.append('binary literal: neither branch of the integer-type test')
        elif notation == 'Q':
            ok_fmt = fmt == 'string' and 'Q2' in pos
            want_val = ['%s[1:-1]' % dv]
        else:
            ok_fmt = fmt in ('oid', 'enum', 'bits') and LABEL_NEG <= neg
            if not LABEL_NEG <= neg:
                problems.append('label conversion reachable although a literal notation test holds (missing %s)' %
                                sorted(LABEL_NEG - neg))
            if fmt == 'oid':
                ok_fmt = ok_fmt and 'O' in pos
                want_val = None
                ok_v = "self.genNumericOid(self.symbolTable[" in val and "][%s]['oid']" % dv in val
                if not ok_v:
                    problems.append('oid value is %s' % val[:60])
            elif fmt == 'enum':
                ok_fmt = ok_fmt and {'I', 'EL'} <= pos and not ('O' in pos)
                if 'L' in pos:
                    want_val = ['%s[0]' % dv]
                    if 'NE' not in pos:
                        problems.append('first member taken without testing that one is left')
                elif 'M' in pos:
                    want_val = [dv]
                else:
                    problems.append('enumeration label stored without the membership test')
            elif fmt == 'bits':
                ok_fmt = ok_fmt and 'BITS' in pos and 'O' not in pos
                want_val = None
                if not val.startswith('self.genBits([') or not val.endswith('])[1]'):
                    problems.append('bits value is %s' % val[:60])
        if not ok_fmt:
            problems.append('format %r stored for notation %s (positive tests %s)' % (fmt, notation, sorted(pos)))
        if want_val is not None and val not in want_val:
            problems.append('value %s, expected %s' % (val[:70], want_val[0]))
        key = '%s->%s%s' % (notation, fmt, '/int' if 'I' in pos and notation in 'HB' else '/list' if 'L' in pos else '')
        seen[key] = seen.get(key, 0) + 1
        chk.ob('C05.R12', 'genDefVal/%s' % key, not problems, where(mod, s_.node), '; '.join(problems))
    need = ['N->decimal', 'H->hex/int', 'H->hex', 'B->bin/int', 'B->hex', 'Q->string', 'label->oid', 'label->enum',
            'label->enum/list', 'label->bits']
    missing = [k for k in need if k not in seen]
    chk.ob('C05.R12', 'genDefVal/all-conversions-present', not missing, where(mod, fn), 'missing: %s' % missing)
    # the empty-string special case: only for non-OctetString types
    rets = [x for x in walk_no_nested(fn) if isinstance(x, ast.Return) and isinstance(x.value, ast.Dict) and
            not x.value.keys]
    for x in rets:
        g = ir.guards_of(x, fn)
        if not g or norm(g[-1][0]).startswith('not '):
            continue
        t = [norm(c_) for c_ in ir.conjuncts(g[-1][0])] if g[-1][1] else None
        chk.ob('C05.R12', 'genDefVal/empty-string-dropped-only-for-non-strings', t == [
            "%s[1:-1] == ''" % dv, "%s[0][0] != 'OctetString'" % tv], where(mod, x), 'guard %s' % t)



def r6_constraints_macro(chk):
    """pysnmp template, constraints() macro: each branch renders its own constraint class with (min, max) in that
    order - in every arm of the loop (single / first / middle / last element)"""
    import re as _re
    from jinja2 import nodes as jn
    from vt.tmpl import TemplateModel, path_of
    tm = TemplateModel(chk.repo, 'pysmi/codegen/templates/pysnmp/mib-definitions.j2')
    chk.unit(tm.rel)
    chk.doc('C05.R6', 'constraints() macro: under `"range" in spec` every constraint constructor rendered is '
                      'ValueRangeConstraint(<item>.min, <item>.max) over spec.range, under `"size" in spec` '
                      'ValueSizeConstraint(<item>.min, <item>.max) over spec.size, under `"enumeration" in spec` '
                      'SingleValueConstraint over the numbers and NamedValues over (label, number) pairs - in every arm '
                      'of the loops that render them')
    mac = tm.macro('constraints')
    if mac is None:
        raise AnalysisError('subject missing: macro constraints() in %s' % tm.rel)
    spec = mac.args[-1].name if mac.args else 'spec'

    def linear(nodes_):
        out = []
        for n in nodes_:
            if isinstance(n, jn.Output):
                for x in n.nodes:
                    if isinstance(x, jn.TemplateData):
                        out.append(x.data)
                    else:
                        cur = x
                        while isinstance(cur, jn.Filter):
                            cur = cur.node
                        keys = []
                        while isinstance(cur, jn.Getitem) and isinstance(cur.arg, jn.Const):
                            keys.append(str(cur.arg.value))
                            cur = cur.node
                        root = cur.name if isinstance(cur, jn.Name) else '?'
                        out.append('<%s>' % '.'.join([root] + list(reversed(keys))))
            elif isinstance(n, jn.If):
                out += linear(n.body)
                for e in n.elif_:
                    out += linear(e.body)
                out += linear(n.else_)
            elif isinstance(n, jn.For):
                out += linear(n.body)
            elif hasattr(n, 'body') and isinstance(getattr(n, 'body'), list):
                out += linear(n.body)
        return out

    def branches(ifn):
        yield ifn.test, ifn.body
        for e in ifn.elif_:
            yield e.test, e.body
    top = [n for n in mac.body if isinstance(n, jn.If)]
    seen = {}
    for ifn in top:
        for test, body in branches(ifn):
            key = None
            if isinstance(test, jn.Compare) and isinstance(test.expr, jn.Const) and test.ops and test.ops[0].op == 'in' \
                    and isinstance(test.ops[0].expr, jn.Name) and test.ops[0].expr.name == spec:
                key = test.expr.value
            if key is None:
                continue
            seen[key] = (body, test)
    want = {'range': 'ValueRangeConstraint', 'size': 'ValueSizeConstraint'}
    for key, cls in sorted(want.items()):
        if key not in seen:
            chk.ob('C05.R6', 'constraints/%s branch' % key, False, tm.rel, 'no `"%s" in %s` branch' % (key, spec))
            continue
        body, test = seen[key]
        loops = [f for n in body for f in ([n] if isinstance(n, jn.For) else n.find_all(jn.For))]
        okloop = len(loops) == 1 and path_of(loops[0].iter, spec) == (key,) and isinstance(loops[0].target, jn.Name)
        chk.ob('C05.R6', 'constraints/%s loop' % key, okloop, '%s:%s' % (tm.rel, test.lineno),
               'the branch must loop once over %s["%s"]' % (spec, key))
        if not okloop:
            continue
        item = loops[0].target.name
        text = ''.join(linear(body))
        names = _re.findall(r'\b([A-Za-z]+Constraint)\(', text)
        full = _re.findall(r'\b%s\(<%s\.min>,\s*<%s\.max>\)' % (cls, item, item), text)
        others = [x for x in names if x != cls]
        chk.ob('C05.R6', 'constraints/%s renders %s(min, max)' % (key, cls), bool(full) and not others and
               len(full) == len(names), '%s:%s' % (tm.rel, test.lineno),
               'constructors rendered in this branch: %s; %d of them are %s(<%s.min>, <%s.max>)' % (
                   sorted(set(names)), len(full), cls, item, item))
    if 'enumeration' in seen:
        body, test = seen['enumeration']
        text = ''.join(linear(body))
        names = set(_re.findall(r'\b([A-Za-z]+(?:Constraint|Values))\(', text))
        chk.ob('C05.R6', 'constraints/enumeration renders SingleValueConstraint + NamedValues',
               names == set(['SingleValueConstraint', 'NamedValues']), '%s:%s' % (tm.rel, test.lineno),
               'constructors rendered: %s' % sorted(names))
    else:
        chk.ob('C05.R6', 'constraints/enumeration branch', False, tm.rel, 'no enumeration branch')
    chk.floor('C05.R6', 5, 'three branches of the macro')



def ir_walk_ordered(fn):
    from rules.C16 import walk_ordered
    return walk_ordered(fn)


def r13_labels_compared_as_written(chk):
    """Enumeration and BITS labels are kept exactly as the MIB spells them (genEnumSpec / genBits store them verbatim,
    hyphens included).  A DEFVAL label is therefore compared with them - and emitted - as written: a value that went
    through transOpers() (hyphen -> underscore) no longer matches `not-ready`."""
    model = chk.model
    ci = model.cls(INTER, 'IntermediateCodeGen')
    o, fn = ci.find_method('genDefVal')
    chk.subject(fn, 'IntermediateCodeGen.genDefVal')
    chk.doc('C05.R13', 'genDefVal: the value tested against the enumeration / BITS labels of the base type '
                       '(`x in dict(<base type>[1])`) and stored as an enum / bits default is the DEFVAL as written: no '
                       'assignment on the way replaces it by self.transOpers(...) of itself')
    dp = fn.args.args[1].arg
    # names that hold the clause value: assigned from <data>[0] (or copies of such names)
    raw = set()
    normed = {}
    for st in ir_walk_ordered(fn):
        if isinstance(st, ast.Assign) and len(st.targets) == 1 and isinstance(st.targets[0], ast.Name):
            v = st.value
            if norm(v) == '%s[0]' % dp or (isinstance(v, ast.Name) and v.id in raw):
                raw.add(st.targets[0].id)
            elif isinstance(v, ast.Call) and common.is_self_attr(v.func, 'transOpers') and v.args and \
                    isinstance(v.args[0], ast.Name) and v.args[0].id in raw and st.targets[0].id in raw:
                normed[st.targets[0].id] = st
    uses = []
    for n in walk_no_nested(fn):
        if isinstance(n, ast.Compare) and len(n.ops) == 1 and isinstance(n.ops[0], (ast.In, ast.NotIn)) and \
                isinstance(n.comparators[0], ast.Call) and norm(n.comparators[0].func) == 'dict' and \
                isinstance(n.left, ast.Name):
            uses.append(n)
    chk.ob('C05.R13', 'genDefVal/label-tests-found', len(uses) >= 2, where(ci.mod, fn),
           '%d membership tests against dict(<enumeration>) found' % len(uses))
    for n in uses:
        nm = n.left.id
        src = nm
        # comprehension variables iterate the raw list
        comp = n
        while comp is not None and not isinstance(comp, (ast.ListComp, ast.GeneratorExp)):
            comp = getattr(comp, '_parent', None)
        if comp is not None and any(isinstance(g.target, ast.Name) and g.target.id == nm for g in comp.generators):
            g = [g for g in comp.generators if isinstance(g.target, ast.Name) and g.target.id == nm][0]
            src = g.iter.id if isinstance(g.iter, ast.Name) else nm
        bad = normed.get(src)
        chk.ob('C05.R13', 'genDefVal/`%s`' % norm(n)[:50], src in raw and bad is None and
               (bad is None or bad.lineno > n.lineno), where(ci.mod, n),
               'the label compared with the enumeration is %s' % (
                   'normalised first (`%s`): hyphenated labels never match' % norm(bad)[:60] if bad is not None else
                   'not the DEFVAL value as written'))



def r12_literals_reach_the_generators_as_written(chk):
    """hex and binary literals are converted by the code generators from the digits the MIB wrote: the lexer must not
    trim or rewrite them (shared with C02.R4)"""
    from rules.C02 import r4_token_values
    common.reuse(chk, r4_token_values, ('C02.R4',), 'C05.R15',
                 'among the lexer rules only t_NUMBER assigns t.value; HEX_STRING / BIN_STRING tokens carry the literal '
                 'exactly as written (leading zeros included), so range bounds and DEFVALs are converted from the '
                 'digits of the text (C02.R4)', floor=2)



def r_absent_values_C05_R14(chk):
    """optional clause parts are used where they are present, not where they are absent"""
    common.no_value_taken_from_an_absent_operand(chk, 'C05.R14', ['pysmi/codegen/intermediate.py', 'pysmi/codegen/symtable.py', 'pysmi/codegen/base.py'], floor=2)



def r16_subtype_reaches_the_record(chk):
    """SimpleSyntax delivers (type name[, subtype]): genSimpleSyntax of both generators takes the subtype from the
    second component when there is one and stores / returns it"""
    model = chk.model
    chk.doc('C05.R16', 'genSimpleSyntax (IR and symbol table): <subtype> = <data>[1] when len(<data>) == 2, otherwise an empty '
                       'value (`len(d) == 2 and d[1] or {}` or a conditional expression); the IR stores it as '
                       '`constraints`, the symbol table returns it as the second component of the syntax pair')
    for rel, cname, empty in ((INTER, 'IntermediateCodeGen', '{}'), (ir.SYMTAB, 'SymtableCodeGen', "''")):
        ci = model.cls(rel, cname)
        o, fn = ci.find_method('genSimpleSyntax')
        d = fn.args.args[1].arg
        asg = [s for s in walk_no_nested(fn) if isinstance(s, ast.Assign) and isinstance(s.targets[0], ast.Name) and
               norm(s.value) in ('len(%s) == 2 and %s[1] or %s' % (d, d, empty),
                                 '%s[1] if len(%s) == 2 else %s' % (d, d, empty),
                                 'len(%s) > 1 and %s[1] or %s' % (d, d, empty),
                                 '%s[1] if len(%s) > 1 else %s' % (d, d, empty))]
        chk.ob('C05.R16', '%s.genSimpleSyntax/subtype-source' % cname, len(asg) == 1, where(ci.mod, fn),
               'no assignment `<subtype> = len(%s) == 2 and %s[1] or %s` (or its conditional-expression form)' % (d, d, empty))
        if not asg:
            continue
        sv = asg[0].targets[0].id
        if cname == 'IntermediateCodeGen':
            st = [s for s in ir.record_stores(fn) if s.key == ('constraints',)]
            chk.ob('C05.R16', '%s.genSimpleSyntax/subtype-stored' % cname, len(st) == 1 and _key_is(st[0].value, sv),
                   where(ci.mod, fn), 'outDict["constraints"] must be the subtype')
        else:
            rets = [x for x in walk_no_nested(fn) if isinstance(x, ast.Return) and isinstance(x.value, ast.Tuple)]
            ok = bool(rets) and all(len(x.value.elts) == 2 and _key_is(x.value.elts[1], sv) for x in rets)
            chk.ob('C05.R16', '%s.genSimpleSyntax/subtype-returned' % cname, ok, where(ci.mod, fn),
                   'the syntax pair must carry the subtype as its second component')



def r17_default_stored_whenever_present(chk):
    """shared with C03.R14: the default is stored under nothing but its own presence"""
    r14 = __import__('rules.C03', fromlist=['r14_record_completeness']).r14_record_completeness
    common.reuse(chk, r14, ('C03.R14',), 'C05.R17',
                 'genObjectType stores the resolved DEFVAL, the syntax record (constraints) and the units whenever the '
                 'clause supplies them: the store depends on the truthiness of that component alone (C03.R14)',
                 keep=lambda o: any(k in o.key for k in ('default', 'syntax', 'units')), floor=2)



def r_no_partial_key_memo(chk):
    """an answer cached under part of the clause is wrong for the clause that differs in the rest"""
    common.no_partial_key_memo(chk, 'C05.R18', 'pysmi/codegen/intermediate.py', 'IntermediateCodeGen')
    common.no_partial_key_memo(chk, 'C05.R18', 'pysmi/codegen/symtable.py', 'SymtableCodeGen')



def r19_default_macro_renders_python(chk):
    """the default() macro must render what genDefVal produced as the Python literal it is (shared with C04.R10: every
    rendering path parses)"""
    from rules.C04 import r10_rendering_paths_are_python
    r10_rendering_paths_are_python(chk, rule='C05.R19')


def r20_every_default_has_a_value(chk):
    """path rule: a record that reaches the caller as the default carries the value and its format"""
    model = chk.model
    ci = model.cls(INTER, 'IntermediateCodeGen')
    mod = ci.mod
    o, fn = ci.find_method('genDefVal')
    chk.doc('C05.R20', 'genDefVal, path rule over its CFG (exception edges included, so a handler that swallows a failed conversion counts): every path from the entry to a '
                       'return of the default record passes a statement that stores both `value` and `format` in it. '
                       'Exempt, one reason: inside the enumeration arm (base type integer with a label list) a label '
                       'the enumeration does not have stores nothing - the MIB is malformed there and the property '
                       'speaks of the value written, which has no counterpart. A deleted raise, a conversion arm that '
                       'lost its store or a new arm that falls through all reach the return without a value')
    g = CFG(fn)
    stores = ir.record_stores(fn)
    rec_names = set(s_.var for s_ in stores if s_.key == ('basetype',))
    chk.ob('C05.R20', 'genDefVal/record', len(rec_names) == 1, where(mod, fn), 'record locals: %s' % sorted(rec_names))
    if len(rec_names) != 1:
        return
    rec = rec_names.pop()
    by_stmt = {}
    for s_ in stores:
        if s_.var == rec:
            by_stmt.setdefault(id(s_.node), set()).add(s_.key)
    vnodes = set(g.node_of(s_.node) for s_ in stores if s_.var == rec and s_.key == ('value',)) - {None}
    fnodes = set(g.node_of(s_.node) for s_ in stores if s_.var == rec and s_.key == ('format',)) - {None}
    full = vnodes & fnodes
    rets = []
    for x in walk_no_nested(fn):
        if isinstance(x, ast.Return) and x.value is not None:
            v = x.value
            if (isinstance(v, ast.Name) and v.id == rec) or (isinstance(v, ast.Dict) and any(
                    isinstance(y, ast.Name) and y.id == rec for y in v.values)):
                rets.append(x)
    chk.ob('C05.R20', 'genDefVal/returns-and-stores-found', len(rets) >= 1 and len(vnodes) >= 8 and len(fnodes) >= 8, where(mod, fn),
           '%d record returns, %d value stores, %d format stores' % (len(rets), len(vnodes), len(fnodes)))
    # the exempt arm: statements under a positive `isinstance(<type>[1], list)` guard
    exempt = set()
    for n in g.stmt_nodes():
        a = n.expr if n.expr is not None else n.ast
        if a is None:
            continue
        st = common.stmt_of(a) if not isinstance(a, ast.stmt) else a
        for test, in_body in ir.guards_of(st, fn):
            if in_body and any(re.match(r'isinstance\(\w+\[1\], list\)$', norm(cj)) for cj in ir.conjuncts(test)):
                exempt.add(n)
    chk.ob('C05.R20', 'genDefVal/enumeration-arm-found', bool(exempt), where(mod, fn), '')
    seen = g.reach([g.entry], avoid=vnodes | exempt) | g.reach([g.entry], avoid=fnodes | exempt)
    for r_ in rets:
        n = g.node_of(r_)
        chk.ob('C05.R20', 'genDefVal/value-before %s' % norm(r_)[:40], n not in seen, where(mod, r_),
               'a path reaches this return without storing value= and format= in the record: the default is emitted '
               'without the value written in the MIB')


RULES = [r1_number_classifier, r2_value_alternatives, r3_literal_conversion, r4_ranges, r5_enum_bits,
         r7_base_type_walk, r8_defval, r9_syntax_productions, r10_collectors, r11_guard_slice_agreement,
         r12_defval_decision_table, r6_constraints_macro, r13_labels_compared_as_written, r12_literals_reach_the_generators_as_written, r_absent_values_C05_R14, r16_subtype_reaches_the_record, r17_default_stored_whenever_present, r_no_partial_key_memo, r19_default_macro_renders_python, r20_every_default_has_a_value]
