"""C04 - pysnmp output is valid Python that loads and agrees with the JSON backend."""
import ast
import re

from vt.model import walk_no_nested, norm, dotted_name, class_attr_value
from vt.tmpl import TemplateModel, expr_info
from vt.runner import where, AnalysisError
from rules import common, ir
from rules.C07 import _key_is

EXPLANATION = (
    "Agreement rules between the IR producer (IntermediateCodeGen) and its two consumers: both back-ends render the "
    "context returned by IntermediateCodeGen.genCode; the pysnmp adapter only translates import names through "
    "SMI_OBJECTS (= the symbol table pass' symsTable), converts dotted OIDs to tuples and then sorts by the numeric "
    "OID; every record class the IR can emit has a rendering block and, when the block binds a Python name, is in "
    "the exportSymbols filter; every path a block reads is producible for that class and the must-read paths (oid, "
    "nodetype, maxaccess, syntax.type, indices, augmention, objects, modulecompliance, type.type) are read; the "
    "DEFVAL formats produced equal the formats the default() macro handles; imported and exported spellings of a "
    "symbol agree; the two genCode tails agree and convert Jinja errors to the package error.")
ASSUMPTIONS = ["that the rendered text is valid Python for every input and that pysnmp accepts it is not decided "
               "(needs rendering); only the producer/consumer agreement is",
               "escaping of texts inside string literals is C15.R4"]
TECHNIQUE = 'producer/consumer agreement over the Jinja2 AST and the IR builders; sibling comparison; rendering-path enumeration of the Jinja2 AST (each-choice over ifs, 0-3 loop iterations) parsed as Python, kind class per class region'

INTER = ir.INTER
PYSNMP = 'pysmi/codegen/pysnmp.py'
JSONDOC = 'pysmi/codegen/jsondoc.py'
TEMPLATE = 'pysmi/codegen/templates/pysnmp/mib-definitions.j2'

# class -> builder methods whose record keys feed the class' records at the given field
FIELD_BUILDERS = {
    'syntax': ['genSimpleSyntax', 'genBits'],
    'type': ['genTypeDeclarationRHS'],
    'indices': ['genTableIndex'],
    'revisions': ['genRevisions'],
    'default': ['genDefVal'],
}
MUST_READ = {
    'objecttype': [('oid',), ('nodetype',), ('maxaccess',), ('syntax', 'type'), ('indices',), ('augmention', 'object')],
    'objectidentity': [('oid',)],
    'moduleidentity': [('oid',), ('revisions',)],
    'objectgroup': [('oid',), ('objects',)],
    'notificationgroup': [('oid',), ('objects',)],
    'notificationtype': [('oid',), ('objects',)],
    'agentcapabilities': [('oid',)],
    'modulecompliance': [('oid',), ('modulecompliance',)],
    'type': [('type', 'type')],
    'textualconvention': [('type', 'type')],
}


def tmodel(chk):
    t = chk.model.__dict__.get('_pysnmp_template')
    if t is None:
        t = chk.model.__dict__['_pysnmp_template'] = TemplateModel(chk.repo, TEMPLATE)
    return t


def ir_classes(model):
    """class constant -> set of top-level keys its records can carry"""
    clauses = ir.clause_model(model)
    out = {}
    for tag, c in clauses.items():
        for cl in c.classes:
            keys = out.setdefault(cl, set())
            for s in c.stores:
                if s.var == c.record_var:
                    keys.add(s.key[0])
    # type declarations merge the RHS record (update(attrs))
    ci = model.cls(INTER, 'IntermediateCodeGen')
    o, fn = ci.find_method('genTypeDeclarationRHS')
    rhs_keys = set(s.key[0] for s in ir.record_stores(fn))
    out.setdefault('type', set()).update(rhs_keys)
    out['textualconvention'] = set(rhs_keys) | set(['name'])
    return out


def r1_shared_ir(chk):
    model = chk.model
    chk.unit(PYSNMP, JSONDOC, INTER, TEMPLATE)
    chk.doc('C04.R1', 'both back-ends start from IntermediateCodeGen.genCode(self, ast, symbolTable, **kwargs); the '
                      'pysnmp adapter translates imported macro names through SMI_OBJECTS (equal to the symbol '
                      'table\'s symsTable), converts every `oid` to a tuple of ints and only then sorts by OID with an '
                      'empty-tuple default; no record key is removed or renamed')
    for rel, cname in ((PYSNMP, 'PySnmpCodeGen'), (JSONDOC, 'JsonCodeGen')):
        o, fn = model.cls(rel, cname).find_method('genCode')
        first = [s for s in fn.body if isinstance(s, ast.Assign)][0]
        b = common.pmatch(first, '$mi, $ctx = IntermediateCodeGen.genCode(self, ast, symbolTable, **kwargs)')
        chk.ob('C04.R1', '%s.genCode/starts-from-IR' % cname, b is not None, where(o.mod, first), norm(first)[:90])
        rets = [x for x in walk_no_nested(fn) if isinstance(x, ast.Return)]
        rend = [s for s in walk_no_nested(fn) if isinstance(s, ast.Assign) and isinstance(s.value, ast.Call) and
                isinstance(s.value.func, ast.Attribute) and s.value.func.attr == 'render' and
                isinstance(s.targets[0], ast.Name)]
        okr = len(rets) == 1 and b is not None and len(rend) == 1 and \
            norm(rets[0].value) == '(%s, %s)' % (b['mi'], rend[0].targets[0].id)
        chk.ob('C04.R1', '%s.genCode/returns-mibinfo-text' % cname, okr, where(o.mod, fn),
               'must return (MibInfo of the IR pass, rendered text)')
        if rend:
            tv = rend[0].targets[0].id
            again = [x for x in walk_no_nested(fn) if isinstance(x, (ast.Assign, ast.AugAssign)) and x is not rend[0] and
                     any(isinstance(t, ast.Name) and t.id == tv
                         for t in (x.targets if isinstance(x, ast.Assign) else [x.target]))]
            chk.ob('C04.R1', '%s.genCode/rendered-text-returned-as-is' % cname, not again,
                   where(o.mod, again[0]) if again else where(o.mod, fn),
                   'the rendered text is edited after rendering (%s): what is returned is no longer what the template '
                   'and its filters produced' % '; '.join(norm(x)[:60] for x in again[:2]))
    so = class_attr_value(model, PYSNMP, 'PySnmpCodeGen', 'SMI_OBJECTS')
    st = class_attr_value(model, ir.SYMTAB, 'SymtableCodeGen', 'symsTable')
    same = sorted(so) == sorted(st) and all(tuple(so[k]) == tuple(st[k]) for k in so)
    chk.ob('C04.R1', 'SMI_OBJECTS==symsTable', same, PYSNMP,
           'the names a generated module imports differ from the names the symbol table resolves: %s' % sorted(
               k for k in set(so) | set(st) if tuple(so.get(k, ())) != tuple(st.get(k, ()))))
    o, fn = model.cls(PYSNMP, 'PySnmpCodeGen').find_method('genCode')
    mod = o.mod
    b0 = common.pmatch([s for s in fn.body if isinstance(s, ast.Assign)][0],
                       '$mi, $ctx = IntermediateCodeGen.genCode(self, ast, symbolTable, **kwargs)')
    ctx = b0['ctx'] if b0 else 'context'
    # translateOids
    tr = [n for n in ast.walk(fn) if isinstance(n, ast.FunctionDef) and n.name == 'translateOids']
    ok = len(tr) == 1
    if ok:
        t = tr[0]
        txt = norm(t)
        ok = common.pmatch(txt, "isinstance($v, dict)", full=False) is not None and \
            common.pmatch(txt, "translateOids($v)", full=False) is not None and \
            common.pmatch(txt, "$k == 'oid'", full=False) is not None and \
            common.pmatch(txt, "$d[$k] = tuple((int($x) for $x in $v.split('.')))", full=False) is not None
    chk.ob('C04.R1', 'translateOids', ok, where(mod, fn), 'every `oid` member (recursively) must become a tuple of ints')
    call = [s for s in fn.body if isinstance(s, ast.Expr) and norm(s.value) == 'translateOids(%s)' % ctx]
    sorts = [n for n in walk_no_nested(fn) if isinstance(n, ast.Call) and dotted_name(n.func) == 'sorted']
    ok = len(call) == 1 and len(sorts) == 1 and call[0].lineno < sorts[0].lineno
    chk.ob('C04.R1', 'oid-conversion-before-sort', ok, where(mod, fn),
           'the objects must be sorted after the dotted OIDs were converted to integer tuples (a textual sort puts '
           '...10 before ...9 and breaks definitions that refer to earlier ones)')
    if sorts:
        kw = [k for k in sorts[0].keywords if k.arg == 'key']
        ok = len(kw) == 1 and common.pmatch(kw[0].value, "lambda $x: $x[1].get('oid', ())") is not None and \
            norm(sorts[0].args[0]) == '%s.items()' % ctx and not [k for k in sorts[0].keywords if k.arg == 'reverse']
        chk.ob('C04.R1', 'sort-key', ok, where(mod, sorts[0]), 'sort: %s' % norm(sorts[0])[:100])
    # no deletion of keys from context
    dels = [n for n in walk_no_nested(fn) if isinstance(n, ast.Delete) or (
        isinstance(n, ast.Call) and isinstance(n.func, ast.Attribute) and n.func.attr in ('pop', 'popitem', 'clear') and
        ctx in norm(n.func.value))]
    chk.ob('C04.R1', 'adapter-keeps-all-records', not dels, where(mod, fn), 'records removed: %s' % [norm(d) for d in dels])
    # no member of a record is rewritten on the pysnmp side only (the JSON document would then say something else):
    # item stores in genCode outside translateOids may only target the context itself (context['imports'] = ..., the
    # re-ordered copy objects[symbol] = definition) - never a record taken from it
    record_vars = set()
    for n in walk_no_nested(fn):
        if isinstance(n, ast.For):
            it = norm(n.iter)
            if ('%s.values()' % ctx) in it or ('%s.items()' % ctx) in it:
                tg = n.target.elts[-1] if isinstance(n.target, ast.Tuple) else n.target
                if isinstance(tg, ast.Name):
                    record_vars.add(tg.id)
    rew = []
    for n in walk_no_nested(fn):
        tgs = n.targets if isinstance(n, ast.Assign) else [n.target] if isinstance(n, ast.AugAssign) else []
        for t in tgs:
            if isinstance(t, ast.Subscript):
                base = t.value
                while isinstance(base, ast.Subscript):
                    base = base.value
                if isinstance(base, ast.Name) and (base.id in record_vars or (
                        base.id == ctx and isinstance(t.value, ast.Subscript))):
                    rew.append(n)
        if isinstance(n, ast.Call) and isinstance(n.func, ast.Attribute) and n.func.attr in (
                'update', 'setdefault', 'pop', 'clear') and isinstance(n.func.value, ast.Name) and \
                n.func.value.id in record_vars:
            rew.append(n)
    chk.ob('C04.R1', 'adapter-rewrites-no-record-member', not rew, where(mod, rew[0]) if rew else where(mod, fn),
           'the pysnmp adapter changes a member of an IR record (%s): the generated module and the JSON document then '
           'disagree about it' % '; '.join(norm(x)[:70] for x in rew[:2]))
    # import translation
    loop = [n for n in fn.body if isinstance(n, ast.For) and "%s.get('imports'" % ctx in norm(n.iter)]
    ok = len(loop) == 1
    if ok:
        lt = norm(loop[0])
        b = common.pmatch(lt, 'if $s in self.SMI_OBJECTS', full=False)
        ok = b is not None and common.pmatch(lt, '$i[$m].extend(self.SMI_OBJECTS[%s])' % b['s'], full=False) is not None \
            and common.pmatch(lt, '$i[$m].append(%s)' % b['s'], full=False) is not None
    chk.ob('C04.R1', 'import-name-translation', ok, where(mod, fn), 'imports must be translated through SMI_OBJECTS, '
                                                                    'all other symbols kept')


def r2_class_exhaustiveness(chk):
    model = chk.model
    tm = tmodel(chk)
    chk.doc('C04.R2', 'every record class the IR can emit is selected by a definition block of the template; every '
                      'class whose block binds a Python name is in the exportSymbols filter')
    classes = ir_classes(model)
    blocks = tm.class_blocks()
    chk.ob('C04.R2', 'template/class-blocks', len(blocks) >= 10, tm.rel, '%d class-filtered loops' % len(blocks))
    rendered = set()
    export = None
    for f, cls, names in blocks:
        # the export loop is the one inside `mibBuilder.exportSymbols(`
        seg = tm.src.split('\n')[max(0, f.lineno - 4):f.lineno]
        if any('exportSymbols' in x for x in seg) or (len(cls) > 3):
            export = set(cls)
        else:
            rendered.update(cls)
    chk.ob('C04.R2', 'template/export-filter', export is not None, tm.rel, 'no exportSymbols filter found')
    for cl in sorted(classes):
        chk.ob('C04.R2', 'class %s/rendered' % cl, cl in rendered, tm.rel,
               'the IR emits class %r but no template block renders it' % cl)
        if export is not None:
            chk.ob('C04.R2', 'class %s/exported' % cl, cl in export, tm.rel,
                   'class %r is rendered (a Python name is bound) but not exported: another generated module that '
                   'imports such a symbol cannot load' % cl)
    for cl in sorted((rendered | (export or set())) - set(classes)):
        chk.note('template mentions class %r that the IR never emits' % cl)
    chk.floor('C04.R2', 20, 'classes x (rendered, exported)')


def builder_keys(model, field):
    keys = set()
    for m in FIELD_BUILDERS.get(field, []):
        for k in ir.record_keys(model, [m]):
            keys.add(k)
    return keys


def r3_field_agreement(chk):
    model = chk.model
    tm = tmodel(chk)
    chk.doc('C04.R3', 'for each class block: every definition[...] path the block (and the macros it calls) reads '
                      'can be produced for that class by the IR builders; the must-read paths of the class are read')
    classes = ir_classes(model)
    macro_paths = {}
    for mname in ('constraints', 'default'):
        m = tm.macro(mname)
        if m is None:
            raise AnalysisError('macro %s missing' % mname)
        macro_paths[mname] = m
    sub_schemas = {
        'syntax': set(k[0] for k in builder_keys(model, 'syntax')),
        'type': set(k[0] for k in ir.record_keys(model, ['genSimpleSyntax', 'genBits'])),
        'augmention': set(['name', 'module', 'object']),
        'default': set(['default']),
    }
    constraint_keys = set(k[0] for k in ir.record_keys(model, ['genIntegerSubType', 'genOctetStringSubType',
                                                               'genEnumSpec']))
    n = 0
    for f, cls, names in tm.class_blocks():
        if len(cls) > 3:
            continue
        root = names[1]
        tests = tm.membership_tests(f, root)
        paths = tm.paths_read(f, root) | tests
        union = set()
        for cl in cls:
            union |= classes.get(cl, set())
        for cl in cls:
            avail = classes.get(cl)
            if avail is None:
                continue
            for p in sorted(paths):
                if p[0] == 'class':
                    continue
                if len(cls) > 1 and p[0] not in avail and p[0] in union:
                    continue  # belongs to a sibling class of the same block (selected by an inner class test)
                if p[:1] in tests and p[0] not in union:
                    continue  # read only under an existence test that is never true for this class: dead, harmless
                n += 1
                ok = p[0] in avail
                detail = 'block for class %r reads %s but the IR stores only %s for that class' % (
                    cl, '.'.join(p), sorted(avail))
                if ok and len(p) > 1 and p[0] in sub_schemas:
                    sub = sub_schemas[p[0]]
                    if p[0] == 'type' and cl in ('type', 'textualconvention'):
                        sub = sub_schemas['type']
                    ok = p[1] in sub or p[1] == '*'
                    detail = '%s: sub-record %r has keys %s' % ('.'.join(p), p[0], sorted(sub))
                    if ok and len(p) > 2 and p[1] == 'constraints':
                        ok = p[2] in constraint_keys or p[2] == '*'
                        detail = '%s: constraints have keys %s' % ('.'.join(p), sorted(constraint_keys))
                chk.ob('C04.R3', 'block(%s)/reads %s' % (cl, '.'.join(p)), ok, '%s:%s' % (tm.rel, f.lineno), detail)
            for must in MUST_READ.get(cl, []):
                got = any(p[:len(must)] == must for p in paths)
                chk.ob('C04.R3', 'block(%s)/must-read %s' % (cl, '.'.join(must)), got, '%s:%s' % (tm.rel, f.lineno),
                       'the block for class %r never reads %s: that part of the declaration is not rendered' % (
                           cl, '.'.join(must)))
    chk.floor('C04.R3', 60, 'paths read by class blocks')


def r4_default_formats(chk):
    model = chk.model
    tm = tmodel(chk)
    ci = model.cls(INTER, 'IntermediateCodeGen')
    o, fn = ci.find_method('genDefVal')
    chk.doc('C04.R4', 'the DEFVAL formats genDefVal can produce are exactly the formats the default() macro handles, '
                      'and the macro reads definition.default.default.{format,value,basetype}')
    produced = set(s_.value.value for s_ in ir.record_stores(fn) if s_.key == ('format',) and
                   isinstance(s_.value, ast.Constant))      # update(format=..) and D['format'] = .. alike
    src = tm.macro_source('default') or ''
    handled = set(re.findall(r"\['format'\] == '(\w+)'", src))
    chk.ob('C04.R4', 'default-formats', produced == handled and len(produced) >= 6, tm.rel,
           'genDefVal produces %s, the macro handles %s' % (sorted(produced), sorted(handled)))
    reads = set(re.findall(r"definition\['default'\]\['default'\]\['(\w+)'\]", src))
    chk.ob('C04.R4', 'default-record-members', reads == set(['format', 'value', 'basetype']), tm.rel,
           'macro reads %s' % sorted(reads))
    keys = set(k[0] for k in ir.record_keys(model, ['genDefVal']))
    chk.ob('C04.R4', 'default-record-produced', set(['basetype', 'value', 'format', 'default']) <= keys, INTER,
           'genDefVal builds keys %s' % sorted(keys))


def r5_import_export_spelling(chk):
    tm = tmodel(chk)
    chk.doc('C04.R5', 'the string under which a symbol is exported ("{{ symbol }}" in exportSymbols) and the string '
                      'under which another generated module imports it ("{{ symbol }}" in importSymbols) receive the '
                      'same hyphen treatment; Python identifiers always carry the normalised name')
    src = tm.src
    imp = re.search(r"\{% block smi_imports scoped %\}(.*?)\{% endblock", src, re.S)
    exp = re.search(r"\{% block exports scoped %\}(.*?)\{% endblock", src, re.S)
    chk.ob('C04.R5', 'template/import-export-blocks', bool(imp and exp), tm.rel, 'blocks not found')
    if not (imp and exp):
        return
    imp_strings = re.findall(r'"\{\{\s*(symbol[^}]*?)\s*\}\}"', imp.group(1))
    exp_strings = re.findall(r'"\{\{\s*(symbol[^}]*?)\s*\}\}"\s*:', exp.group(1))
    imp_norm = set('replace' in x for x in imp_strings)
    # exported names come from the IR keys, which are already normalised; imported names are the MIB spellings
    ok = bool(imp_strings) and imp_norm == set([True])
    chk.ob('C04.R5', 'import-strings-normalised', ok, tm.rel,
           'generated modules export symbols under their normalised names (IR keys) but import them under the MIB '
           'spelling %s: a hyphenated symbol exported as a_b is imported as "a-b" and the module set does not load'
           % sorted(set(imp_strings)))
    idents = re.findall(r'^\(?\s*\{\{\s*(symbol[^}]*?)\s*\}\}', imp.group(1), re.M)
    chk.ob('C04.R5', 'import-identifiers-normalised', bool(idents) and all('replace' in x for x in idents), tm.rel,
           'identifier positions: %s' % sorted(set(idents)))


def r6_sibling_tails(chk, rule6='C04.R6'):
    model = chk.model
    chk.doc(rule6, 'JsonCodeGen.genCode and PySnmpCodeGen.genCode share the rendering tail: list-valued search '
                      'path, same environment options, capfirst filter, get_template(dstTemplate or TEMPLATE_NAME), '
                      'render(mib=context) inside try/except TemplateError -> PySmiCodegenError')
    tails = {}
    for rel, cname in ((PYSNMP, 'PySnmpCodeGen'), (JSONDOC, 'JsonCodeGen')):
        o, fn = model.cls(rel, cname).find_method('genCode')
        sp = [norm(c.args[0]) for c in walk_no_nested(fn) if isinstance(c, ast.Call) and
              dotted_name(c.func) == 'jinja2.FileSystemLoader' and c.args]
        spv = sp[0] if sp else 'searchPath'
        start = [i for i, s in enumerate(fn.body) if isinstance(s, ast.Assign) and _key_is(s.targets[0], spv)]
        if not start:
            chk.ob(rule6, '%s.genCode/tail' % cname, False, where(o.mod, fn), 'no searchPath assignment')
            continue
        tail = fn.body[start[0]:]
        tails[cname] = [common.canon_text(s) for s in tail if not (isinstance(s, ast.Expr) and 'debug.logger' in norm(s))]
    if len(tails) == 2:
        a, b = tails['PySnmpCodeGen'], tails['JsonCodeGen']
        chk.ob(rule6, 'genCode-tails-agree', a == b, PYSNMP,
               'first difference: %s' % (next(((x[:70], y[:70]) for x, y in zip(a, b) if x != y), 'length'),))
    # the environment renders Python / JSON text, not HTML: the options are the three the templates were written for
    # (loader, trim_blocks, lstrip_blocks) - autoescaping would HTML-escape every {{ expression }}
    for rel, cname in ((PYSNMP, 'PySnmpCodeGen'), (JSONDOC, 'JsonCodeGen')):
        ci_ = model.cls(rel, cname)
        envs = [c for m_ in ci_.methods.values() for c in ast.walk(m_) if isinstance(c, ast.Call) and
                dotted_name(c.func) in ('jinja2.Environment', 'Environment')]
        for c in envs:
            kws = dict((k.arg, k.value) for k in c.keywords)
            extra = sorted(k for k in kws if k not in ('loader', 'trim_blocks', 'lstrip_blocks') and not (
                isinstance(kws[k], ast.Constant) and kws[k].value in (False, None)))
            okb = all(isinstance(kws.get(k), ast.Constant) and kws[k].value is True for k in ('trim_blocks', 'lstrip_blocks'))
            chk.ob(rule6, '%s/jinja-environment-options' % cname, not extra and okb and not c.args, where(ci_.mod, c),
                   'environment options %s (expected loader=..., trim_blocks=True, lstrip_blocks=True and nothing that '
                   'changes what an expression renders to, such as autoescape)' % sorted(
                       '%s=%s' % (k, norm(v)[:20]) for k, v in kws.items() if k != 'loader'))
        chk.ob(rule6, '%s/jinja-environment-present' % cname, len(envs) >= 1, rel, '%d Environment(...) calls' % len(envs))
    from rules.C07 import r7_foreign_exceptions
    # template error conversion is C07.R7c; re-run it here under this property's id
    sub = type('Sub', (), {})()
    from vt.runner import Check
    tmp = Check(chk.prop, chk.tier, chk.model, chk.repo)
    r7_foreign_exceptions(tmp)
    for o in tmp.obligations:
        if o.rule == 'C07.R7c':
            chk.ob(rule6, o.key, o.ok, o.where, o.detail)


def r7_one_line_literals(chk):
    """valid Python: texts rendered in one-line literals must be whitespace-normalised by their handler (same rule
    as C15.R3)"""
    from rules.C15 import r3_text_handlers
    r3_text_handlers(chk, rule='C04.R7')


def r8_star_tuples(chk):
    tm = tmodel(chk)
    from jinja2 import nodes as jn
    chk.doc('C04.R8', 'wherever the template renders loop items inside a star-unpacked tuple `*( item, item )`, the '
                      'single-item case is rendered separately (loop.first and loop.last) without the star, or every '
                      'item carries its own trailing comma: `*( ("a", 1) )` unpacks the pair instead of passing it')
    n = 0
    src_lines = tm.src.split('\n')
    fors = list(tm.ast.find_all(jn.For))
    for f in fors:
        datas = [d.data for o in f.find_all(jn.Output) for d in o.nodes if isinstance(d, jn.TemplateData)]
        body_text = ''.join(datas)
        before = '\n'.join(src_lines[max(0, f.lineno - 3):f.lineno - 1])
        if '*(' not in body_text and '*(' not in before:
            continue
        n += 1
        tests = [t for i in f.find_all(jn.If) for t in [i.test]]
        single = any(isinstance(t, jn.And) and sorted(x.attr for x in (t.left, t.right) if isinstance(x, jn.Getattr))
                     == ['first', 'last'] for t in tests)
        always_comma = False
        if not single:
            # every item rendered as `...),` unconditionally
            outs = [d.data.strip() for o in f.find_all(jn.Output) for d in o.nodes if isinstance(d, jn.TemplateData)
                    and d.data.strip()]
            always_comma = bool(outs) and outs[-1].endswith('),') and not list(f.find_all(jn.CondExpr))
        chk.ob('C04.R8', 'star-tuple-loop@%s' % norm_iter(f), single or always_comma, '%s:%s' % (tm.rel, f.lineno),
               'items are rendered inside `*( ... )` without a separate single-item form: with exactly one item the '
               'generated call unpacks that item')
    chk.floor('C04.R8', 4, 'star-unpacked item loops')


def norm_iter(f):
    from jinja2 import nodes as jn
    parts = []
    cur = f.iter
    while cur is not None:
        if isinstance(cur, jn.Filter):
            parts.append('|' + cur.name)
            cur = cur.node
        elif isinstance(cur, jn.Call):
            cur = cur.node
        elif isinstance(cur, jn.Getattr):
            parts.append('.' + cur.attr)
            cur = cur.node
        elif isinstance(cur, jn.Getitem):
            parts.append('[%s]' % (cur.arg.value if isinstance(cur.arg, jn.Const) else '*'))
            cur = cur.node
        elif isinstance(cur, jn.Name):
            parts.append(cur.name)
            cur = None
        else:
            cur = None
    return ''.join(reversed(parts))


def r9_definition_order(chk):
    """generated definitions must come parents-first: the IR lists symbols in symbol-table order (C03.R5) and the
    pysnmp adapter only re-sorts by OID (R1)"""
    from vt.runner import Check
    from rules.C03 import r5_emission
    chk.doc('C04.R9', 'the IR document lists records in the symbol table\'s registration order (parents before the '
                      'symbols that refer to them), which the template relies on for classes derived from local types')
    tmp = Check(chk.prop, chk.tier, chk.model, chk.repo)
    r5_emission(tmp)
    for o in tmp.obligations:
        if o.key.startswith('genCode/') or 'order' in o.key:
            chk.ob('C04.R9', o.key, o.ok, o.where, o.detail)



def r10_rendering_paths_are_python(chk, rule='C04.R10'):
    """Every rendering path of the pysnmp templates is syntactically valid Python (vt/tmplpaths.py): the template is
    walked, not rendered - each-choice coverage of every `if`, 0-3 iterations of every `for` (all arms of the
    loop.first / loop.last idiom), macros expanded, every {{ expression }} replaced by an atom that fits its lexical
    position - and the text of each path is handed to Python's parser.  SyntaxWarnings count (the parser's "perhaps
    you missed a comma?" is exactly what a forgotten separator between two rendered tuples looks like)."""
    import os
    import warnings
    from jinja2 import nodes as jn
    from vt import tmplpaths as tp
    chk.doc(rule, 'pysnmp templates: for every block, every rendering path (each branch of every if, 0/1/2/3 iterations '
                  'of every for, macros expanded) yields text that Python parses without error or SyntaxWarning: a '
                  'generated module cannot fail to load because of the shape of the template')
    total = 0
    for rel in ('pysmi/codegen/templates/pysnmp/mib-definitions.j2',
                'pysmi/codegen/templates/pysnmp/managed-objects-instances.j2',
                'pysmi/codegen/templates/pysnmp/base.j2'):
        path = os.path.join(chk.repo, rel)
        if not os.path.exists(path):
            continue
        chk.unit(rel)
        env, tree, src = tp.parse(path)
        w = tp.Walker(env, tree, src, tp.marker_placeholder)
        blocks = list(tree.find_all(jn.Block))
        units = [(b.name, b.body) for b in blocks] or [('<template>', tree.body)]
        if blocks:
            # text outside blocks
            units.append(('<outside blocks>', [n for n in tree.body if not isinstance(n, jn.Block)]))
        for name, body in units:
            scs = w.scenarios(body)
            bad = None
            for sc, text in scs:
                py = tp.fill_python_placeholders(text)
                total += 1
                if tp.fill_python_placeholders.glued and bad is None:
                    bad = 'an expression is pasted into a numeric literal (`%s{{ ... }}`): its text is read as digits of ' \
                          'that literal, in the base the prefix says' % tp.fill_python_placeholders.glued[0].strip()
                    break
                try:
                    with warnings.catch_warnings():
                        warnings.simplefilter('error')
                        compile(py, '<rendered %s>' % name, 'exec')
                except (SyntaxError, SyntaxWarning) as e:
                    ln = getattr(e, 'lineno', None)
                    lines = py.split('\n')
                    ctx = ' / '.join(x.strip() for x in lines[max(0, (ln or 1) - 3):(ln or 1) + 1] if x.strip())
                    bad = '%s: %s; choices %s %s; rendered near: %s' % (
                        type(e).__name__, getattr(e, 'msg', None) or e,
                        dict((k[1], v) for k, v in sc.ifs.items()), dict((k[1], v) for k, v in sc.loops.items()),
                        ctx[:200])
                    break
            chk.ob(rule, '%s/%s' % (rel.split('/')[-1], name), bad is None, rel,
                   bad or 'all %d rendering paths parse' % len(scs))
    chk.note('%s: %d rendering paths parsed' % (rule, total))
    chk.floor(rule, 20, 'template blocks')



KIND_MARKERS = {
    # IR class / node type -> the pysnmp SMI class that makes a loaded symbol be of that kind
    ('class', 'moduleidentity'): 'ModuleIdentity', ('class', 'objectidentity'): 'ObjectIdentity',
    ('class', 'textualconvention'): 'TextualConvention', ('class', 'objectgroup'): 'ObjectGroup',
    ('class', 'notificationtype'): 'NotificationType', ('class', 'notificationgroup'): 'NotificationGroup',
    ('class', 'agentcapabilities'): 'AgentCapabilities', ('class', 'modulecompliance'): 'ModuleCompliance',
    ('nodetype', 'scalar'): 'MibScalar', ('nodetype', 'table'): 'MibTable', ('nodetype', 'row'): 'MibTableRow',
    ('nodetype', 'column'): 'MibTableColumn',
}


def r16_kind_on_every_rendering_path(chk):
    """the kind of a generated symbol is decided by the record's class / node type alone: every rendering path of the
    region the template selects for a class (or node type) names that kind's pysnmp class, and no other kind's"""
    import os
    import warnings
    from jinja2 import nodes as jn
    from vt import tmplpaths as tp
    chk.doc('C04.R16', 'pysnmp template: in the region selected by definition["class"] == K (loop filter or if-branch) or '
                       'definition["nodetype"] == N, every rendering path (each branch of every inner if, 0-3 iterations '
                       'of every inner for) mentions, as Python code, the pysnmp class of that kind (ModuleIdentity, '
                       'TextualConvention, MibScalar / MibTable / MibTableRow / MibTableColumn, ObjectIdentity, '
                       'ObjectGroup, NotificationType, NotificationGroup, AgentCapabilities, ModuleCompliance) and the '
                       'class of no other kind: the kind a loaded symbol has cannot depend on anything but the record\'s '
                       'class - e.g. not on whether its base type is defined in the same module')
    rel = 'pysmi/codegen/templates/pysnmp/mib-definitions.j2'
    env, tree, src = tp.parse(os.path.join(chk.repo, rel))
    w = tp.Walker(env, tree, src, tp.marker_placeholder)
    allm = set(KIND_MARKERS.values())

    def selector(test):
        """('class'|'nodetype', value) when the test is definition[<that>] == <const>"""
        if isinstance(test, jn.Compare) and len(test.ops) == 1 and test.ops[0].op == 'eq' and \
                isinstance(test.ops[0].expr, jn.Const) and isinstance(test.expr, jn.Getitem) and \
                isinstance(test.expr.arg, jn.Const) and test.expr.arg.value in ('class', 'nodetype'):
            return (test.expr.arg.value, test.ops[0].expr.value)
        return None
    regions = []
    for f in tree.find_all(jn.For):
        sel = selector(f.test) if f.test is not None else None
        if sel in KIND_MARKERS:
            # the export list and import lists are loops too: only loops that bind a name at statement level count
            regions.append((sel, f.body, f.lineno))
    for i_ in tree.find_all(jn.If):
        for test, body in [(i_.test, i_.body)] + [(e.test, e.body) for e in i_.elif_]:
            sel = selector(test)
            if sel in KIND_MARKERS:
                regions.append((sel, body, test.lineno))
    n = 0
    for sel, body, ln in sorted(regions, key=lambda r: r[2]):
        want = KIND_MARKERS[sel]
        bad = None
        paths = 0
        any_code = False
        for sc, text in w.scenarios(body):
            py = tp.fill_python_placeholders(text)
            if not py.strip():
                continue
            try:
                with warnings.catch_warnings():
                    warnings.simplefilter('ignore')
                    t = ast.parse(py)
            except SyntaxError:
                continue    # C04.R10 reports paths that do not parse
            paths += 1
            names = set(x.id for x in ast.walk(t) if isinstance(x, ast.Name)) & allm
            binds = any(isinstance(x, (ast.Assign, ast.ClassDef)) for x in t.body)
            if not binds:
                continue    # a region that only lists names (export / import lists)
            any_code = True
            if names != {want} and bad is None:
                bad = 'a rendering path names %s instead of exactly %s (choices %s)' % (
                    sorted(names) or 'no kind class', want, dict((k[1], v) for k, v in sc.ifs.items()))
        if not any_code:
            continue
        n += 1
        chk.ob('C04.R16', 'region %s == %r' % sel, bad is None, '%s:%d' % (rel, ln),
               bad or 'all %d rendering paths name %s' % (paths, want))
    chk.floor('C04.R16', 10, 'regions selected by class / node type')



def r17_names_only_hyphen_mapped(chk):
    """shared with C03.R17: the import block of the template spells a symbol as the MIB does (hyphens mapped), so the
    generator must not rename symbols in any other way - a name exported as pysmi_<keyword> is imported as <keyword>"""
    from rules.C03 import r17_declared_names
    common.reuse(chk, r17_declared_names, ('C03.R17',), 'C04.R17',
                 'IntermediateCodeGen.transOpers maps "-" to "_" and nothing else (C03.R17): the pysnmp template writes '
                 'the names a module imports from the MIB spelling with the same mapping, so any further renaming in the '
                 'generator makes a module export a symbol under one name while its importers ask for another (or '
                 'render a Python keyword as an assignment target)', floor=1)



def r11_generators_start_clean(chk):
    """shared with C12.R2"""
    from rules.C12 import r2_generator_reset
    common.reuse(chk, r2_generator_reset, ('C12.R2',), 'C04.R11', 'both generators re-initialise, at the start of genCode, every attribute their handlers write and assign the per-call settings on every path (C12.R2): a text filter or template setting that survives from an earlier call makes the two back-ends disagree with what this call asked for', floor=12)



def r12_default_formats_converted(chk):
    """the template writes `defaultHexValue = <value>` unquoted for integer types: genDefVal must have converted the
    digits to a number (shared with C05.R12, the DEFVAL decision table)"""
    from rules.C05 import r12_defval_decision_table
    common.reuse(chk, r12_defval_decision_table, ('C05.R12',), 'C04.R12',
                 'genDefVal decision table (C05.R12): each DEFVAL notation x base type yields the format / value the '
                 'default() macro of the pysnmp template expects (hex / binary literals of integer types become decimal '
                 'numbers, of other types hex digits)', floor=5)



def r13_meta_members(chk):
    """the templates address the module itself through mib["meta"]: the IR must supply what they read there"""
    import os
    import re as _re
    model = chk.model
    ci = model.cls(INTER, 'IntermediateCodeGen')
    o, fn = ci.find_method('genCode')
    chk.doc('C04.R13', 'every mib["meta"]["<k>"] a pysnmp / JSON template reads is stored by IntermediateCodeGen.genCode as '
                       'outDict["meta"]["<k>"]; `module` is the name of the module being compiled and is stored '
                       'unconditionally (the templates use it in registerAugmentions and exportSymbols)')
    stores = dict((s.key[1], s) for s in ir.record_stores(fn) if len(s.key) == 2 and s.key[0] == 'meta')
    read = {}
    tdir = os.path.join(chk.repo, 'pysmi/codegen/templates')
    for dp, dn, fns in os.walk(tdir):
        for f in sorted(fns):
            if f.endswith('.j2'):
                src = open(os.path.join(dp, f)).read()
                for m in _re.finditer(r"mib\[['\"]meta['\"]\]\[['\"](\w+)['\"]\]", src):
                    read.setdefault(m.group(1), os.path.relpath(os.path.join(dp, f), chk.repo))
    for k, rel in sorted(read.items()):
        chk.ob('C04.R13', 'meta.%s read by templates' % k, k in stores, rel,
               'mib["meta"]["%s"] is read by %s but never stored by IntermediateCodeGen.genCode' % (k, rel))
    ms = stores.get('module')
    chk.ob('C04.R13', 'meta.module', ms is not None and norm(ms.value) == 'self.moduleName[0]' and not ms.guards,
           where(ci.mod, ms.node) if ms is not None else where(ci.mod, fn),
           'meta.module must be self.moduleName[0], stored unconditionally')
    chk.floor('C04.R13', 2, 'meta members')



def r14_imports_reach_both_backends(chk):
    """the constant imports a generated pysnmp module needs reach it through the IMPORTS mapping both passes work on
    (shared with C16.R5 / C08.R1)"""
    from rules.C16 import r5_apply_table as r5_import_rewriting
    from rules.C08 import r1_worklist_growth
    common.reuse(chk, r5_import_rewriting, ('C16.R5',), 'C04.R14',
                 'SymtableCodeGen.genImports and IntermediateCodeGen.genImports apply the import conversion with the same '
                 'code on the same mapping (C16.R5); the module list handed on enumerates every key of it (C08.R1)', floor=1)
    r1_worklist_growth(chk, rule='C04.R14')



def r15_augmention_record(chk):
    """the template pastes augmention.object as a Python identifier (shared with C06.R2)"""
    from rules.C06 import r2_table_index
    common.reuse(chk, r2_table_index, ('C06.R2',), 'C04.R15',
                 'augmention.object is the normalised name of the augmented row - the template uses it as an identifier '
                 '(C06.R2)', keep=lambda o: 'augmention' in o.key, floor=1)


RULES = [r1_shared_ir, r2_class_exhaustiveness, r3_field_agreement, r4_default_formats, r5_import_export_spelling,
         r6_sibling_tails, r7_one_line_literals, r8_star_tuples, r9_definition_order, r10_rendering_paths_are_python, r11_generators_start_clean, r12_default_formats_converted, r13_meta_members, r14_imports_reach_both_backends, r15_augmention_record, r16_kind_on_every_rendering_path, r17_names_only_hyphen_mapped]
