"""C01 - valid module sets compile, and every symbol gets the OID the text defines."""
import ast

from vt.cfg import CFG
from vt.grammar import shipped_dialects, PARSER
from vt.model import walk_no_nested, norm, dotted_name
from vt.runner import where, AnalysisError
from rules import common, ir
from rules import compile_roles as cr
from rules.C07 import _key_is
from rules.C17 import shapes, dialect_list

EXPLANATION = (
    "Rules on the OID path: the grammar delivers the three sub-identifier spellings as three distinguishable shapes "
    "(name -> str, number -> int, name(number) -> (str, int)) in a left-to-right list; both genOid functions dispatch "
    "on exactly these shapes (final else raises), take the number of name(number), and attribute names through the "
    "import map under the normalised spelling - and agree with each other; genNumericOid extends its result in loop "
    "order, resolves (name, module) pairs through symbolTable[module][name]['oid'] using both components, maps iso "
    "to 1, never consults order-dependent scratch state and caches nothing under an incomplete key; TRAP-TYPE OIDs "
    "are <enterprise>.0.<n> unconditionally in both generators; postponed symbol registration runs to a fixpoint "
    "and leftovers / unknown parents raise; every OID string is converted to an int tuple for pysnmp; the per-module "
    "OID summary is fed by every registered record and handed to the caller attribute by attribute.")
ASSUMPTIONS = ["numeric correctness of the recursion for arbitrary trees and that every well-formed module set "
               "compiles are not decided beyond these mechanisms"]
TECHNIQUE = 'shape analysis of grammar actions, sibling AST agreement, CFG fixpoint-idiom rule, attribute-chain plumbing'

INTER, SYMTAB = ir.INTER, ir.SYMTAB


def r1_subidentifier_shapes(chk):
    model = chk.model
    chk.unit(PARSER, INTER, SYMTAB)
    chk.doc('C01.R1', 'subidentifier = name | NUMBER | name "(" NUMBER ")" in every dialect, yielding p1 / p1 / '
                      '(p1, p3); subidentifiers appends in source order; objectIdentifier = ("objectIdentifier", list)')
    for dname, opts in dialect_list(chk):
        gs = shapes(model, opts)
        alts = dict((p.rhs, repr(gs.terms[p])) for p in gs.by_lhs.get('subidentifier', []))
        want = {('fuzzy_lowercase_identifier',): 'p1', ('NUMBER',): 'p1',
                ('LOWERCASE_IDENTIFIER', "'('", 'NUMBER', "')'"): '(p1, p3)'}
        chk.ob('C01.R1', '%s/subidentifier' % dname, alts == want, PARSER, 'alternatives/terms: %s' % alts)
        terms = dict((p.rhs, repr(gs.terms[p])) for p in gs.by_lhs.get('subidentifiers', []))
        chk.ob('C01.R1', '%s/subidentifiers' % dname, terms == {('subidentifiers', 'subidentifier'): 'p1 + [p2]',
                                                                ('subidentifier',): '[p1]'}, PARSER, '%s' % terms)
        t = [repr(gs.terms[p]) for p in gs.by_lhs.get('objectIdentifier', [])]
        chk.ob('C01.R1', '%s/objectIdentifier' % dname, t == ["('objectIdentifier', p1)"], PARSER, '%s' % t)
        av = gs.av['subidentifier']
        ok = av.s == 'ne' and av.i == 'z' and list(av.tuples) == [(2, None)] and not av.none and not av.lst
        chk.ob('C01.R1', '%s/subidentifier-shapes' % dname, ok, PARSER, 'shape %s' % av.describe())


def genoid_branches(fn):
    """[(type test text, appended expression text)] of the isinstance chain inside the loop of genOid"""
    out = []
    loops = [n for n in walk_no_nested(fn) if isinstance(n, ast.For)]
    if len(loops) != 1:
        return None, None
    lp = loops[0]
    el = lp.target.id if isinstance(lp.target, ast.Name) else None
    cur = lp.body[0] if lp.body and isinstance(lp.body[0], ast.If) else None
    while cur is not None:
        test = norm(cur.test)
        app = [norm(s.value) for s in cur.body if isinstance(s, ast.AugAssign) and isinstance(s.op, ast.Add)]
        out.append((test, app, cur))
        nxt = cur.orelse
        if len(nxt) == 1 and isinstance(nxt[0], ast.If):
            cur = nxt[0]
        else:
            out.append(('else', [norm(s) for s in nxt], None))
            cur = None
    return el, out


def r2_genoid(chk):
    model = chk.model
    chk.doc('C01.R2', 'both genOid: for each element of data[0] in order: str -> ((transOpers(el), importMap.get('
                      'that, own module)),), int -> (el,), tuple -> (el[1],), anything else raises '
                      'PySmiSemanticError; the two functions agree')
    sigs = {}
    for rel, cname in ((SYMTAB, 'SymtableCodeGen'), (INTER, 'IntermediateCodeGen')):
        ci = model.cls(rel, cname)
        o, fn = ci.find_method('genOid')
        chk.subject(fn, '%s.genOid' % cname)
        el, br = genoid_branches(fn)
        ok = br is not None and len(br) == 4
        chk.ob('C01.R2', '%s.genOid/dispatch' % cname, ok, where(ci.mod, fn), 'three type branches + else expected')
        if not ok:
            continue
        lp = [n for n in walk_no_nested(fn) if isinstance(n, ast.For)][0]
        chk.ob('C01.R2', '%s.genOid/iterates-in-order' % cname, norm(lp.iter) == '%s[0]' % fn.args.args[1].arg,
               where(ci.mod, lp), 'must walk data[0] in order')
        tests = [b[0] for b in br]
        want_tests = ['isinstance(%s, (str, unicode))' % el, 'isinstance(%s, (int, long))' % el,
                      'isinstance(%s, tuple)' % el, 'else']
        chk.ob('C01.R2', '%s.genOid/type-tests' % cname, tests == want_tests, where(ci.mod, fn), '%s' % tests)
        # str branch
        sb = br[0][2]
        asg = [s for s in sb.body if isinstance(s, ast.Assign) and isinstance(s.targets[0], ast.Name) and
               norm(s.value) == 'self.transOpers(%s)' % el]
        pv = asg[0].targets[0].id if asg else None
        want = '((%s, self._importMap.get(%s, self.moduleName[0])),)' % (pv, pv)
        chk.ob('C01.R2', '%s.genOid/name-branch' % cname, bool(asg) and br[0][1] == [want], where(ci.mod, sb),
               'a named parent must become (normalised name, module it is imported from or own module): %s' % br[0][1])
        chk.ob('C01.R2', '%s.genOid/number-branch' % cname, br[1][1] == ['(%s,)' % el], where(ci.mod, fn),
               '%s' % br[1][1])
        chk.ob('C01.R2', '%s.genOid/name(number)-branch' % cname, br[2][1] == ['(%s[1],)' % el], where(ci.mod, fn),
               'name(number) must contribute its number: %s' % br[2][1])
        rs = [x for x in walk_no_nested(fn) if isinstance(x, ast.Raise)]
        ok = len(rs) == 1 and 'PySmiSemanticError' in model.exc_ancestors(
            ci.mod, rs[0].exc.func if isinstance(rs[0].exc, ast.Call) else rs[0].exc) and br[3][1] and \
            br[3][1][0].startswith('raise ')
        chk.ob('C01.R2', '%s.genOid/else-raises' % cname, ok, where(ci.mod, fn), '')
        sigs[cname] = [(t.replace(el, 'EL'), [a.replace(el, 'EL').replace(pv or '?', 'P') for a in ap])
                       for t, ap, _ in br[:3]]
    chk.ob('C01.R2', 'genOid-siblings-agree', len(sigs) == 2 and sigs['SymtableCodeGen'] == sigs['IntermediateCodeGen'],
           SYMTAB, '%s' % sigs)
    # intermediate: numeric conversion of the whole symbolic OID
    ci = model.cls(INTER, 'IntermediateCodeGen')
    o, fn = ci.find_method('genOid')
    rets = [x for x in walk_no_nested(fn) if isinstance(x, ast.Return)]
    ok = len(rets) == 1 and common.pmatch(rets[0].value, "('.'.join([str($x) for $x in self.genNumericOid($o)]), $p)") is not None
    chk.ob('C01.R2', 'IntermediateCodeGen.genOid/dotted-result', ok, where(ci.mod, fn),
           'result must be the dotted numeric OID of the whole list: %s' % [norm(r.value)[:80] for r in rets])


def r3_numeric(chk):
    model = chk.model
    ci = model.cls(INTER, 'IntermediateCodeGen')
    mod = ci.mod
    o, fn = ci.find_method('genNumericOid')
    chk.subject(fn, 'IntermediateCodeGen.genNumericOid')
    from rules.C05 import resolve_impl, memo_keys
    fn = resolve_impl(ci, fn)
    chk.doc('C01.R3', 'genNumericOid(oid): result only right-extended, in loop order; a (name, module) pair resolves '
                      'through self.symbolTable[module][name]["oid"] recursively (iso -> 1) after membership guards '
                      'that raise package errors; other parts are appended unchanged; no use of self._out / '
                      '_seenSyms / _oids; no cache keyed by the name alone')
    p = fn.args.args[1].arg
    loops = [n for n in fn.body if isinstance(n, ast.For)]
    ok = len(loops) == 1 and _key_is(loops[0].iter, p)
    chk.ob('C01.R3', 'genNumericOid/loop', ok, where(mod, fn), 'one loop over the symbolic OID in order')
    if not ok:
        return
    lp = loops[0]
    acc = [s.targets[0].id for s in fn.body if isinstance(s, ast.Assign) and isinstance(s.targets[0], ast.Name) and
           isinstance(s.value, ast.Tuple) and not s.value.elts]
    chk.ob('C01.R3', 'genNumericOid/accumulator', len(acc) == 1, where(mod, fn), 'accumulators %s' % acc)
    a = acc[0] if acc else None
    bad = []
    exts = []
    for s in walk_no_nested(fn):
        if isinstance(s, ast.AugAssign) and _key_is(s.target, a):
            exts.append(norm(s.value))
            if not isinstance(s.op, ast.Add):
                bad.append(norm(s))
        elif isinstance(s, ast.Assign) and any(_key_is(t, a) for t in s.targets) and s not in fn.body[:2]:
            bad.append(norm(s))
    part = lp.target.id if isinstance(lp.target, ast.Name) else None
    unp = [s for s in walk_no_nested(lp) if isinstance(s, ast.Assign) and isinstance(s.targets[0], ast.Tuple) and
           _key_is(s.value, part)]
    okp = len(unp) == 1 and len(unp[0].targets[0].elts) == 2
    nm, md = ([e.id for e in unp[0].targets[0].elts] if okp else (None, None))
    want = set(['(1,)', '(%s,)' % part, "self.genNumericOid(self.symbolTable[%s][%s]['oid'])" % (md, nm)])
    import re as _re
    cache_reads = [e for e in exts if _re.match(r'self\._\w+\[', e) and 'symbolTable' not in e]
    exts = [e for e in exts if e not in cache_reads]   # a memo table is judged by the cache-key rule below
    if cache_reads:
        want = set(x for x in want if x in exts or not x.startswith('self.genNumericOid'))
    chk.ob('C01.R3', 'genNumericOid/extensions', not bad and set(exts) == want, where(mod, fn),
           'the result is built by %s (expected %s); other writes: %s' % (sorted(exts), sorted(want), bad))
    rets = [x for x in walk_no_nested(fn) if isinstance(x, ast.Return)]
    chk.ob('C01.R3', 'genNumericOid/returns-accumulator', len(rets) == 1 and _key_is(rets[0].value, a), where(mod, fn), '')
    # iso branch
    iso = [n for n in walk_no_nested(lp) if isinstance(n, ast.If) and norm(n.test) == "%s == 'iso'" % nm]
    ok = len(iso) == 1 and any(isinstance(s, ast.AugAssign) and norm(s.value) == '(1,)' for s in iso[0].body) and \
        isinstance(iso[0].body[-1], ast.Continue)
    chk.ob('C01.R3', 'genNumericOid/iso', ok, where(mod, lp), 'iso must resolve to 1')
    # guards
    rs = [x for x in walk_no_nested(fn) if isinstance(x, ast.Raise)]
    tests = [norm(getattr(x, '_parent', None).test) for x in rs if isinstance(getattr(x, '_parent', None), ast.If)]
    ok = '%s not in self.symbolTable' % md in tests and '%s not in self.symbolTable[%s]' % (nm, md) in tests and all(
        'PySmiSemanticError' in model.exc_ancestors(mod, x.exc.func if isinstance(x.exc, ast.Call) else x.exc) for x in rs)
    chk.ob('C01.R3', 'genNumericOid/unknown-parent-raises', ok, where(mod, fn), 'guards: %s' % tests)
    # pair test
    pt = [n for n in lp.body if isinstance(n, ast.If) and norm(n.test) == 'isinstance(%s, tuple)' % part]
    chk.ob('C01.R3', 'genNumericOid/pair-dispatch', len(pt) == 1 and pt[0].orelse, where(mod, lp), '')
    # order-dependent scratch state
    scratch = [n for n in walk_no_nested(fn) if common.is_self_attr(n) and n.attr in ('_out', '_seenSyms', '_oids',
                                                                                       '_rows', '_cols')]
    chk.ob('C01.R3', 'genNumericOid/no-scratch-state', not scratch, where(mod, fn),
           'numeric resolution reads %s, which depends on what was generated so far' % sorted(set(
               n.attr for n in scratch)))
    memo_keys(chk, ci, 'C01.R3')


def r4_trap(chk, rule='C01.R4'):
    model = chk.model
    chk.doc(rule, 'TRAP-TYPE: symbol table OID = enterprise + (0, value); generated OID = <dotted enterprise> + ".0." + '
                  'str(value), unconditionally; value is the NUMBER of the trap clause')
    o, f1 = model.cls(SYMTAB, 'SymtableCodeGen').find_method('genTrapType')
    st = [s for s in ir.record_stores(f1) if s.key == ('oid',)]
    u1 = unpack_names(f1)
    ok = len(st) == 1 and u1 is not None and len(u1) == 6 and norm(st[0].value) == '%s + (0, %s)' % (u1[1], u1[5]) \
        and not st[0].guards
    chk.ob(rule, 'SymtableCodeGen.genTrapType/oid', ok, where(o.mod, f1), 'oid is %s' % [norm(s.value) for s in st])
    o2, f2 = model.cls(INTER, 'IntermediateCodeGen').find_method('genTrapType')
    st = [s for s in ir.record_stores(f2) if s.key == ('oid',)]
    u2 = unpack_names(f2)
    b = common.pfind([s for s in walk_no_nested(f2) if isinstance(s, ast.Assign)], '$es, $po = %s' % (u2[1] if u2 else '?'))
    es = b['es'] if b else '?'
    ok = len(st) == 1 and u2 is not None and len(u2) == 6 and \
        norm(st[0].value) == "%s + '.0.' + str(%s)" % (es, u2[5]) and not st[0].guards
    # the enterprise string must be the first component of the enterprise OID handler result, not modified
    mods = [s for s in walk_no_nested(f2) if isinstance(s, (ast.Assign, ast.AugAssign)) and any(
        _key_is(t, es) for t in (s.targets if isinstance(s, ast.Assign) else [s.target]))]
    un = [1] if b else []
    chk.ob(rule, 'IntermediateCodeGen.genTrapType/oid', ok and len(un) == 1 and not mods, where(o2.mod, f2),
           'trap OID is %s%s' % ([norm(s.value) for s in st], '; enterprise string altered: %s' % [
               norm(m) for m in mods] if mods else ''))
    for f, owner in ((f1, o), (f2, o2)):
        un_ = unpack_names(f)
        chk.ob(rule, '%s.genTrapType/unpack' % owner.name, un_ is not None and len(un_) == 6, where(owner.mod, f),
               'the handler must unpack (name, enterprise, variables, description, reference, value)')
    gs = shapes(model, shipped_dialects(model)['smiV1Relaxed'])
    for p in gs.d.prods:
        if p.lhs == 'trapTypeClause':
            t = gs.terms[p]
            last = p.rhs[t.items[-1].i - 1] if hasattr(t.items[-1], 'i') else None
            second = p.rhs[t.items[2].i - 1] if hasattr(t.items[2], 'i') else None
            chk.ob(rule, 'trapTypeClause/positions', last == 'NUMBER' and second in ('objectIdentifier', 'EnterprisePart'),
                   '%s:%s' % (PARSER, p.fn.lineno), 'enterprise <- %s, value <- %s' % (second, last))


def unpack_names(fn):
    """names of the leading `a, b, c = data` unpack of a handler"""
    d = fn.args.args[1].arg
    for s in fn.body:
        if isinstance(s, ast.Assign) and isinstance(s.targets[0], ast.Tuple) and _key_is(s.value, d):
            return [e.id if isinstance(e, ast.Name) else None for e in s.targets[0].elts]
    return None


def r5_fixpoint(chk):
    model = chk.model
    ci = model.cls(SYMTAB, 'SymtableCodeGen')
    mod = ci.mod
    chk.doc('C01.R5', 'regSym registers a symbol whose parents exist and then drains the postponed set; the drain is '
                      'repeated until no symbol can be registered any more (recursion guarded on progress, or an '
                      'enclosing loop); genCode raises for symbols still postponed and for parent names that are '
                      'neither local nor imported')
    o, rs = ci.find_method('regSym')
    o, rp = ci.find_method('regPostponedSyms')
    chk.subject(rs, 'SymtableCodeGen.regSym')
    chk.subject(rp, 'SymtableCodeGen.regPostponedSyms')
    # regSym: the branch that stores into _out calls the drain afterwards
    stores = [s for s in walk_no_nested(rs) if isinstance(s, ast.Assign) and isinstance(s.targets[0], ast.Subscript)
              and common.is_self_attr(s.targets[0].value, '_out')]
    ok = False
    for s in stores:
        from rules.C07 import block_of
        blk = block_of(s)
        idx = [i for i, x in enumerate(blk) if x is s][0]
        if any(isinstance(x, ast.Expr) and 'self.regPostponedSyms()' in norm(x) or
               isinstance(x, (ast.While, ast.For)) and 'regPostponedSyms' in norm(x) for x in blk[idx:]):
            ok = True
    chk.ob('C01.R5', 'regSym/drain-after-registration', ok and len(stores) == 1, where(mod, rs),
           'an immediate registration must be followed by a drain of the postponed symbols')
    post = [s for s in walk_no_nested(rs) if isinstance(s, ast.Assign) and isinstance(s.targets[0], ast.Subscript) and
            common.is_self_attr(s.targets[0].value, '_postponedSyms')]
    chk.ob('C01.R5', 'regSym/postpones-otherwise', len(post) == 1 and bool(ir.guards_of(post[0], rs)), where(mod, rs), '')
    dup = [x for x in walk_no_nested(rs) if isinstance(x, ast.Raise)]
    # a symbol already registered or already postponed is refused (the source model shows `if a or b: raise` as two guards)
    sym = rs.args.args[1].arg
    tests = set()
    for x in dup:
        for t, b in ir.guards_of(x, rs):
            tests.update(norm(c) for c in ir.conjuncts(t))
    ok = bool(dup) and '%s in self._out' % sym in tests and '%s in self._postponedSyms' % sym in tests
    chk.ob('C01.R5', 'regSym/duplicate-raises', ok, where(mod, rs), 'guards of the duplicate-symbol error: %s' % sorted(tests))
    # drain reaches a fixpoint
    self_calls = [c for c in walk_no_nested(rp) if isinstance(c, ast.Call) and norm(c.func) == 'self.regPostponedSyms']
    loops = [n for n in walk_no_nested(rp) if isinstance(n, ast.While)]
    progress_vars = set()
    for s in walk_no_nested(rp):
        if isinstance(s, ast.Expr) and isinstance(s.value, ast.Call) and isinstance(s.value.func, ast.Attribute) and \
                s.value.func.attr == 'append' and isinstance(s.value.func.value, ast.Name):
            progress_vars.add(s.value.func.value.id)
    fix = False
    for c in self_calls:
        g = ir.guards_of(common.stmt_of(c), rp)
        if any(isinstance(t, ast.Name) and t.id in progress_vars and b for t, b in g):
            fix = True
    if loops:
        fix = True
    chk.ob('C01.R5', 'regPostponedSyms/fixpoint', fix, where(mod, rp),
           'the postponed symbols are drained in a single pass: a chain of forward references (A ::= B, B ::= C, '
           'C ::= INTEGER) leaves A postponed although its parent has just been registered')
    pops = [c for c in walk_no_nested(rp) if isinstance(c, ast.Call) and norm(c.func) == 'self._postponedSyms.pop']
    chk.ob('C01.R5', 'regPostponedSyms/removes-registered', len(pops) == 1, where(mod, rp), '')
    # genCode checks
    o, gc = ci.find_method('genCode')
    rs2 = [x for x in walk_no_nested(gc) if isinstance(x, ast.Raise)]
    tests = []
    for x in rs2:
        for t, b in ir.guards_of(x, gc):
            tests.append(norm(t))
    ok = 'self._postponedSyms' in tests and common.pfind(tests, '$s not in self._out and $s not in self._importMap') is not None
    chk.ob('C01.R5', 'genCode/leftover-and-unknown-parent-raise', ok, where(mod, gc), 'guards: %s' % tests)
    decl = [n for n in walk_no_nested(gc) if isinstance(n, ast.For) and 'declarations' in norm(n.iter)]
    ok = bool(decl) and all(x.lineno > decl[0].end_lineno for x in rs2)
    chk.ob('C01.R5', 'genCode/checks-after-all-declarations', ok, where(mod, gc), '')
    # allParentsExists consults complete knowledge: _out, _importMap, base types, table kinds, rows
    o, ap = ci.find_method('allParentsExists')
    txt = norm(ap)
    b = common.pmatch(txt, '$p in self._out', full=False)
    pv = b['p'] if b else '?'
    need = ['%s in self._out' % pv, '%s in self._importMap' % pv, '%s in self.baseTypes' % pv, '%s in self._rows' % pv]
    chk.ob('C01.R5', 'allParentsExists', all(n in txt for n in need), where(mod, ap), '')
    # polarity, by reachability under a valuation of the predicates
    call_txt = 'self.allParentsExists(%s)' % rs.args.args[3].arg if len(rs.args.args) > 3 else None
    rcfg = CFG(rs)
    if call_txt and stores and post:
        common.requires(chk, 'C01.R5', 'regSym/registers-when-parents-exist', rcfg, mod, [rcfg.node_of(stores[0])],
                        {call_txt: True})
        common.requires(chk, 'C01.R5', 'regSym/postpones-when-a-parent-is-missing', rcfg, mod, [rcfg.node_of(post[0])],
                        {call_txt: False})
    pcfg = CFG(rp)
    pst = [s_ for s_ in walk_no_nested(rp) if isinstance(s_, ast.Assign) and isinstance(s_.targets[0], ast.Subscript) and
           common.is_self_attr(s_.targets[0].value, '_out')]
    pcalls = [norm(c) for c in walk_no_nested(rp) if isinstance(c, ast.Call) and norm(c.func) == 'self.allParentsExists']
    if pcalls:
        common.requires(chk, 'C01.R5', 'regPostponedSyms/registers-when-parents-exist', pcfg, mod,
                        [pcfg.node_of(x) for x in pst], {pcalls[0]: True})
    # allParentsExists: the flag starts true, becomes false exactly when a parent is in none of the known sets, and is
    # what the function returns
    acfg = CFG(ap)
    flags = [s_ for s_ in walk_no_nested(ap) if isinstance(s_, ast.Assign) and isinstance(s_.value, ast.Constant) and
             isinstance(s_.value.value, bool) and isinstance(s_.targets[0], ast.Name)]
    fv = flags[0].targets[0].id if flags else None
    init = [s_ for s_ in ap.body if s_ in flags and s_.value.value is True]
    falses = [s_ for s_ in flags if s_.value.value is False]
    rets = [x for x in walk_no_nested(ap) if isinstance(x, ast.Return)]
    chk.ob('C01.R5', 'allParentsExists/flag', len(init) == 1 and len(falses) == 1 and len(rets) == 1 and fv is not None and
           norm(rets[0].value) == fv, where(mod, ap), 'flag = True; ... flag = False; return flag')
    if falses:
        for atom in need + ["%s in ('MibTable', 'MibTableRow', 'MibTableColumn')" % pv]:
            seen = common.reach_under(acfg, [acfg.entry], {atom: True})
            # when the parent is in one of the sets the flag must not be cleared *for that parent*: with a single
            # disjunct true the `not (a or b ...)` test is false
            chk.ob('C01.R5', 'allParentsExists/known-parent(%s)' % atom.split(' in ')[-1][:20],
                   acfg.node_of(falses[0]) not in seen, where(mod, falses[0]),
                   'a parent that is %s is reported missing' % atom)
        seen = common.reach_under(acfg, [acfg.entry], dict((a, False) for a in need + [
            "%s in ('MibTable', 'MibTableRow', 'MibTableColumn')" % pv]))
        chk.ob('C01.R5', 'allParentsExists/unknown-parent', acfg.node_of(falses[0]) in seen, where(mod, ap),
               'a parent that is in none of the sets must clear the flag')


def r7_plumbing(chk, rule='C01.R7'):
    model = chk.model
    chk.doc(rule, 'IntermediateCodeGen.regSym adds the oid of every record to _oids (and identity / compliance / '
                  'enterprise bookkeeping); genCode hands _oids, _moduleIdentityOid, _enterpriseOid, _complianceOids '
                  'to MibInfo as oids, identity, enterprise, compliance; compile() copies each attribute of that '
                  'MibInfo into the compiled status under the same name')
    ci = model.cls(INTER, 'IntermediateCodeGen')
    o, rs = ci.find_method('regSym')
    chk.subject(rs, 'IntermediateCodeGen.regSym')
    adds = [c for c in walk_no_nested(rs) if isinstance(c, ast.Call) and norm(c) == "self._oids.add(outDict['oid'])"]
    ok = len(adds) == 1 and [norm(t) for t, b in ir.guards_of(common.stmt_of(adds[0]), rs)] == ["'oid' in outDict"]
    chk.ob(rule, 'regSym/oids', ok, where(ci.mod, rs), 'every record with an oid must be added to _oids')
    st = [s for s in walk_no_nested(rs) if isinstance(s, ast.Assign) and norm(s) == "self._out[symbol] = outDict"]
    chk.ob(rule, 'regSym/stores-record', len(st) == 1 and not ir.guards_of(st[0], rs), where(ci.mod, rs), '')
    ident = [s for s in walk_no_nested(rs) if isinstance(s, ast.Assign) and norm(s) == "self._moduleIdentityOid = outDict['oid']"]
    chk.ob(rule, 'regSym/identity', len(ident) == 1 and 'moduleIdentity' in [norm(t) for t, b in ir.guards_of(ident[0], rs)],
           where(ci.mod, rs), '')
    comp = [c for c in walk_no_nested(rs) if isinstance(c, ast.Call) and norm(c) == "self._complianceOids.append(outDict['oid'])"]
    chk.ob(rule, 'regSym/compliance', len(comp) == 1 and 'moduleCompliance' in [
        norm(t) for t, b in ir.guards_of(common.stmt_of(comp[0]), rs)], where(ci.mod, rs), '')
    ent = [s for s in walk_no_nested(rs) if isinstance(s, ast.Assign) and norm(s.targets[0]) == 'self._enterpriseOid']
    ok = len(ent) == 1
    if ok:
        val = norm(ent[0].value)
        conj = []
        for t, b in ir.guards_of(ent[0], rs):
            conj.extend(norm(c) for c in ir.conjuncts(t))
        first_only = 'not self._enterpriseOid' in conj
        textual = "outDict['oid'].startswith('1.3.6.1.4.1.')" in conj and \
            val == "'.'.join(outDict['oid'].split('.')[:7])"
        arcs = [c for c in conj if c.endswith("[:6] == ['1', '3', '6', '1', '4', '1']")]
        compwise = False
        if arcs:
            v = arcs[0].split('[:6]')[0]
            compwise = val == "'.'.join(%s[:7])" % v and any(c in ('len(%s) > 6' % v, 'len(%s) >= 7' % v) for c in conj)
        ok = first_only and (textual or compwise)
    chk.ob(rule, 'regSym/enterprise', ok, where(ci.mod, rs),
           'enterprise OID must be the first 7 arcs of the first OID strictly below 1.3.6.1.4.1 (an OID equal to '
           '1.3.6.1.4.1 has no enterprise arc): %s under %s' % (
               [norm(e.value) for e in ent], [norm(t) for e in ent for t, b in ir.guards_of(e, rs)]))
    # callers pass the flags
    clauses = ir.clause_model(model)
    for tag, flag in (('moduleIdentityClause', 'moduleIdentity'), ('moduleComplianceClause', 'moduleCompliance')):
        c = clauses[tag]
        ok = len(c.regs) == 1 and any(k.arg == flag and isinstance(k.value, ast.Constant) and k.value.value is True
                                      for k in c.regs[0].keywords)
        chk.ob(rule, '%s/flag %s' % (c.name, flag), ok, where(ci.mod, c.fn), '')
    o, gc = ci.find_method('genCode')
    mi = [c for c in walk_no_nested(gc) if isinstance(c, ast.Call) and dotted_name(c.func) == 'MibInfo']
    want = {'oids': 'self._oids', 'identity': 'self._moduleIdentityOid', 'enterprise': 'self._enterpriseOid',
            'compliance': 'self._complianceOids', 'revision': 'self._moduleRevision', 'name': 'self.moduleName[0]'}
    got = dict((k.arg, norm(k.value)) for k in mi[0].keywords) if mi else {}
    chk.ob(rule, 'IntermediateCodeGen.genCode/MibInfo', all(got.get(k) == v for k, v in want.items()), where(ci.mod, gc),
           'MibInfo gets %s' % dict((k, got.get(k)) for k in want))
    r = cr.infer(model)
    comp = [s for s in walk_no_nested(r.fn) if cr.subscript_store(s) and cr.subscript_store(s)[0] == r.result and
            cr.status_of(cr.subscript_store(s)[2], r.status_consts) == 'compiled']
    if comp:
        kws = dict((k.arg, norm(k.value)) for k in cr.subscript_store(comp[0])[2].keywords)
        b = common.pmatch(kws.get('oids', ''), '$m.oids')
        mi_var = b['m'] if b else 'mibInfo'
        for a in ('oid', 'oids', 'identity', 'revision', 'enterprise', 'compliance'):
            chk.ob(rule, 'compile/status.%s' % a, kws.get(a) == '%s.%s' % (mi_var, a), where(r.mod, comp[0]),
                   '%s=%s' % (a, kws.get(a)))
        # mibInfo is the one returned by the code generator for this module (third tuple slot of builtMibs)
    o, fn = model.cls('pysmi/codegen/jsondoc.py', 'JsonCodeGen').find_method('genIndex')
    for a in ('identity', 'enterprise', 'compliance', 'oids'):
        ok = any(isinstance(c, ast.Call) and dotted_name(c.func) == 'getattr' and len(c.args) >= 2 and
                 isinstance(c.args[1], ast.Constant) and c.args[1].value == a for c in walk_no_nested(fn))
        chk.ob(rule, 'genIndex/reads status.%s' % a, ok, where(o.mod, fn), '')


def r7b_summary_not_aliased(chk):
    """the OID summary handed back per module must be that module's own object (same rule as C12.R3)"""
    from vt.runner import Check
    from rules.C12 import r2_generator_reset
    chk.doc('C01.R7b', 'the collections handed to MibInfo (oids, compliance) are re-created per module, not cleared in '
                       'place: otherwise every module of one compile() call reports the last module\'s OIDs')
    tmp = Check(chk.prop, chk.tier, chk.model, chk.repo)
    r2_generator_reset(tmp)
    for o in tmp.obligations:
        if o.rule == 'C12.R3' and ('_oids' in o.key or '_complianceOids' in o.key) and 'IntermediateCodeGen' in o.key:
            chk.ob('C01.R7b', o.key, o.ok, o.where, o.detail)
        if o.rule == 'C12.R2' and o.key in ('IntermediateCodeGen/self._oids', 'IntermediateCodeGen/self._complianceOids',
                                            'IntermediateCodeGen/self._enterpriseOid',
                                            'IntermediateCodeGen/self._moduleIdentityOid'):
            chk.ob('C01.R7b', o.key + '/reset', o.ok, o.where, o.detail)
    chk.floor('C01.R7b', 4, 'summary attributes')


def r8_normalisation(chk):
    from rules.C06 import r1_normalisation
    r1_normalisation(chk, rule='C01.R8', only=('genOid', 'genNumericOid', 'genSimpleSyntax', 'allParentsExists'))


def r6_translate(chk):
    """tuple conversion for pysnmp: shared with C04.R1"""
    from vt.runner import Check
    from rules.C04 import r1_shared_ir
    tmp = Check(chk.prop, chk.tier, chk.model, chk.repo)
    r1_shared_ir(tmp)
    chk.doc('C01.R6', 'PySnmpCodeGen converts every `oid` member (recursively) to a tuple of ints before sorting')
    for o in tmp.obligations:
        if o.key in ('translateOids', 'oid-conversion-before-sort', 'sort-key'):
            chk.ob('C01.R6', o.key, o.ok, o.where, o.detail)


def r9_symbol_tables_keyed_by_module_name(chk):
    """OID parents are resolved through symbolTable[<module name>]: compile() must file each symbol table under the
    name the module declares, not under the name it was asked for"""
    model = chk.model
    r = cr.infer(model)
    fn, mod = r.fn, r.mod
    chk.doc('C01.R9', 'compile(): `info, table = <symbol generator>.genCode(tree, MAP)` is followed, unconditionally, '
                      'by `MAP[info.name] = table`; the same MAP is what the code generator receives as symbolTable=')
    assigns = [s_ for s_ in walk_no_nested(fn) if isinstance(s_, ast.Assign)]
    b = common.pfind(assigns, '$mi, $st = self._symbolgen.genCode($tree, $map)')
    chk.ob('C01.R9', 'compile/symbol-generator-call', b is not None, where(mod, fn), '')
    if b is None:
        return
    stores = [s_ for s_ in assigns if isinstance(s_.targets[0], ast.Subscript) and norm(s_.targets[0].value) == b['map']]
    ok = len(stores) == 1 and norm(stores[0].targets[0].slice) == '%s.name' % b['mi'] and norm(stores[0].value) == b['st']
    chk.ob('C01.R9', 'compile/table-filed-under-declared-name', ok, where(mod, stores[0]) if stores else where(mod, fn),
           'symbol table stores: %s (expected %s[%s.name] = %s)' % ([norm(s_) for s_ in stores], b['map'], b['mi'], b['st']))
    if stores:
        gen = [s_ for s_ in assigns if common.pmatch(s_, '$mi, $st = self._symbolgen.genCode($tree, $map)')][0]
        same_block = getattr(stores[0], '_parent', None) is getattr(gen, '_parent', None)
        chk.ob('C01.R9', 'compile/table-filed-unconditionally', same_block, where(mod, stores[0]),
               'the store must follow the generator call in the same block')
    calls = [c for c in walk_no_nested(fn) if isinstance(c, ast.Call) and norm(c.func) == 'self._codegen.genCode']
    ok = len(calls) == 1 and ([norm(k.value) for k in calls[0].keywords if k.arg == 'symbolTable'] == [b['map']] or
                              (len(calls[0].args) >= 2 and norm(calls[0].args[1]) == b['map']))
    chk.ob('C01.R9', 'compile/code-generator-gets-the-map', ok, where(mod, calls[0]) if calls else where(mod, fn),
           'symbolTable= of the code generator call')



def r10_largest_subidentifier(chk):
    """sub-identifiers are NUMBER tokens: the lexer must keep every value up to 2^32-1 in that class (C05.R1)"""
    from rules.C05 import r1_number_classifier
    r1_number_classifier(chk, rule='C01.R10')



def r11_generators_start_clean(chk):
    """shared with C12.R2"""
    from rules.C12 import r2_generator_reset
    common.reuse(chk, r2_generator_reset, ('C12.R2',), 'C01.R11', 'both generators re-initialise, at the start of genCode, every attribute their handlers write and assign the per-call settings on every path (C12.R2): a stale import map or column / row list of the previous (possibly failed) module changes which module a parent name resolves to, hence the OIDs', floor=12)



def r12_root_needs_no_module(chk):
    """`iso` is the numeric root 1 whether or not the module that formally defines it (SNMPv2-SMI) was parsed: the
    shortcut in genNumericOid is decided before any symbol-table test"""
    model = chk.model
    ci = model.cls(ir.INTER, 'IntermediateCodeGen')
    o, fn = ci.find_method('genNumericOid')
    chk.doc('C01.R12', 'genNumericOid: the test `<parent> == "iso"` (-> arc 1) is not nested inside, and comes before, any '
                       'test that consults self.symbolTable: a module rooted at { iso ... } resolves without SNMPv2-SMI in '
                       'the symbol table')
    tests = [n for n in walk_no_nested(fn) if isinstance(n, ast.If) and isinstance(n.test, ast.Compare) and
             any(isinstance(c, ast.Constant) and c.value == 'iso' for c in [n.test.left] + n.test.comparators)]
    ok = len(tests) == 1
    detail = '%d tests for the root name' % len(tests)
    if ok:
        t = tests[0]
        a = getattr(t, '_parent', None)
        nested = []
        while a is not None and a is not fn:
            if isinstance(a, ast.If) and 'symbolTable' in norm(a.test):
                nested.append(a)
            a = getattr(a, '_parent', None)
        before = [n for n in walk_no_nested(fn) if isinstance(n, ast.If) and 'symbolTable' in norm(n.test) and
                  n.lineno < t.lineno and cr_enclosing_loop(n) is cr_enclosing_loop(t)]
        ok = not nested and not before
        detail = 'the root test is %s' % ('nested in `if %s`' % norm(nested[0].test)[:50] if nested else
                                           'preceded by `if %s`' % norm(before[0].test)[:50] if before else 'first')
    chk.ob('C01.R12', 'genNumericOid/iso-before-table-lookups', ok, where(ci.mod, tests[0]) if tests else where(ci.mod, fn),
           detail)


def cr_enclosing_loop(n):
    a = getattr(n, '_parent', None)
    while a is not None and not isinstance(a, (ast.For, ast.While, ast.FunctionDef)):
        a = getattr(a, '_parent', None)
    return a



def r13_groupby_input_sorted(chk):
    """repeated FROM clauses, repeated keys of any list the parser groups: grouping must not depend on adjacency"""
    common.groupby_input_is_sorted(chk, 'C01.R13', sorted(r for r in chk.model.modules if r.startswith((
        'pysmi/parser/', 'pysmi/codegen/'))), 'parser and code generators (the IMPORTS of a module decide where a parent OID is looked up)')



def r14_imports_followed_for_every_module(chk):
    """shared with C08.R1: a parent OID two import hops away resolves only if the imports of dependencies are followed"""
    from rules.C08 import r1_worklist_growth
    common.reuse(chk, lambda c: r1_worklist_growth(c), ('C08.R1',), 'C01.R14',
                 'compile() queues the imports of every module it parses, under no condition (C08.R1): a valid module set '
                 'whose parent chain crosses two modules compiles only if the symbol table holds the whole closure',
                 floor=1)


RULES = [r1_subidentifier_shapes, r2_genoid, r3_numeric, r4_trap, r5_fixpoint, r6_translate, r7_plumbing,
         r7b_summary_not_aliased, r8_normalisation, r9_symbol_tables_keyed_by_module_name, r10_largest_subidentifier, r11_generators_start_clean, r12_root_needs_no_module, r13_groupby_input_sorted, r14_imports_followed_for_every_module]
