"""C08 - dependencies are followed transitively, in source order, and always terminate."""
import ast

from vt.cfg import in_subtree, enclosing_trys, CFG
from vt.model import walk_no_nested, norm, dotted_name
from vt.runner import where, AnalysisError
from rules import compile_roles as cr
from rules import common
from rules.C07 import _key_is, guard_continue, block_of

EXPLANATION = (
    "Typestate analysis of compile() (rule C08.T1): the statements of compile() are interpreted over an abstract "
    "state that tracks one arbitrary module through every local map, with every component call returning or raising "
    "any package error class, every option setting and every iteration order; invariants are evaluated at the "
    "component calls and at every return (see rules/compile_ts.py INV). "
    "CFG and dataflow rules on compile()'s discovery loop and on the symbol-table pass that feeds it: the work list "
    "only grows by the complete `imported` list of each successfully analysed module; every iteration records the "
    "popped name itself in a set that a guard at the top of the loop tests (so a name is fetched at most once and "
    "the loop terminates: names come from finitely many parsed modules); `break` ends the source search on the "
    "success path and the not-found handler moves to the next source; the text parsed is the one that source's "
    "getData returned; component lists are only appended to and iterated in order; SymtableCodeGen derives "
    "`imported` from all keys of the IMPORTS mapping without dropping any.")
ASSUMPTIONS = [
    "a reader returns finitely many modules per name; names compare by string equality",
    "falling through to the next source after a parse *error* (today's behaviour) is not judged",
]
TECHNIQUE = 'CFG reachability with avoid-sets (seen-set discipline), provenance of the work-list growth; typestate abstract interpretation of compile() (path-sensitive dataflow over a finite per-module domain, rules/compile_ts.py)'


def discovery(r):
    loop = r.while_loop
    if loop is None:
        raise AnalysisError('subject missing: work-list while loop in compile()')
    popped, pop_node = None, None
    for st in loop.body:
        if isinstance(st, ast.Assign) and isinstance(st.value, ast.Call) and isinstance(st.value.func, ast.Attribute) \
                and st.value.func.attr == 'pop' and _key_is(st.value.func.value, r.worklist) \
                and isinstance(st.targets[0], ast.Name):
            popped, pop_node = st.targets[0].id, r.cfg.node_of(st)
    if popped is None:
        raise AnalysisError('cannot find the pop of the work list')
    return loop, popped, pop_node


def r1_worklist_growth(chk, rule='C08.R1'):
    r = cr.infer(chk.model)
    loop, popped, pop_node = discovery(r)
    chk.unit('pysmi/compiler.py:MibCompiler.compile', 'pysmi/codegen/symtable.py:SymtableCodeGen.genCode/genImports')
    chk.doc(rule, 'the work list is initialised from all requested names and grows only by `<mibInfo>.imported` '
                      '(whole list; a filter may only test a seen-set that already holds everything fetched) in the '
                      'success path of the symbol-table pass')
    # initialisation: every requested name
    vararg = r.fn.args.vararg.arg if r.fn.args.vararg else None
    init = [st for st in r.fn.body if isinstance(st, ast.Assign) and _key_is(st.targets[0], r.worklist)]
    ok = False
    if init and vararg:
        v = init[0].value
        if isinstance(v, ast.ListComp) and len(v.generators) == 1 and not v.generators[0].ifs and \
                _key_is(v.generators[0].iter, vararg) and norm(v.elt) == norm(v.generators[0].target):
            ok = True
        if isinstance(v, ast.Call) and dotted_name(v.func) == 'list' and v.args and _key_is(v.args[0], vararg):
            ok = True
    chk.ob(rule, 'compile/worklist-init', ok, where(r.mod, init[0]) if init else r.mod.rel,
           'work list must start with every requested name')
    grows = []
    for n in walk_no_nested(r.fn):
        if isinstance(n, ast.Call) and isinstance(n.func, ast.Attribute) and _key_is(n.func.value, r.worklist) and \
                n.func.attr in ('extend', 'append', 'insert'):
            grows.append(n)
        if isinstance(n, ast.AugAssign) and _key_is(n.target, r.worklist):
            grows.append(n)
    chk.ob(rule, 'compile/worklist-growth-sites', len(grows) == 1, where(r.mod, r.fn),
           '%d growth sites of the work list' % len(grows))
    # the symtable genCode call whose MibInfo is used
    sym_calls = [c for c in r.calls.get('genCode', []) if '_symbolgen' in norm(c.func) or True]
    for g in grows:
        arg = g.args[0] if isinstance(g, ast.Call) and g.args else getattr(g, 'value', None)
        st = cr.stmt_of(g, r.fn)
        good, detail = False, 'argument is %s' % norm(arg)
        src = arg
        if isinstance(arg, (ast.ListComp, ast.GeneratorExp)) and len(arg.generators) == 1:
            gen = arg.generators[0]
            if norm(arg.elt) == norm(gen.target) and all(is_seen_filter(c, gen.target) for c in gen.ifs):
                src = gen.iter
        if isinstance(src, ast.Attribute) and src.attr == 'imported' and isinstance(src.value, ast.Name):
            # the MibInfo variable must come from a genCode call in the same try body, earlier
            mi = src.value.id
            for t in enclosing_trys(st, r.fn):
                for c in r.calls.get('genCode', []):
                    cst = cr.stmt_of(c, r.fn)
                    if in_subtree(cst, t) and isinstance(cst, ast.Assign) and isinstance(cst.targets[0], ast.Tuple) \
                            and _key_is(cst.targets[0].elts[0], mi):
                        good = True
            if not good:
                detail = '%s is not the MibInfo returned by the symbol-table pass of this iteration' % mi
        # must sit in the same block as the symbol-table pass that produced this MibInfo (once per parsed module)
        par = getattr(st, '_parent', None)
        if good:
            from rules.C07 import block_of
            blk = block_of(st)
            same = False
            for c in r.calls.get('genCode', []):
                cst = cr.stmt_of(c, r.fn)
                if isinstance(cst, ast.Assign) and isinstance(cst.targets[0], ast.Tuple) and \
                        _key_is(cst.targets[0].elts[0], src.value.id) and any(cst is x for x in blk):
                    same = True
            if not same:
                good, detail = False, 'the imports are queued outside the per-module block of the symbol-table pass ' \
                                      '(under %s): when a source holds several modules only some of them have ' \
                                      'their imports followed' % type(par).__name__
        chk.ob(rule, 'compile/worklist-extend(%s)' % norm(arg)[:40], good, where(r.mod, g), '' if good else detail)

    # --- symbol table pass: imported = all keys of the IMPORTS mapping ------------------------------
    owner, gen = chk.model.method('pysmi/codegen/symtable.py', 'SymtableCodeGen', 'genCode')
    mod = owner.mod
    ast_param = gen.args.args[1].arg
    unpack = None
    for st in gen.body:
        if isinstance(st, ast.Assign) and isinstance(st.targets[0], ast.Tuple) and _key_is(st.value, ast_param):
            unpack = st
    chk.subject(unpack, 'unpacking of the module tree in SymtableCodeGen.genCode')
    imports_var = unpack.targets[0].elts[2].id if isinstance(unpack.targets[0].elts[2], ast.Name) else None
    gi_calls = common.calls_in(gen, attr='genImports')
    chk.ob(rule, 'SymtableCodeGen.genCode/genImports-call', len(gi_calls) == 1, where(mod, gen),
           '%d genImports calls' % len(gi_calls))
    for c in gi_calls:
        a = c.args[0] if c.args else None
        names = set(n.id for n in ast.walk(a) if isinstance(n, ast.Name)) if a is not None else set()
        ok = names == set([imports_var]) and none_guard_only(a, imports_var)
        chk.ob(rule, 'SymtableCodeGen.genCode/genImports-arg', ok, where(mod, c),
               'genImports must receive the IMPORTS mapping unconditionally (got %s)' % norm(a))
        st = cr.stmt_of(c, gen)
        chk.ob(rule, 'SymtableCodeGen.genCode/genImports-unconditional', st in gen.body, where(mod, c),
               'genImports call is conditional')
        res_var = None
        if isinstance(st, ast.Assign) and isinstance(st.targets[0], ast.Tuple) and len(st.targets[0].elts) == 2 and \
                isinstance(st.targets[0].elts[1], ast.Name):
            res_var = st.targets[0].elts[1].id
        # MibInfo(imported=<identity over res_var>)
        ok = False
        for m in ast.walk(gen):
            if isinstance(m, ast.Call) and dotted_name(m.func) == 'MibInfo':
                for kw in m.keywords:
                    if kw.arg == 'imported':
                        ok = identity_over(kw.value, res_var)
        chk.ob(rule, 'SymtableCodeGen.genCode/MibInfo.imported', ok, where(mod, gen),
               'MibInfo.imported must be the complete list of imported modules returned by genImports')
    o2, gi = chk.model.method('pysmi/codegen/symtable.py', 'SymtableCodeGen', 'genImports')
    p = gi.args.args[1].arg
    rets = [x for x in walk_no_nested(gi) if isinstance(x, ast.Return)]
    ok = len(rets) == 1 and isinstance(rets[0].value, ast.Tuple) and len(rets[0].value.elts) == 2 and \
        identity_over(rets[0].value.elts[1], p)
    chk.ob(rule, 'SymtableCodeGen.genImports/return-all-modules', ok, where(o2.mod, gi),
           'second result must enumerate every key of the imports mapping')
    for x in walk_no_nested(gi):
        bad = None
        if isinstance(x, ast.Delete):
            for t in x.targets:
                if isinstance(t, ast.Subscript) and _key_is(t.value, p):
                    bad = x
        if isinstance(x, ast.Call) and isinstance(x.func, ast.Attribute) and _key_is(x.func.value, p) and \
                x.func.attr in ('pop', 'popitem', 'clear'):
            bad = x
        if isinstance(x, ast.Assign) and any(_key_is(t, p) for t in x.targets):
            bad = x
        if bad is not None:
            chk.ob(rule, 'SymtableCodeGen.genImports/module-entry-removed %s' % norm(bad)[:40], False,
                   where(o2.mod, bad), 'an imported module is removed from the mapping, so it is never looked up')
    chk.floor(rule, 7, 'init, growth, genImports plumbing')


def none_guard_only(a, var):
    t = norm(a)
    return t in (var, '%s or {}' % var, '%s and %s or {}' % (var, var), '%s if %s else {}' % (var, var),
                 '%s or dict()' % var, '{} if %s is None else %s' % (var, var), '%s if %s is not None else {}' % (var, var))


def identity_over(e, var):
    """e enumerates every element of var: var, tuple(var), sorted(var), tuple(sorted(var)),
    tuple([x for x in var]) ... with no filter."""
    if e is None or var is None:
        return False
    if _key_is(e, var):
        return True
    if isinstance(e, ast.Call) and dotted_name(e.func) in ('tuple', 'list', 'sorted') and len(e.args) == 1 and \
            not e.keywords:
        return identity_over(e.args[0], var)
    if isinstance(e, (ast.ListComp, ast.GeneratorExp)) and len(e.generators) == 1:
        g = e.generators[0]
        return not g.ifs and norm(e.elt) == norm(g.target) and identity_over(g.iter, var)
    return False


def is_seen_filter(cond, target):
    return isinstance(cond, ast.Compare) and len(cond.ops) == 1 and isinstance(cond.ops[0], ast.NotIn) and \
        norm(cond.left) == norm(target) and isinstance(cond.comparators[0], ast.Name)


def r2_seen_set(chk):
    r = cr.infer(chk.model)
    cfg = r.cfg
    loop, popped, pop_node = discovery(r)
    head = cfg.by_ast[id(loop)]
    chk.doc('C08.R2', 'every path through an iteration of the work-list loop either leaves through a seen-guard '
                      '`if <popped> in S: continue` or records the popped name itself in such a guard set S; the '
                      'guards dominate every getData call')
    guard_sets = {}
    for st in loop.body:
        if isinstance(st, ast.If) and isinstance(st.test, ast.Compare) and len(st.test.ops) == 1 and \
                isinstance(st.test.ops[0], ast.In) and _key_is(st.test.left, popped) and \
                isinstance(st.test.comparators[0], ast.Name) and st.body and isinstance(st.body[-1], ast.Continue):
            guard_sets[st.test.comparators[0].id] = cfg.by_ast[id(st)]
    chk.ob('C08.R2', 'compile/seen-guards', bool(guard_sets), where(r.mod, loop),
           'guard sets: %s' % sorted(guard_sets))
    rec = set()
    for n in cfg.nodes:
        if n.kind != 'stmt' or not in_subtree(n.ast, loop):
            continue
        ss = cr.subscript_store(n.ast)
        if ss and ss[0] in guard_sets and _key_is(ss[1], popped):
            rec.add(n)
        if isinstance(n.ast, ast.Expr) and isinstance(n.ast.value, ast.Call):
            c = n.ast.value
            if isinstance(c.func, ast.Attribute) and c.func.attr == 'add' and isinstance(c.func.value, ast.Name) and \
                    c.func.value.id in guard_sets and c.args and _key_is(c.args[0], popped):
                rec.add(n)
        if isinstance(n.ast, ast.Continue) and guard_continue(n.ast, loop, popped):
            rec.add(n)
    after = cfg.reach([m for m, l in pop_node.succ if l != 'exc'], avoid=rec,
                      edge_filter=lambda a, b, l: not (l == 'exc' and b is cfg.raise_exit))
    ok = head not in after
    detail = ''
    if not ok:
        offenders = sorted(set(x.lineno for x in after if any(m is head for m, l in x.succ) and x.lineno))
        detail = ('an iteration can end without the popped name `%s` being recorded in any guard set %s (back edge '
                  'from line(s) %s): the same name can be fetched again, and a file whose module name differs from '
                  'the requested name can loop forever' % (popped, sorted(guard_sets), offenders))
    chk.ob('C08.R2', 'compile/popped-name-recorded(%s)' % popped, ok, where(r.mod, loop), detail)
    # a map filled under a key other than the popped name (the name a module declares, which may differ from the name
    # it was fetched by) needs its own seen-guard: the set recording popped names does not know those keys
    for n in cfg.nodes:
        if n.kind != 'stmt' or not in_subtree(n.ast, loop):
            continue
        ss = cr.subscript_store(n.ast)
        if ss and ss[0] in r.work and not _key_is(ss[1], popped) and ss[0] != r.result:
            chk.ob('C08.R2', 'compile/guard-for-%s[%s]' % (ss[0], norm(ss[1])), ss[0] in guard_sets, where(r.mod, n.ast),
                   '%s is filled under %s, which need not equal the fetched name `%s`; without `if %s in %s: continue` '
                   'a module parsed from another file is fetched and parsed again under its own name' % (
                       ss[0], norm(ss[1]), popped, popped, ss[0]))
    # guards dominate every getData of the loop
    for c in r.calls.get('getData', []):
        st = cr.stmt_of(c, r.fn)
        if not in_subtree(st, loop):
            continue
        gn = cfg.node_of(st)
        dominated = [s for s, g in guard_sets.items() if cfg.dominates(g, gn)]
        recorded_sets = set()
        for n in rec:
            ss = cr.subscript_store(n.ast) if n.kind == 'stmt' else None
            if ss:
                recorded_sets.add(ss[0])
            elif isinstance(n.ast, ast.Expr):
                recorded_sets.add(n.ast.value.func.value.id)
        chk.ob('C08.R2', 'compile/guard-dominates-getData', bool(set(dominated) & recorded_sets) or bool(dominated),
               where(r.mod, c), 'no seen-guard dominates the fetch')
    # the guard-set that records the popped name must be tested by a guard (same set)
    # pop takes from the front or back only (no arbitrary index)
    pc = pop_node.ast.value
    ok = not pc.args or (isinstance(pc.args[0], ast.Constant) and pc.args[0].value in (0, -1))
    chk.ob('C08.R2', 'compile/worklist-pop', ok, where(r.mod, pc), 'pop(%s)' % (norm(pc.args[0]) if pc.args else ''))


def r3_ordering(chk, rule='C08.R3'):
    r = cr.infer(chk.model)
    chk.doc(rule, 'self._sources/_searchers/_borrowers are created empty, only extended/appended by the add* '
                      'methods and iterated by a plain `for`; never sorted, reversed, sliced or inserted at the front')
    ci = r.cls
    attrs = ('_sources', '_searchers', '_borrowers')
    for mname, fn in sorted(ci.methods.items()):
        for n in walk_no_nested(fn):
            if not (common.is_self_attr(n) and n.attr in attrs):
                continue
            par = getattr(n, '_parent', None)
            key = 'MibCompiler.%s/self.%s' % (mname, n.attr)
            if isinstance(par, ast.Assign) and n in par.targets:
                ok = mname == '__init__' and isinstance(par.value, ast.List) and not par.value.elts
                chk.ob(rule, key + ' = ...', ok, where(r.mod, n), 'component list rebound: %s' % norm(par))
            elif isinstance(par, ast.Attribute) and isinstance(getattr(par, '_parent', None), ast.Call) and \
                    par._parent.func is par:
                ok = par.attr in ('extend', 'append')
                chk.ob(rule, key + '.%s()' % par.attr, ok, where(r.mod, n),
                       'component list changed by .%s()' % par.attr)
            elif isinstance(par, ast.For) and par.iter is n:
                chk.ob(rule, key + ' iterated', True, where(r.mod, n))
            elif isinstance(par, ast.comprehension) and par.iter is n:
                # only inside debug formatting
                chk.ob(rule, key + ' in comprehension', in_debug_call(n), where(r.mod, n),
                       'component list used in a comprehension outside debug output')
            else:
                chk.ob(rule, key + ' other-use', in_debug_call(n), where(r.mod, n),
                       'unexpected use of the component list: %s' % norm(par)[:60])
    # each add* method appends everything it is given, in the order given, to its own list and returns the compiler
    for mname, attr in (('addSources', '_sources'), ('addSearchers', '_searchers'), ('addBorrowers', '_borrowers')):
        o, fn = ci.find_method(mname)
        if fn is None or fn.args.vararg is None:
            chk.ob(rule, 'MibCompiler.%s/signature' % mname, False, where(r.mod, ci.node), 'add method missing or without *args')
            continue
        va = fn.args.vararg.arg
        ext = [st for st in fn.body if isinstance(st, ast.Expr) and isinstance(st.value, ast.Call) and
               common.is_self_attr(getattr(st.value.func, 'value', None), attr) and
               getattr(st.value.func, 'attr', '') == 'extend' and [norm(a) for a in st.value.args] == [va]]
        chk.ob(rule, 'MibCompiler.%s/extends-own-list' % mname, len(ext) == 1, where(r.mod, fn),
               'self.%s.extend(%s) must be an unconditional statement of %s' % (attr, va, mname))
        rets = [x for x in walk_no_nested(fn) if isinstance(x, ast.Return)]
        chk.ob(rule, 'MibCompiler.%s/returns-self' % mname, len(rets) == 1 and rets[0] is fn.body[-1] and
               norm(rets[0].value) == fn.args.args[0].arg, where(r.mod, fn), 'documented to return the compiler for chaining')
    chk.floor(rule, 9, '3 inits, 3 extends, >=3 loops')


def in_debug_call(n):
    a = n
    while a is not None and not isinstance(a, ast.stmt):
        if isinstance(a, ast.Call) and norm(a.func).startswith('debug.logger'):
            return True
        a = getattr(a, '_parent', None)
    return False


def r4_first_hit(chk):
    r = cr.infer(chk.model)
    cfg = r.cfg
    loop, popped, pop_node = discovery(r)
    chk.doc('C08.R4', 'in the source loop: getData is asked for the popped name; its second result is what is parsed; '
                      'on the success path a `break` leaves the source loop before any other source is asked; the '
                      'not-found handler goes on to the next source')
    gets = [c for c in r.calls.get('getData', []) if in_subtree(c, loop)]
    chk.ob('C08.R4', 'compile/source-getData', len(gets) == 1, where(r.mod, loop), '%d getData calls in discovery loop'
           % len(gets))
    if len(gets) != 1:
        return
    g = gets[0]
    st = cr.stmt_of(g, r.fn)
    src_loop = cr.enclosing_loop(st, r.fn)
    ok = isinstance(src_loop, ast.For) and common.is_self_attr(src_loop.iter, '_sources') and \
        _key_is(g.func.value, src_loop.target.id if isinstance(src_loop.target, ast.Name) else None)
    chk.ob('C08.R4', 'compile/source-loop', ok, where(r.mod, g), 'getData must be called on each of self._sources in '
                                                                 'a plain for loop')
    chk.ob('C08.R4', 'compile/getData-arg', len(g.args) >= 1 and _key_is(g.args[0], popped), where(r.mod, g),
           'getData must be asked for the popped name')
    data_var = None
    if isinstance(st, ast.Assign) and isinstance(st.targets[0], ast.Tuple) and len(st.targets[0].elts) == 2 and \
            isinstance(st.targets[0].elts[1], ast.Name):
        data_var = st.targets[0].elts[1].id
    parses = [c for c in r.calls.get('parse', []) if in_subtree(c, src_loop)]
    okp = len(parses) == 1 and parses[0].args and _key_is(parses[0].args[0], data_var)
    # not reassigned between
    if okp:
        for s in walk_no_nested(src_loop):
            if isinstance(s, ast.Name) and s.id == data_var and isinstance(s.ctx, ast.Store) and \
                    cr.stmt_of(s, r.fn) is not st:
                okp = False
    chk.ob('C08.R4', 'compile/parse-arg', okp, where(r.mod, parses[0]) if parses else where(r.mod, g),
           'the parser must receive the text returned by this source unmodified')
    # success path: from getData node via non-exc edges; must hit a break of src_loop before the src_loop head
    gn = cfg.node_of(st)
    shead = cfg.by_ast[id(src_loop)]
    breaks = set(n for n in cfg.nodes if n.kind == 'stmt' and isinstance(n.ast, ast.Break) and
                 cr.enclosing_loop(n.ast, r.fn) is src_loop)
    reach = cfg.reach([m for m, l in gn.succ if l != 'exc'], avoid=breaks, skip_labels=('exc',))
    chk.ob('C08.R4', 'compile/success-breaks', bool(breaks) and shead not in reach, where(r.mod, src_loop),
           'after a successful fetch+parse the next source can still be asked (no break on the success path)')
    # not-found handler continues with the next source
    trys = enclosing_trys(st, r.fn)
    h = None
    for t in trys:
        hh = cr.handler_covering(chk.model, r.mod, t, ('PySmiReaderFileNotFoundError',))
        if hh is not None and cr.handler_type_names(chk.model, r.mod, hh) == ['PySmiReaderFileNotFoundError']:
            h = hh
    ok = False
    if h is not None:
        hn = cfg.by_ast[id(h)]
        hreach = cfg.reach([hn], avoid=[shead], skip_labels=('exc',))
        stores = [n for n in hreach if n.kind == 'stmt' and cr.subscript_store(n.ast) and
                  cr.subscript_store(n.ast)[0] in (r.result, r.failed)]
        leaves = any(n.kind == 'stmt' and isinstance(n.ast, (ast.Break, ast.Return, ast.Raise)) for n in hreach)
        ok = not stores and not leaves
    chk.ob('C08.R4', 'compile/not-found-next-source', ok, where(r.mod, h) if h is not None else where(r.mod, st),
           'a source that does not hold the module must simply hand over to the next source')
    # handler order: not-found subclass before the generic one
    for t in trys:
        names = [cr.handler_type_names(chk.model, r.mod, x)[0] for x in t.handlers]
        if 'PySmiReaderFileNotFoundError' in names and 'PySmiError' in names:
            chk.ob('C08.R4', 'compile/handler-order', names.index('PySmiReaderFileNotFoundError') <
                   names.index('PySmiError'), where(r.mod, t), 'handlers: %s' % names)


def r5_no_mutation_while_iterating(chk):
    """the import lists that feed the work list (genImports of both generators) and compile()'s own loops"""
    rels = ['pysmi/compiler.py'] + sorted(r for r in chk.model.modules if r.startswith('pysmi/codegen/'))
    common.no_mutation_while_iterating(chk, 'C08.R5', rels, floor=30)


def r6_argument_agreement(chk):
    common.argument_agreement(chk, 'C08.R6', ['pysmi/compiler.py'], floor=3)




def t1_typestate(chk):
    """typestate analysis of compile() (rules/compile_ts.py): end-to-end bookkeeping invariants for an arbitrary
    module over every outcome of every component call"""
    from rules import compile_ts
    compile_ts.ts_rule(chk, 'C08.T1', ['fetch-once', 'closure', 'accounted'])



def r7_every_component_is_asked(chk, rule='C08.R7', meths=('getData',), attrs=None):
    """A component loop of compile() (`for x in self._sources / _searchers / _borrowers`) asks every component it
    visits: no path from the loop head through the body back to the loop head avoids the protocol call on the loop
    variable.  (A `continue` placed before the call - a skip list, a cache of components that failed earlier - changes
    which source / searcher / borrower answers.)"""
    r = cr.infer(chk.model)
    cfg = r.cfg
    chk.doc(rule, 'each iteration of a component loop in compile() calls the component (%s) before it can reach the '
                  'next iteration: components are consulted strictly in the order they were added, none is passed '
                  'over' % '/'.join(meths))
    n = 0
    for loop in [x for x in walk_no_nested(r.fn) if isinstance(x, ast.For)]:
        attr = cr.loop_over_self_attr(r.fn, loop.target.id) if isinstance(loop.target, ast.Name) else None
        if not (isinstance(loop.iter, ast.Attribute) and isinstance(loop.iter.value, ast.Name) and
                loop.iter.value.id == 'self') or attr is None:
            continue
        calls = [c for c in walk_no_nested(loop) if isinstance(c, ast.Call) and isinstance(c.func, ast.Attribute) and
                 c.func.attr in meths and isinstance(c.func.value, ast.Name) and c.func.value.id == loop.target.id]
        if not calls:
            continue
        if attrs is not None and loop.iter.attr not in attrs:
            continue
        n += 1
        head = cfg.by_ast[id(loop)]
        call_nodes = set(cfg.node_of(cr.stmt_of(c, r.fn)) for c in calls)
        body_entry = [m for m, l in head.succ if l == 'T']
        reach = cfg.reach(body_entry, avoid=call_nodes)
        back = [p for p, l in head.pred if p in reach and in_subtree(p.ast, loop) and p is not head]
        chk.ob(rule, 'compile/for %s in self.%s asks every one' % (loop.target.id, loop.iter.attr), not back,
               where(r.mod, loop), 'an iteration can go on to the next %s without calling %s on this one (from line(s) %s)'
               % (loop.target.id, '/'.join(meths), sorted(set(p.lineno for p in back if p.lineno))))
    chk.floor(rule, 1, 'component loops of compile()')



def r8_generators_start_clean(chk):
    """a symbol-table generator that carries the error state of a rejected module rejects every later module: their
    IMPORTS are never queued (shared with C12.R2)"""
    from rules.C12 import r2_generator_reset
    common.reuse(chk, r2_generator_reset, ('C12.R2',), 'C08.R8',
                 'SymtableCodeGen re-initialises at the start of genCode every attribute its handlers write (C12.R2): the '
                 'dependency walk does not stop behind one bad module', keep=lambda o: o.key.startswith('SymtableCodeGen'),
                 floor=5)



def r9_reader_tries_every_directory(chk):
    """"the first source that holds a module supplies the text": a source holds what is in any of its directories
    (shared with C14.R1)"""
    from rules.C14 import r1_file_reader
    common.reuse(chk, r1_file_reader, ('C14.R1',), 'C08.R9',
                 'FileReader.getData computes the name variants inside the directory loop (a generator is used up by the '
                 'first directory) and tests each in every directory of the walk (C14.R1)',
                 keep=lambda o: 'variants' in o.key or 'walks' in o.key, floor=1)



def r10_first_source_holding_a_regular_file(chk):
    """shared with C14.R1 / R10: the first source that holds the module supplies it - a directory named like a module
    does not hold it"""
    from rules.C14 import r1_file_reader, r10_guard_polarity
    common.reuse(chk, r1_file_reader, ('C14.R1',), 'C08.R10',
                 'FileReader.getData takes a candidate only when it is an existing regular file (C14.R1): otherwise a '
                 'directory named like a module raises instead of letting the search go on, and a later source (or '
                 'nobody) supplies the module', keep=lambda o: 'isfile' in o.key or 'exists' in o.key, floor=1)



def r11_every_directory_of_a_source_is_searched(chk):
    """shared with C14.R5: what a source holds includes what lies below a linked sub-directory"""
    from rules.C14 import r5_recursion
    common.reuse(chk, r5_recursion, ('C14.R5',), 'C08.R11',
                 'FileReader.getSubdirs enters every entry that is a directory, under no further condition (C14.R5): '
                 'a module below a skipped directory is supplied by a later source, or reported missing and its imports '
                 'never followed', keep=lambda o: 'every-sub-directory' in o.key or 'recursion' in o.key, floor=1)


RULES = [r1_worklist_growth, r2_seen_set, r3_ordering, r4_first_hit, r5_no_mutation_while_iterating,
         r6_argument_agreement, t1_typestate, r7_every_component_is_asked, r8_generators_start_clean, r9_reader_tries_every_directory, r10_first_source_holding_a_regular_file, r11_every_directory_of_a_source_is_searched]
