"""C15 - descriptive texts reach the output intact and only when requested."""
import ast
import re

from vt.model import walk_no_nested, norm, dotted_name
from vt.tmpl import TemplateModel, expr_info
from vt.runner import where, AnalysisError
from rules import common, ir
from rules import compile_roles as cr
from rules.C07 import _key_is
from rules.C04 import tmodel

EXPLANATION = (
    "Rules on the text path: every store of description / reference / organization / contactinfo (and lastupdated) "
    "into an IR record is guarded by self.genRules['text'], which both genCode()s set from kwargs.get('genTexts', "
    "False) and compile() feeds from options; all eight text handlers return textFilter(<kind>, data[0]) with the "
    "un-modified clause text; the filter is chosen afresh per genCode call as the caller's textFilter or the "
    "whitespace-normalising default; the grammar strips exactly the two quotes; the JSON template is a bare tojson "
    "dump; every template output that places a text-valued field inside a Python string literal is enumerated, and "
    "since no escaping filter exists each such site is a listed known finding - a new site or a changed filter chain "
    "is a violation.")
ASSUMPTIONS = ["what Jinja2's wordwrap does to long unbroken words and non-ASCII handling at run time are not decided"]
TECHNIQUE = 'control-dependence of text stores on the text switch; handler return-shape rule; template output contexts'

INTER = ir.INTER
GATED = ('description', 'reference', 'organization', 'contactinfo')
TEXT_TAGS = {'DESCRIPTION': 'description', 'REFERENCE': 'reference', 'UNITS': 'units', 'ORGANIZATION': 'organization',
             'CONTACT-INFO': 'contactinfo', 'DISPLAY-HINT': 'displayhint', 'PRODUCT-RELEASE': 'productrelease'}
TEXT_FIELDS = set(list(TEXT_TAGS.values()) + ['lastupdated'])


def mentions_text_switch(test):
    return any(norm(n) == "self.genRules['text']" for n in ast.walk(test))


def r1_gated_stores(chk):
    model = chk.model
    ci = model.cls(INTER, 'IntermediateCodeGen')
    mod = ci.mod
    chk.unit(INTER)
    chk.doc('C15.R1', 'every store of description/reference/organization/contactinfo into a record (clause handlers '
                      'and genTypeDeclarationRHS) is control-dependent on self.genRules["text"] in positive position')
    n = 0
    for mname, fn in sorted(ci.methods.items()):
        if mname == 'genRevisions':
            continue  # revision descriptions are emitted regardless of the text switch (as the property states)
        for s in ir.record_stores(fn):
            if len(s.key) == 1 and s.key[0] in GATED:
                n += 1
                # the switch itself must be an and-conjunct of a test on whose true branch the store lies (an `or`
                # with the switch, a negation or a comparison does not gate)
                pos = any(b and any(norm(c) == "self.genRules['text']" for c in ir.conjuncts(t)) for t, b in s.guards)
                chk.ob('C15.R1', 'IntermediateCodeGen.%s/%s' % (mname, s.key[0]), pos, where(mod, s.node),
                       '%s is stored whether or not texts were requested (guards: %s)' % (
                           s.key[0], [norm(t) for t, b in s.guards]))
    chk.floor('C15.R1', 20, 'gated text stores')


def r2_switch_plumbing(chk):
    model = chk.model
    chk.doc('C15.R2', 'genRules["text"] = kwargs.get("genTexts", False) in both genCode()s; the text filter is '
                      're-chosen per call as kwargs.get("textFilter") or the default re.sub(r"\\s+", " ", text); '
                      'compile() forwards genTexts=options.get("genTexts") and textFilter=options.get("textFilter")')
    for rel, cname in ((INTER, 'IntermediateCodeGen'), (ir.SYMTAB, 'SymtableCodeGen')):
        o, fn = model.cls(rel, cname).find_method('genCode')
        sw = [s for s in fn.body if isinstance(s, ast.Assign) and norm(s.targets[0]) == "self.genRules['text']"]
        swv = [s.value for s in sw]
        if len(swv) == 1 and isinstance(swv[0], ast.Name):
            # through a local assigned exactly once at the top level of genCode
            la = [s for s in walk_no_nested(fn) if isinstance(s, ast.Assign) and len(s.targets) == 1 and
                  isinstance(s.targets[0], ast.Name) and s.targets[0].id == swv[0].id]
            if len(la) == 1 and la[0] in fn.body and la[0].lineno < sw[0].lineno:
                swv = [la[0].value]
        ok = len(sw) == 1 and norm(swv[0]) in ("kwargs.get('genTexts', False)", "kwargs.get('genTexts')",
                                              "bool(kwargs.get('genTexts'))", "kwargs.get('genTexts', None)")
        chk.ob('C15.R2', '%s.genCode/text-switch' % cname, ok, where(o.mod, fn),
               'text switch is %s' % [norm(v) for v in swv])
    o, fn = model.cls(INTER, 'IntermediateCodeGen').find_method('genCode')
    tf = [s for s in fn.body if isinstance(s, ast.Assign) and norm(s.targets[0]) == 'self.textFilter']
    ok = len(tf) == 1 and isinstance(tf[0].value, ast.BoolOp) and isinstance(tf[0].value.op, ast.Or) and \
        norm(tf[0].value.values[0]) == "kwargs.get('textFilter')" and isinstance(tf[0].value.values[1], ast.Lambda)
    if ok:
        lam = tf[0].value.values[1]
        args = [a.arg for a in lam.args.args]
        ok = len(args) == 2 and norm(lam.body) == "re.sub('\\\\s+', ' ', %s)" % args[1]
    chk.ob('C15.R2', 'IntermediateCodeGen.genCode/text-filter', ok, where(o.mod, tf[0]) if tf else where(o.mod, fn),
           'text filter must be `kwargs.get("textFilter") or <whitespace normaliser>`, chosen on every call: %s' % (
               [norm(s)[:100] for s in tf]))
    r = cr.infer(model)
    opt = r.fn.args.kwarg.arg if r.fn.args.kwarg else 'options'
    gen = [c for c in r.calls.get('genCode', []) if '_codegen' in norm(c.func)]
    for c in gen:
        kws = dict((k.arg, norm(k.value)) for k in c.keywords)
        chk.ob('C15.R2', 'compile/genTexts-forwarded', kws.get('genTexts') == "%s.get('genTexts')" % opt,
               where(r.mod, c), 'genTexts=%s' % kws.get('genTexts'))
        chk.ob('C15.R2', 'compile/textFilter-forwarded', kws.get('textFilter') == "%s.get('textFilter')" % opt,
               where(r.mod, c), 'textFilter=%s' % kws.get('textFilter'))
    sym = [c for c in r.calls.get('genCode', []) if '_symbolgen' in norm(c.func)]
    for c in sym:
        chk.ob('C15.R2', 'compile/symbol-pass-without-texts', not [k for k in c.keywords if k.arg == 'genTexts'],
               where(r.mod, c), '')


def r3_text_handlers(chk, rule='C15.R3'):
    model = chk.model
    ci = model.cls(INTER, 'IntermediateCodeGen')
    mod = ci.mod
    chk.doc(rule, 'the handlers of DESCRIPTION, REFERENCE, UNITS, ORGANIZATION, CONTACT-INFO, DISPLAY-HINT and '
                  'PRODUCT-RELEASE return self.textFilter(<kind>, data[0]); genRevisions filters the revision '
                  'description the same way; nothing else touches the text (no strip/replace/slicing)')
    tbl = ir.handlers_table(ci)
    for tag, field in sorted(TEXT_TAGS.items()):
        hname = tbl.get(tag)
        o, fn = ci.find_method(hname) if hname else (None, None)
        if fn is None:
            chk.ob(rule, 'handler(%s)' % tag, False, INTER, 'no handler for %s' % tag)
            continue
        d = fn.args.args[1].arg
        rets = [x for x in walk_no_nested(fn) if isinstance(x, ast.Return)]
        ok = len(rets) == 1
        if ok:
            v = rets[0].value
            src = None
            if isinstance(v, ast.Call) and norm(v.func) == 'self.textFilter' and len(v.args) == 2 and \
                    isinstance(v.args[0], ast.Constant):
                src = v.args[1]
            if isinstance(src, ast.Name):
                asg = [s for s in fn.body if isinstance(s, ast.Assign) and _key_is(s.targets[0], src.id)]
                ok = len(asg) == 1 and norm(asg[0].value) == '%s[0]' % d
            else:
                ok = src is not None and norm(src) == '%s[0]' % d
        chk.ob(rule, 'IntermediateCodeGen.%s' % hname, ok, where(mod, fn),
               'the %s text must be returned as self.textFilter(<kind>, data[0]): with the default filter a text '
               'that is not whitespace-normalised differs from the documented output and a line break lands inside '
               'a one-line string literal of the generated module (returns: %s)' % (
                   tag, [norm(x.value)[:50] for x in rets]))
    o, fn = ci.find_method('genRevisions')
    ok = any(isinstance(s, ast.Assign) and norm(s.targets[0]).endswith("['description']") and
             common.pmatch(s.value, "self.textFilter('description', $x[1][1])") is not None for s in walk_no_nested(fn))
    chk.ob(rule, 'IntermediateCodeGen.genRevisions/description', ok, where(mod, fn),
           'revision descriptions must pass the text filter')
    # grammar: quotes stripped exactly (C02.R4) - referenced, decided there
    chk.floor(rule, 8, 'text handlers')


PY_LITERAL_FILTERS = ('escape_python', 'pyrepr', 'pystring', 'e_py', 'dorepr')


def r4_literal_positions(chk, rule='C15.R4'):
    tm = tmodel(chk)
    chk.doc(rule, 'every {{ ... }} that places a text-valued field (description, reference, organization, '
                  'contactinfo, units, displayhint, productrelease, lastupdated, string default value) inside a '
                  'Python string literal of the generated module must pass an escaping filter; today no such '
                  'filter exists, so each site is a listed known finding and any new site is a violation')
    starts = sorted((f.lineno, '+'.join(cls)) for f, cls, names in tm.class_blocks() if len(cls) <= 3)
    macros = sorted((m.start(), m.group(1)) for m in re.finditer(r'\{%-?\s*macro\s+(\w+)', tm.src))
    macro_lines = [(tm.src.count('\n', 0, pos) + 1, name) for pos, name in macros]

    def block_at(line):
        best = 'top'
        for ln, name in sorted(starts + [(l, 'macro:' + n) for l, n in macro_lines]):
            if ln <= line:
                best = name
        return best
    sites = {}
    for line, expr, state in tm.outputs():
        root, path, filters = expr_info(tm.env, expr)
        if state == 'code':
            # a text written outside any quotes must come out of a filter that writes a *Python* literal; tojson does
            # not (JSON writes a character beyond U+FFFF as a surrogate pair, which Python reads as two lone
            # surrogates; it also HTML-escapes < > & ')
            if root == 'definition' and path and path[0] in TEXT_FIELDS and path[0] not in ('lastupdated',):
                ok_f = any(f in PY_LITERAL_FILTERS for f in filters)
                chk.ob(rule, 'template-code-position %s%s@%s' % (path[0], ('|' + '|'.join(filters)) if filters else '',
                                                              block_at(line)), ok_f, '%s:%s' % (tm.rel, line),
                       'the text is written into the module outside a string literal through %s, which does not '
                       'produce a Python string literal of that text' % ('|'.join(filters) or 'no filter'))
            continue
        field = None
        if root == 'definition' and path and path[0] in TEXT_FIELDS:
            field = path[0]
        elif root not in ('definition', 'mib', 'loop') and path and path[-1] in TEXT_FIELDS:
            field = '%s.%s' % (root, path[-1])      # member of a loop item (a revision, ...)
        elif root == 'definition' and path[:3] == ('default', 'default', 'value'):
            field = 'default.value'
        if field is None:
            continue
        escaped = any(f in PY_LITERAL_FILTERS for f in filters)
        key = '%s/%s%s@%s' % (state, field, ('|' + '|'.join(filters)) if filters else '', block_at(line))
        sites.setdefault(key, []).append((line, escaped))
    for key, occ in sorted(sites.items()):
        chk.ob(rule, 'template-literal %s' % key, all(e for _, e in occ), '%s:%s' % (tm.rel, occ[0][0]),
               'a text is placed in a %s string literal without escaping (%d site(s)): a backslash, a quote or '
               '(one-line literals) a kept line break changes the text or breaks the module' % (
                   'triple-quoted' if key.startswith('tq') else 'double-quoted', len(occ)))
    chk.floor(rule, 8, 'text-in-literal sites')
    # JSON side: bare tojson
    tj = TemplateModel(chk.repo, 'pysmi/codegen/templates/jsondoc/base.j2')
    outs = tj.outputs()
    ok = len(outs) == 1
    if ok:
        root, path, filters = expr_info(tj.env, outs[0][1])
        ok = root == 'mib' and filters == ['tojson']
    chk.ob(rule, 'jsondoc/base.j2-bare-tojson', ok, tj.rel,
           'the JSON document must be the tojson dump itself; post-processing the serialised text (%s) can corrupt '
           'escaped characters' % [o[1] for o in outs])


# fields other than the four texts that the pinned code emits only with texts, audited one by one
ALSO_GATED = {'lastupdated': 'LAST-UPDATED sits in the module-identity text block of genModuleIdentity; the revision '
                             'list itself (with its time stamps) is emitted unconditionally'}


def r7_only_texts_are_gated(chk, rule='C15.R7'):
    """the text switch controls the descriptive fields and nothing else"""
    model = chk.model
    ci = model.cls(INTER, 'IntermediateCodeGen')
    mod = ci.mod
    chk.doc(rule, 'no store of a record field other than description/reference/organization/contactinfo is '
                  'control-dependent on self.genRules["text"]: units, status, syntax, defaults, revisions ... are '
                  'emitted whether or not texts were requested')
    n = 0
    for mname, fn in sorted(ci.methods.items()):
        for s in ir.record_stores(fn):
            if not s.key or s.key[0] in GATED or s.key[0] in ALSO_GATED:
                continue
            if len(s.key) >= 2 and s.key[-1] in GATED:
                continue   # e.g. record['revisions'][i]['description']
            n += 1
            gated = [norm(t) for t, b in s.guards if any(mentions_text_switch(c) for c in ir.conjuncts(t))]
            chk.ob(rule, 'IntermediateCodeGen.%s/%s' % (mname, '.'.join(str(k) for k in s.key)), not gated,
                   where(mod, s.node), 'field %r is only stored when texts are requested (guard %s)' % (s.key[0], gated))
    chk.floor(rule, 60, 'non-text record stores')


def r5_text_tokens_verbatim(chk):
    """the parser hands the text between the quotes to the generators unchanged (C02.R4 under this property)"""
    from rules.C02 import r4_token_values
    r4_token_values(chk, rule='C15.R5')


def r6_text_field_provenance(chk):
    """description/reference/units/... of a record come from that clause of the statement (C03.R4 restricted to the
    text-bearing fields)"""
    from rules.C03 import r4_field_provenance
    r4_field_provenance(chk, rule='C15.R6', fields=PROVENANCE_FIELDS)


PROVENANCE_FIELDS = ('description', 'reference', 'units', 'organization', 'contactinfo', 'displayhint', 'lastupdated',
                     'revisions', 'productrelease')


def r8_reader_returns_the_text_as_stored(chk):
    """texts are intact only if the reader hands the lexer the characters of the file: binary read + decode, no
    text-mode newline translation (shared with C14.R1)"""
    from rules.C14 import r1_file_reader
    common.reuse(chk, r1_file_reader, ('C14.R1',), 'C15.R8',
                 'FileReader.getData opens the file in binary mode and returns decode(read(maxMibSize)): line breaks and '
                 'every other character inside quoted texts reach the lexer as stored (C14.R1)',
                 keep=lambda o: o.key.split('/')[-1] in ('binary-read', 'size-cap', 'same-path-stat-and-open'), floor=2)



def r10_revision_texts_all_kept(chk):
    """revision descriptions are texts of the module: one record per REVISION clause, none merged (shared with C03.R13)"""
    from rules.C03 import r13_collectors
    common.reuse(chk, r13_collectors, ('C03.R13',), 'C15.R10',
                 'genRevisions / genTime collect element-wise into a list that is returned as it is: every REVISION clause '
                 'keeps its own description (C03.R13)', floor=4)



def r9_text_reaches_the_lexer_as_given(chk):
    """quoted texts are intact only if parse() hands the lexer the text as given (shared with C02.R6)"""
    from rules.C02 import r6_entry_point
    r6_entry_point(chk, rule='C15.R9')



def r11_texts_not_html_escaped(chk):
    """texts reach the generated module as written: the Jinja environment must not auto-escape (shared with C04.R6)"""
    from rules.C04 import r6_sibling_tails
    common.reuse(chk, lambda c: r6_sibling_tails(c), ('C04.R6',), 'C15.R11',
                 'both code generators build jinja2.Environment(loader=..., trim_blocks=True, lstrip_blocks=True) and '
                 'nothing else: with autoescape every apostrophe, ampersand and angle bracket of a text comes out as '
                 'an HTML entity (C04.R6)', keep=lambda o: 'jinja-environment' in o.key, floor=2)



def r12_borrowed_copy_has_the_requested_flavour(chk):
    """shared with C19.R3: a borrowed module is written as it is - texts included"""
    from rules.C19 import r3_flavour
    common.reuse(chk, r3_flavour, ('C19.R3',), 'C15.R12',
                 'a borrower answers only requests of its own with-texts / without-texts flavour (C19.R3): a copy '
                 'borrowed from a with-texts repository carries DESCRIPTION etc. into the output of a run that did '
                 'not ask for texts', floor=1)



def r13_quoted_text_ends_at_the_next_quote(chk):
    """shared with C02.R13: a text ending in a backslash is a text like any other"""
    from rules.C02 import r13_quoted_text_ends_at_the_next_quote as f
    f(chk, rule='C15.R13')


RULES = [r1_gated_stores, r2_switch_plumbing, r3_text_handlers, r4_literal_positions, r5_text_tokens_verbatim,
         r6_text_field_provenance, r7_only_texts_are_gated, r8_reader_returns_the_text_as_stored, r10_revision_texts_all_kept, r9_text_reaches_the_lexer_as_given, r11_texts_not_html_escaped, r12_borrowed_copy_has_the_requested_flavour, r13_quoted_text_ends_at_the_next_quote]
