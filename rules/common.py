"""Small AST helpers shared by the rule modules."""
import ast

from vt.model import walk_no_nested, norm, dotted_name


def enclosing_function(node):
    a = getattr(node, '_parent', None)
    while a is not None:
        if isinstance(a, (ast.FunctionDef, ast.AsyncFunctionDef)):
            return a
        a = getattr(a, '_parent', None)
    return None


def enclosing_class(node):
    a = getattr(node, '_parent', None)
    while a is not None:
        if isinstance(a, ast.ClassDef):
            return a
        a = getattr(a, '_parent', None)
    return None


def qualname(fn):
    names = []
    a = fn
    while a is not None:
        if isinstance(a, (ast.FunctionDef, ast.AsyncFunctionDef, ast.ClassDef)):
            names.append(a.name)
        a = getattr(a, '_parent', None)
    return '.'.join(reversed(names))


def stmt_of(node):
    a = node
    while a is not None and not isinstance(a, ast.stmt):
        a = getattr(a, '_parent', None)
    return a


def guarded_by_membership(fn, sub):
    """True when the subscript load `T[k]` is preceded, on the structured path
    to it, by a membership test of `k` in `T` that leaves the function
    (raise/return/continue) when the key is absent, or sits in the true branch
    of `k in T` / the and-chain after `k in T`."""
    table, key = norm(sub.value), norm(sub.slice)
    # (1) enclosing `if k in T:` true-branch / and-chain / ternary
    child, a = sub, getattr(sub, '_parent', None)
    while a is not None and a is not fn:
        if isinstance(a, ast.If) and any(_within(child, s) for s in a.body) and _tests_in(a.test, key, table):
            return True
        if isinstance(a, ast.BoolOp) and isinstance(a.op, ast.And):
            idx = [i for i, v in enumerate(a.values) if _within(child, v)]
            if idx and any(_tests_in(v, key, table) for v in a.values[:idx[0]]):
                return True
        if isinstance(a, ast.IfExp) and _within(child, a.body) and _tests_in(a.test, key, table):
            return True
        child, a = a, getattr(a, '_parent', None)
    # (2) an earlier sibling statement `if k not in T: raise/return/continue` in an enclosing block
    st = stmt_of(sub)
    while st is not None and st is not fn:
        parent = getattr(st, '_parent', None)
        for field in ('body', 'orelse', 'finalbody'):
            seq = getattr(parent, field, None)
            if isinstance(seq, list) and any(s is st for s in seq):
                for prev in seq[:[i for i, s in enumerate(seq) if s is st][0]]:
                    if isinstance(prev, ast.If) and _tests_not_in(prev.test, key, table) and prev.body and \
                            isinstance(prev.body[-1], (ast.Raise, ast.Return, ast.Continue)):
                        return True
        st = parent if isinstance(parent, ast.stmt) else (
            getattr(parent, '_parent', None) if isinstance(parent, ast.ExceptHandler) else None)
    # (3) `T.get(k, default)` is not a subscript - handled by caller
    return False


def _within(node, root):
    a = node
    while a is not None:
        if a is root:
            return True
        a = getattr(a, '_parent', None)
    return False


def _tests_in(test, key, table):
    for n in ast.walk(test):
        if isinstance(n, ast.Compare) and len(n.ops) == 1 and isinstance(n.ops[0], ast.In) and \
                norm(n.left) == key and norm(n.comparators[0]) == table:
            # must be in a positive position: not under `not`, not in an `or`
            return not _negated(n, test)
    return False


def _tests_not_in(test, key, table):
    if isinstance(test, ast.Compare) and len(test.ops) == 1 and isinstance(test.ops[0], ast.NotIn) and \
            norm(test.left) == key and norm(test.comparators[0]) == table:
        return True
    if isinstance(test, ast.UnaryOp) and isinstance(test.op, ast.Not):
        return _tests_in(test.operand, key, table)
    return False


def _negated(n, root):
    a = getattr(n, '_parent', None)
    while a is not None and a is not getattr(root, '_parent', None):
        if isinstance(a, ast.UnaryOp) and isinstance(a.op, ast.Not):
            return True
        if isinstance(a, ast.BoolOp) and isinstance(a.op, ast.Or):
            return True
        if a is root:
            break
        a = getattr(a, '_parent', None)
    return False


def calls_in(node, attr=None, func=None):
    out = []
    for n in walk_no_nested(node):
        if isinstance(n, ast.Call):
            if attr and isinstance(n.func, ast.Attribute) and n.func.attr == attr:
                out.append(n)
            elif func and dotted_name(n.func) == func:
                out.append(n)
    return out


def is_self_attr(node, attr=None):
    return isinstance(node, ast.Attribute) and isinstance(node.value, ast.Name) and node.value.id == 'self' and (
        attr is None or node.attr == attr)


def const_str(node):
    return node.value if isinstance(node, ast.Constant) and isinstance(node.value, str) else None
