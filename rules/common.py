"""Small AST helpers shared by the rule modules."""
import ast

from vt.model import walk_no_nested, norm, dotted_name
from vt.runner import where


def enclosing_function(node):
    a = getattr(node, '_parent', None)
    while a is not None:
        if isinstance(a, (ast.FunctionDef, ast.AsyncFunctionDef)):
            return a
        a = getattr(a, '_parent', None)
    return None


def enclosing_class(node):
    a = getattr(node, '_parent', None)
    while a is not None:
        if isinstance(a, ast.ClassDef):
            return a
        a = getattr(a, '_parent', None)
    return None


def qualname(fn):
    names = []
    a = fn
    while a is not None:
        if isinstance(a, (ast.FunctionDef, ast.AsyncFunctionDef, ast.ClassDef)):
            names.append(a.name)
        a = getattr(a, '_parent', None)
    return '.'.join(reversed(names))


def stmt_of(node):
    a = node
    while a is not None and not isinstance(a, ast.stmt):
        a = getattr(a, '_parent', None)
    return a


def guarded_by_membership(fn, sub):
    """True when the subscript load `T[k]` is preceded, on the structured path
    to it, by a membership test of `k` in `T` that leaves the function
    (raise/return/continue) when the key is absent, or sits in the true branch
    of `k in T` / the and-chain after `k in T`."""
    table, key = norm(sub.value), norm(sub.slice)
    # (1) enclosing `if k in T:` true-branch / and-chain / ternary
    child, a = sub, getattr(sub, '_parent', None)
    while a is not None and a is not fn:
        if isinstance(a, ast.If) and any(_within(child, s) for s in a.body) and _tests_in(a.test, key, table):
            return True
        if isinstance(a, ast.BoolOp) and isinstance(a.op, ast.And):
            idx = [i for i, v in enumerate(a.values) if _within(child, v)]
            if idx and any(_tests_in(v, key, table) for v in a.values[:idx[0]]):
                return True
        if isinstance(a, ast.IfExp) and _within(child, a.body) and _tests_in(a.test, key, table):
            return True
        child, a = a, getattr(a, '_parent', None)
    # (2) an earlier sibling statement `if k not in T: raise/return/continue` in an enclosing block
    st = stmt_of(sub)
    while st is not None and st is not fn:
        parent = getattr(st, '_parent', None)
        for field in ('body', 'orelse', 'finalbody'):
            seq = getattr(parent, field, None)
            if isinstance(seq, list) and any(s is st for s in seq):
                for prev in seq[:[i for i, s in enumerate(seq) if s is st][0]]:
                    if isinstance(prev, ast.If) and _tests_not_in(prev.test, key, table) and prev.body and \
                            isinstance(prev.body[-1], (ast.Raise, ast.Return, ast.Continue)):
                        return True
        st = parent if isinstance(parent, ast.stmt) else (
            getattr(parent, '_parent', None) if isinstance(parent, ast.ExceptHandler) else None)
    # (3) `T.get(k, default)` is not a subscript - handled by caller
    return False


def _within(node, root):
    a = node
    while a is not None:
        if a is root:
            return True
        a = getattr(a, '_parent', None)
    return False


def _tests_in(test, key, table):
    for n in ast.walk(test):
        if isinstance(n, ast.Compare) and len(n.ops) == 1 and isinstance(n.ops[0], ast.In) and \
                norm(n.left) == key and norm(n.comparators[0]) == table:
            # must be in a positive position: not under `not`, not in an `or`
            return not _negated(n, test)
    return False


def _tests_not_in(test, key, table):
    if isinstance(test, ast.Compare) and len(test.ops) == 1 and isinstance(test.ops[0], ast.NotIn) and \
            norm(test.left) == key and norm(test.comparators[0]) == table:
        return True
    if isinstance(test, ast.UnaryOp) and isinstance(test.op, ast.Not):
        return _tests_in(test.operand, key, table)
    return False


def _negated(n, root):
    a = getattr(n, '_parent', None)
    while a is not None and a is not getattr(root, '_parent', None):
        if isinstance(a, ast.UnaryOp) and isinstance(a.op, ast.Not):
            return True
        if isinstance(a, ast.BoolOp) and isinstance(a.op, ast.Or):
            return True
        if a is root:
            break
        a = getattr(a, '_parent', None)
    return False


def calls_in(node, attr=None, func=None):
    out = []
    for n in walk_no_nested(node):
        if isinstance(n, ast.Call):
            if attr and isinstance(n.func, ast.Attribute) and n.func.attr == attr:
                out.append(n)
            elif func and dotted_name(n.func) == func:
                out.append(n)
    return out


def is_self_attr(node, attr=None):
    return isinstance(node, ast.Attribute) and isinstance(node.value, ast.Name) and node.value.id == 'self' and (
        attr is None or node.attr == attr)


def const_str(node):
    return node.value if isinstance(node, ast.Constant) and isinstance(node.value, str) else None


def pmatch(text, pattern, full=True):
    """Match normalised source text against a pattern in which $name stands for an identifier (bound consistently).
    Returns the binding dict or None.  `text` may be an ast node."""
    import re
    if not isinstance(text, str):
        text = norm(text)
    out, seen, i = [], [], 0
    for m in re.finditer(r'\$(\w+)', pattern):
        out.append(re.escape(pattern[i:m.start()]))
        name = m.group(1)
        if name in seen:
            out.append('(?P=%s)' % name)
        else:
            seen.append(name)
            out.append(r'(?P<%s>[A-Za-z_]\w*)' % name)
        i = m.end()
    out.append(re.escape(pattern[i:]))
    rx = ''.join(out)
    m = re.fullmatch(rx, text) if full else re.search(rx, text)
    return m.groupdict() if m else None


def pfind(texts, pattern, full=True):
    """first binding of pattern among an iterable of nodes/texts"""
    for t in texts:
        b = pmatch(t, pattern, full)
        if b is not None:
            return b
    return None


def canon_text(node):
    """normalised source text with local identifiers replaced by positional placeholders (v0, v1, ...) in order of
    first occurrence: equal for code that differs only in the names of its variables"""
    import copy
    names = {}

    class R(ast.NodeTransformer):
        def visit_Name(self, n):
            if n.id in ('self', 'True', 'False', 'None') or n.id[:1].isupper():
                return n
            if n.id not in names:
                names[n.id] = 'v%d' % len(names)
            return ast.copy_location(ast.Name(id=names[n.id], ctx=n.ctx), n)

        def visit_Attribute(self, n):
            # keep module/attribute chains such as os.path.join, jinja2.Environment intact
            if dotted_name(n) and not dotted_name(n).startswith('self.') and isinstance(n.value, (ast.Name, ast.Attribute)) \
                    and dotted_name(n).split('.')[0] in ('os', 'sys', 'jinja2', 'error', 'debug', 'jfilters', 're', 'json'):
                return n
            self.generic_visit(n)
            return n

        def visit_arg(self, n):
            return n
    return norm(R().visit(copy.deepcopy(node)))


# ---------------------------------------------------------------------------------------------------------------------
# argument/parameter agreement for resolved intra-package calls
def _bind(call, fn, is_method):
    """[(param name, arg node)] for the explicit arguments of `call` against the signature of `fn`, or None when the
    call uses * / ** or does not fit"""
    params = [a.arg for a in fn.args.args]
    if is_method and params:
        params = params[1:]
    if any(isinstance(a, ast.Starred) for a in call.args) or any(k.arg is None for k in call.keywords):
        return None
    out = []
    for i, a in enumerate(call.args):
        if i < len(params):
            out.append((params[i], a))
        elif fn.args.vararg is None:
            out.append((None, a))   # too many positional arguments
    names = set(params) | set(a.arg for a in fn.args.kwonlyargs)
    for k in call.keywords:
        out.append((k.arg if (k.arg in names or fn.args.kwarg is None) else '**', k.value))
    return out


def resolved_calls(model, rels):
    """(module, enclosing class info or None, enclosing function, call, callee owner module, callee fn, is_method)
    for calls whose callee the source model resolves: self.m(...), Class(...), module-level f(...)"""
    for rel in rels:
        mod = model.mod(rel, required=False)
        if mod is None:
            continue
        scopes = [(None, f) for f in mod.functions()]
        for c in mod.classes():
            ci = model.cls(rel, c.name)
            for mname, fn in ci.methods.items():
                scopes.append((ci, fn))
        scopes.append((None, mod.tree))
        for ci, scope in scopes:
            it = walk_no_nested(scope) if not isinstance(scope, ast.Module) else (
                n for st in scope.body if not isinstance(st, (ast.FunctionDef, ast.ClassDef)) for n in ast.walk(st))
            for call in it:
                if not isinstance(call, ast.Call):
                    continue
                f = call.func
                if ci is not None and isinstance(f, ast.Attribute) and isinstance(f.value, ast.Name) and \
                        f.value.id == 'self':
                    o, fn = ci.find_method(f.attr)
                    if fn is not None and not any(norm(d) in ('staticmethod', 'classmethod') for d in fn.decorator_list):
                        yield mod, ci, scope, call, o.mod, fn, True
                    continue
                if isinstance(f, (ast.Name, ast.Attribute)):
                    target = None
                    try:
                        target = model.resolve_class(mod, f)
                    except Exception:
                        target = None
                    if target is not None:
                        o, fn = target.find_method('__init__')
                        if fn is not None:
                            yield mod, ci, scope, call, o.mod, fn, True
                        continue
                    if isinstance(f, ast.Name):
                        for g in mod.functions():
                            if g.name == f.id:
                                yield mod, ci, scope, call, mod, g, False
                        imp = mod.imports.get(f.id)
                        if imp and imp[0] == 'symbol':
                            m2 = model.by_dotted.get(imp[1])
                            if m2 is not None:
                                for g in m2.functions():
                                    if g.name == imp[2]:
                                        yield mod, ci, scope, call, m2, g, False


def argument_agreement(chk, rule, rels, floor=None):
    """A variable that carries the name of one of the callee's parameters is passed as that parameter, not as a
    different one; the call supplies no unknown keyword and not more positional arguments than the callee takes."""
    model = chk.model
    chk.doc(rule, 'calls resolved inside the package (self.method(...), Class(...), module functions): no unknown '
                  'keyword argument, no surplus positional argument, and a caller variable named like a parameter of '
                  'the callee is bound to that parameter and to no other (wrong-slot arguments)')
    n = 0
    for mod, ci, scope, call, omod, fn, is_method in resolved_calls(model, rels):
        b = _bind(call, fn, is_method)
        if b is None:
            continue
        n += 1
        params = [a.arg for a in fn.args.args][1 if is_method else 0:] + [a.arg for a in fn.args.kwonlyargs]
        label = '%s->%s' % (getattr(scope, 'name', '<module>'), norm(call.func))
        for p, a in b:
            if p is None:
                chk.ob(rule, '%s/surplus-argument' % label, False, where(mod, call), 'more positional arguments than '
                       'parameters of %s' % fn.name)
            elif p == '**':
                pass
            elif p not in params and fn.args.kwarg is None:
                chk.ob(rule, '%s/unknown-keyword %s' % (label, p), False, where(mod, call), '%s() has no parameter %s' % (
                    fn.name, p))
        bound = dict((p, a) for p, a in b if p not in (None, '**'))
        for p, a in bound.items():
            if isinstance(a, ast.Name) and a.id != p and a.id in params:
                other = bound.get(a.id)
                if other is not None and isinstance(other, ast.Name) and other.id == a.id:
                    continue
                chk.ob(rule, '%s/%s-as-%s' % (label, a.id, p), False, where(mod, call),
                       'variable %s is passed as parameter %s although %s() has a parameter named %s (bound to %s)' % (
                           a.id, p, fn.name, a.id, norm(other) if other is not None else 'its default'))
        # weaker form of the same check: the variable's name contains the name of another parameter (mibParser passed
        # as `codegen` while the callee has `parser`)
        for p, a in bound.items():
            if isinstance(a, ast.Name) and a.id != p:
                low = a.id.lower()
                if p.lower() in low:
                    continue
                for q in params:
                    if q != p and len(q) >= 4 and q.lower() in low:
                        other = bound.get(q)
                        if other is not None and isinstance(other, ast.Name) and q.lower() in other.id.lower():
                            continue
                        chk.ob(rule, '%s/%s-as-%s' % (label, a.id, p), False, where(mod, call),
                               'variable %s is passed as parameter %s although %s() has a parameter named %s' % (
                                   a.id, p, fn.name, q))
        chk.ob(rule, '%s@%d/binding' % (label, call.lineno), True, where(mod, call), '')
    if floor:
        chk.floor(rule, floor, 'resolved calls')
    return n


MUTATORS = ('remove', 'append', 'insert', 'pop', 'extend', 'clear', 'sort', 'reverse', 'popitem', 'add', 'discard')


def no_mutation_while_iterating(chk, rule, rels, floor=None):
    """a container is not resized inside a `for` loop that iterates over that very container (elements would be
    skipped or visited twice); iterating a copy (list(x), sorted(x), x.copy(), x[:]) is the accepted idiom"""
    model = chk.model
    chk.doc(rule, 'no `for v in X:` body calls X.remove/append/insert/pop/extend/clear/sort/reverse/add/discard, '
                  'deletes X[...] or augments X, where X is the iterated expression itself (a copy such as list(X) '
                  'is fine)')
    n = 0
    for rel in rels:
        mod = model.mod(rel, required=False)
        if mod is None:
            continue
        for loop in ast.walk(mod.tree):
            if not isinstance(loop, ast.For) or not isinstance(loop.iter, (ast.Name, ast.Attribute, ast.Subscript)):
                continue
            if getattr(loop, '_iter_copied', None):
                continue   # written `for x in list(X)`: a snapshot is iterated
            x = norm(loop.iter)
            n += 1
            bad = []
            for st in loop.body:
                for e in ast.walk(st):
                    if isinstance(e, ast.Call) and isinstance(e.func, ast.Attribute) and e.func.attr in MUTATORS and \
                            norm(e.func.value) == x:
                        bad.append(e)
                    if isinstance(e, ast.Delete) and any(isinstance(t, ast.Subscript) and norm(t.value) == x
                                                         for t in e.targets):
                        bad.append(e)
                    if isinstance(e, ast.AugAssign) and norm(e.target) == x:
                        bad.append(e)
            chk.ob(rule, '%s:for %s in %s@%d' % (rel.split('/')[-1], norm(loop.target), x[:40], loop.lineno), not bad,
                   where(mod, bad[0] if bad else loop),
                   'the loop iterates %s and its body changes it (%s): elements are skipped' % (
                       x, norm(bad[0])[:60] if bad else ''))
    if floor:
        chk.floor(rule, floor, 'loops over a named container')
    return n


# ---------------------------------------------------------------------------------------------------------------------
# reachability under a valuation of pure predicates ("S runs only when P holds" / "S can run when P holds")
_NEGOP = {ast.Lt: ast.GtE, ast.GtE: ast.Lt, ast.Gt: ast.LtE, ast.LtE: ast.Gt, ast.Eq: ast.NotEq, ast.NotEq: ast.Eq,
          ast.In: ast.NotIn, ast.NotIn: ast.In, ast.Is: ast.IsNot, ast.IsNot: ast.Is}


def eval3(e, val):
    """True / False / None (unknown) of test expression e under `val`: {normalised predicate text: bool}.  A
    comparison is also recognised through its negated spelling (`a < b` when `a >= b` is an atom)."""
    t = norm(e)
    if t in val:
        return val[t]
    if isinstance(e, ast.Compare) and len(e.ops) == 1 and type(e.ops[0]) in _NEGOP:
        neg = ast.Compare(left=e.left, ops=[_NEGOP[type(e.ops[0])]()], comparators=e.comparators)
        tn = norm(neg)
        if tn in val:
            return not val[tn]
    if isinstance(e, ast.UnaryOp) and isinstance(e.op, ast.Not):
        v = eval3(e.operand, val)
        return None if v is None else not v
    if isinstance(e, ast.BoolOp):
        vs = [eval3(x, val) for x in e.values]
        if isinstance(e.op, ast.And):
            if any(v is False for v in vs):
                return False
            return True if all(v is True for v in vs) else None
        if any(v is True for v in vs):
            return True
        return False if all(v is False for v in vs) else None
    if isinstance(e, ast.Constant):
        return bool(e.value)
    return None


def reach_under(cfg, srcs, val, avoid=()):
    """nodes reachable from srcs when every test whose value `val` determines follows only that edge"""
    def ef(a, b, l):
        if a.kind == 'test' and l in ('T', 'F') and a.expr is not None:
            v = eval3(a.expr, val)
            if v is True and l == 'F':
                return False
            if v is False and l == 'T':
                return False
        return True
    return cfg.reach(srcs, avoid=avoid, edge_filter=ef)


def requires(chk, rule, key, cfg, mod, targets, needed, detail=''):
    """obligations: no node of `targets` is reachable from the function entry when one predicate of `needed`
    ({text: bool}) has the opposite value, and some target is reachable when all have the needed value"""
    targets = [t for t in targets if t is not None]
    chk.ob(rule, key + '/present', bool(targets), mod.rel, 'the guarded statement was not found. ' + detail)
    if not targets:
        return
    for atom, v in sorted(needed.items()):
        seen = reach_under(cfg, [cfg.entry], {atom: (not v)})
        hit = [t for t in targets if t in seen]
        chk.ob(rule, '%s/only-when %s%s' % (key, '' if v else 'not ', atom), not hit,
               where(mod, hit[0].ast) if hit else where(mod, targets[0].ast),
               'reachable although `%s` is %s. %s' % (atom, not v, detail))
    seen = reach_under(cfg, [cfg.entry], dict(needed))
    chk.ob(rule, '%s/reachable-when-all-hold' % key, any(t in seen for t in targets), where(mod, targets[0].ast),
           'not reachable when %s. %s' % (needed, detail))


# ---------------------------------------------------------------------------------------------------------------------
# names, attributes and results exist where they are used
DEFINITE_ASSIGNMENT_AUDIT = {
    # (module, function): names assigned only inside the loop over the function's parameter are exempt, because ...
    ('pysmi/reader/zipreader.py', '_readZipFile'):
        'the reference chain built by _readZipDirectory is never empty and its first element always carries the '
        'archive file object, so the loop body runs at least once and the data object is assigned before the second '
        'iteration reads it',
}


def _audited_loop_carried(fn, var):
    """every assignment of `var` lies inside a `for ... in <parameter of fn>` loop (as target or in the body)"""
    params = set(a.arg for a in fn.args.args)
    loops = [l_ for l_ in ast.walk(fn) if isinstance(l_, ast.For) and isinstance(l_.iter, ast.Name) and l_.iter.id in params]
    if not loops:
        return False
    for n_ in ast.walk(fn):
        if isinstance(n_, ast.Name) and n_.id == var and isinstance(n_.ctx, ast.Store):
            if not any(_within(n_, l_) for l_ in loops):
                return False
    return True


def wellformedness(chk, rule, rels, floor=None):
    """(a) every local variable is assigned on every path to each of its uses; (b) every self.<attr> that is read is
    assigned somewhere in the class hierarchy; (c) a function whose result some caller uses returns a value on every
    path that returns.  A violation means NameError / AttributeError / a None where a value is expected on the path
    concerned - a foreign exception out of the behaviour the property describes."""
    from vt import defuse
    from vt.cfg import CFG
    model = chk.model
    chk.doc(rule, 'in %s: definite assignment of locals (CFG dataflow; exceptional edges carry the state before the '
                  'statement; sys.exit does not fall through), self attributes read are assigned in the class '
                  'hierarchy, functions/methods whose result is used (resolved by name inside the package; '
                  'handlersTable part handlers) return a value on every returning path' % ', '.join(
                      sorted(set(r.rsplit('/', 1)[0] for r in rels))))
    nfun = 0
    for rel in rels:
        mod = model.mod(rel, required=False)
        if mod is None:
            continue
        scopes = [('<module>', mod.tree)]
        mglobals = defuse.module_level_names(mod.tree)
        encl = {}
        for node in ast.walk(mod.tree):
            if isinstance(node, (ast.FunctionDef, ast.AsyncFunctionDef)):
                scopes.append((node.name, node))
                # names of enclosing function scopes (closures) and class-body names are visible or resolved elsewhere
                a, names = getattr(node, '_parent', None), set()
                while a is not None:
                    if isinstance(a, (ast.FunctionDef, ast.AsyncFunctionDef)):
                        names |= set(x.arg for x in a.args.args + a.args.kwonlyargs)
                        if a.args.vararg:
                            names.add(a.args.vararg.arg)
                        if a.args.kwarg:
                            names.add(a.args.kwarg.arg)
                        names |= set(n2.id for n2 in ast.walk(a) if isinstance(n2, ast.Name) and
                                     isinstance(n2.ctx, ast.Store))
                        names |= set(n2.name for n2 in ast.walk(a) if isinstance(n2, (ast.FunctionDef, ast.ClassDef)))
                    a = getattr(a, '_parent', None)
                encl[id(node)] = names
        for name, fn in scopes:
            nfun += 1
            bad = []
            for var, use in defuse.possibly_undefined(fn, module_globals=mglobals, enclosing=encl.get(id(fn), ())):
                if (rel, name) in DEFINITE_ASSIGNMENT_AUDIT and _audited_loop_carried(fn, var):
                    continue
                bad.append((var, use))
            chk.ob(rule, '%s:%s/locals-assigned-before-use%s' % (rel.split('/', 1)[-1], name, (
                '@%d' % fn.lineno) if name != '<module>' and sum(1 for n2, _ in scopes if n2 == name) > 1 else ''),
                not bad, where(mod, bad[0][1]) if bad else where(mod, fn) if name != '<module>' else rel,
                'name `%s` can be read before it is assigned, or is defined nowhere (NameError/UnboundLocalError)' % (
                    bad[0][0] if bad else ''))
        for c in mod.classes():
            ci = model.cls(rel, c.name)
            r_ = defuse.undefined_self_attributes(model, ci)
            if r_ is None:
                continue
            chk.ob(rule, '%s:%s/self-attributes-defined' % (rel.split('/', 1)[-1], c.name), not r_,
                   where(mod, r_[0][1]) if r_ else where(mod, c),
                   'self.%s is read but never assigned in %s or its bases (AttributeError)' % (
                       r_[0][0] if r_ else '', c.name))
    # (c) results that are used
    defs = {}
    for rel2, mod2 in model.modules.items():
        for c in mod2.classes():
            for mname, fn in model.cls(rel2, c.name).methods.items():
                defs.setdefault(mname, []).append((rel2, c.name, fn))
        for fn in mod2.functions():
            defs.setdefault(fn.name, []).append((rel2, None, fn))
    used = set()
    for rel2, mod2 in model.modules.items():
        for call in ast.walk(mod2.tree):
            if not isinstance(call, ast.Call):
                continue
            par = getattr(call, '_parent', None)
            if isinstance(par, (ast.Expr, ast.Return)):
                continue
            f = call.func
            nm = f.attr if isinstance(f, ast.Attribute) else f.id if isinstance(f, ast.Name) else None
            if nm in defs:
                used.add(nm)
    for nm in sorted(used):
        for rel2, cname, fn in defs[nm]:
            if rel2 not in rels:
                continue
            r_ = defuse.returns_none_somewhere(fn)
            chk.ob(rule, '%s:%s.%s/returns-a-value' % (rel2.split('/', 1)[-1], cname or '', nm), not r_,
                   where(model.mod(rel2), r_[0]) if r_ else where(model.mod(rel2), fn),
                   'callers use the result of %s() but this path returns None' % nm)
    if floor:
        chk.floor(rule, floor, 'scopes, classes and used results')
    return nfun


def part_handlers_return(chk, rule, rel, cname):
    """handlers reached through prepData (every handlersTable entry that is not a top-level clause) hand their result
    to the enclosing clause: they return a value on every path"""
    from vt import defuse
    from rules import ir
    model = chk.model
    ci = model.cls(rel, cname)
    tbl = ir.handlers_table(ci)
    n = 0
    for tag, h in sorted(tbl.items()):
        if tag in ir.CLAUSES:
            continue
        o, fn = ci.find_method(h)
        if fn is None:
            chk.ob(rule, '%s.%s/present' % (cname, h), False, rel, 'handler %s of %s is missing' % (h, tag))
            continue
        r_ = defuse.returns_none_somewhere(fn)
        n += 1
        chk.ob(rule, '%s.%s/returns-a-value' % (cname, h), not r_, where(o.mod, r_[0]) if r_ else where(o.mod, fn),
               'the value of a %s part is taken from this handler by prepData, but this path returns None' % tag)
    return n


def contradictory_lookups(chk, rule, rels, floor=None):
    """`D[k]` read or `del D[k]` on the branch where the enclosing test says `k not in D` (or in the else-branch of
    `k in D`), with no store to D[k] in between: a certain KeyError"""
    model = chk.model
    chk.doc(rule, 'no subscript read / del D[k] lies on the branch of an enclosing `if` that establishes `k not in D` '
                  '(true branch of `k not in D`, false branch of `k in D`) unless D[k] is stored earlier in that branch')
    n = 0
    for rel in rels:
        mod = model.mod(rel, required=False)
        if mod is None:
            continue
        for sub in ast.walk(mod.tree):
            if not (isinstance(sub, ast.Subscript) and isinstance(sub.ctx, (ast.Load, ast.Del))):
                continue
            d, k = norm(sub.value), norm(sub.slice)
            child, a = sub, getattr(sub, '_parent', None)
            while a is not None and not isinstance(a, (ast.FunctionDef, ast.Module, ast.ClassDef)):
                if isinstance(a, ast.If):
                    for cj in (a.test.values if isinstance(a.test, ast.BoolOp) and isinstance(a.test.op, ast.And)
                               else [a.test]):
                        if isinstance(cj, ast.Compare) and len(cj.ops) == 1 and norm(cj.left) == k and \
                                norm(cj.comparators[0]) == d:
                            in_body = any(_within(child, st) for st in a.body)
                            in_else = any(_within(child, st) for st in a.orelse)
                            absent = (isinstance(cj.ops[0], ast.NotIn) and in_body) or (
                                isinstance(cj.ops[0], ast.In) and in_else and cj is a.test)
                            if absent:
                                branch = a.body if in_body else a.orelse
                                stored = any(isinstance(st, ast.Assign) and any(
                                    isinstance(t, ast.Subscript) and norm(t.value) == d and norm(t.slice) == k
                                    for t in st.targets) and st.lineno <= sub.lineno for st in branch for st in ast.walk(st)
                                    if isinstance(st, ast.Assign))
                                n += 1
                                chk.ob(rule, '%s:%s[%s]@absent-branch#%d' % (rel.split('/')[-1], d, k, n), stored,
                                       where(mod, sub), '%s[%s] is used where the enclosing test `%s` says the key is '
                                       'absent: KeyError' % (d, k, norm(a.test)[:60]))
                child, a = a, getattr(a, '_parent', None)
        # the dual: D[k] = <empty container> on the branch where k is known to be present wipes what was collected
        for st in ast.walk(mod.tree):
            if not (isinstance(st, ast.Assign) and len(st.targets) == 1 and isinstance(st.targets[0], ast.Subscript)):
                continue
            v = st.value
            empty = (isinstance(v, (ast.List, ast.Tuple, ast.Set)) and not v.elts) or (
                isinstance(v, ast.Dict) and not v.keys) or (isinstance(v, ast.Call) and not v.args and not v.keywords and
                                                            dotted_name(v.func) in ('set', 'dict', 'list', 'OrderedDict'))
            if not empty:
                continue
            d, k = norm(st.targets[0].value), norm(st.targets[0].slice)
            child, a = st, getattr(st, '_parent', None)
            guarded = False
            while a is not None and not isinstance(a, (ast.FunctionDef, ast.Module, ast.ClassDef)):
                if isinstance(a, ast.If) and isinstance(a.test, ast.Compare) and len(a.test.ops) == 1 and \
                        norm(a.test.left) == k and norm(a.test.comparators[0]) == d:
                    in_body = any(_within(child, s2) for s2 in a.body)
                    present = (isinstance(a.test.ops[0], ast.In) and in_body) or (
                        isinstance(a.test.ops[0], ast.NotIn) and not in_body)
                    guarded = True
                    n += 1
                    chk.ob(rule, '%s:%s[%s]=empty#%d' % (rel.split('/')[-1], d, k, n), not present, where(mod, st),
                           '%s[%s] is reset to an empty container exactly when the key is already present: what was '
                           'collected under it is lost' % (d, k))
                child, a = a, getattr(a, '_parent', None)
    chk.ob(rule, 'scan', True, ','.join(sorted(set(r.split('/')[1] if '/' in r else r for r in rels)))[:80],
           '%d guarded-absent uses / guarded initialisations' % n)
    return n


def given_values_not_discarded(chk, rule, rels):
    """`if V: V = <something that does not use V>` throws away a value that was given; the default-filling idiom is
    `if not V: V = <default>`"""
    model = chk.model
    chk.doc(rule, 'no `if V:` (positive truthiness of a variable) whose body re-binds V to an expression that does not '
                  'mention V: defaults replace empty values only (`if not V: V = default`)')
    n = 0
    for rel in rels:
        mod = model.mod(rel, required=False)
        if mod is None:
            continue
        for node in ast.walk(mod.tree):
            if not isinstance(node, ast.If):
                continue
            t0, neg = node.test, False
            while isinstance(t0, ast.UnaryOp) and isinstance(t0.op, ast.Not):
                t0, neg = t0.operand, not neg
            tests = [(t0, node.orelse if neg else node.body)]
            if neg:
                n += 1
            for t, branch in tests:
                if not isinstance(t, ast.Name):
                    continue
                for st in branch:
                    if isinstance(st, ast.Assign) and len(st.targets) == 1 and norm(st.targets[0]) == t.id and \
                            t.id not in [x.id for x in ast.walk(st.value) if isinstance(x, ast.Name)]:
                        chk.ob(rule, '%s:%s-discarded@%d' % (rel.split('/')[-1], t.id, n), False, where(mod, st),
                               '`%s` is replaced by %s exactly when it has a value' % (t.id, norm(st.value)[:50]))
    chk.ob(rule, 'default-filling-idioms', n >= 0, ','.join(r.split('/')[-1] for r in rels)[:80],
           '%d `if not V` guards seen' % n)


def reuse(chk, rule_fn, src_rules, new_rule, doc, keep=None, floor=1):
    """Register the obligations another property's rule produces (ids in src_rules) under `new_rule` of this
    property: one implementation, several properties whose behaviour depends on the same mechanism."""
    from vt.runner import Check
    tmp = Check(chk.prop, chk.tier, chk.model, chk.repo)
    rule_fn(tmp)
    chk.doc(new_rule, doc)
    n = 0
    for o in tmp.obligations:
        if o.rule in src_rules and (keep is None or keep(o)):
            chk.ob(new_rule, o.key, o.ok, o.where, o.detail)
            n += 1
    chk.units.update(tmp.units)
    chk.floor(new_rule, floor, 'instances of %s' % '/'.join(src_rules))
    return n


SHARED_MUTATORS = ('append', 'extend', 'insert', 'remove', 'pop', 'clear', 'update', 'setdefault', 'add', 'discard',
                   'popitem', 'sort', 'reverse')


def no_mutation_of_class_tables_through_aliases(chk, rule, rels, floor=1):
    """A local bound directly to `<Class>.<attr>` (or `cls.<attr>` / `self.__class__.<attr>`) - no copy, no
    constructor around it - is the class-level object itself.  Storing into it, deleting from it, calling a mutating
    method on it or augmenting it changes the table for every other user of that class (all dialects, all instances,
    for the rest of the process).  Same for such an expression mutated directly."""
    import ast as _ast
    from vt.model import walk_no_nested, norm
    from vt.runner import where
    chk.doc(rule, 'no function binds a local directly to a class-level attribute of a class of the package '
                  '(`x = SomeClass.table`) and then modifies it in place (item store / del, mutating method, augmented '
                  'assignment): tables derived from another class are copied first (dict(..), list(..), [:], .copy())')
    n = 0
    for rel in rels:
        mod = chk.model.mod(rel, required=False)
        if mod is None:
            continue
        funcs = [f for f in _ast.walk(mod.tree) if isinstance(f, (_ast.FunctionDef, _ast.Lambda))]
        for fn in funcs:
            if isinstance(fn, _ast.Lambda):
                continue
            aliases = {}

            def is_class_attr(e):
                if not isinstance(e, _ast.Attribute):
                    return False
                b = e.value
                if isinstance(b, _ast.Name) and b.id == 'cls':
                    return True
                if norm(b) in ('self.__class__', 'type(self)'):
                    return True
                return isinstance(b, (_ast.Name, _ast.Attribute)) and chk.model.resolve_class(mod, b) is not None
            for st in walk_no_nested(fn):
                if isinstance(st, _ast.Assign) and len(st.targets) == 1 and isinstance(st.targets[0], _ast.Name) and \
                        is_class_attr(st.value):
                    aliases[st.targets[0].id] = st
            rebinds = {}
            for st in walk_no_nested(fn):
                if isinstance(st, _ast.Assign):
                    for t in st.targets:
                        if isinstance(t, _ast.Name) and t.id in aliases and aliases[t.id] is not st:
                            rebinds[t.id] = st
            for name in rebinds:
                aliases.pop(name, None)     # rebound later: not tracked (flow-insensitive, so stay silent)

            def shared(e):
                return (isinstance(e, _ast.Name) and e.id in aliases) or is_class_attr(e)
            for x in walk_no_nested(fn):
                hit = None
                if isinstance(x, _ast.Assign):
                    for t in x.targets:
                        if isinstance(t, _ast.Subscript) and shared(t.value):
                            hit = t.value
                elif isinstance(x, _ast.AugAssign):
                    if shared(x.target) or (isinstance(x.target, _ast.Subscript) and shared(x.target.value)):
                        hit = x.target if not isinstance(x.target, _ast.Subscript) else x.target.value
                elif isinstance(x, _ast.Delete):
                    for t in x.targets:
                        if isinstance(t, _ast.Subscript) and shared(t.value):
                            hit = t.value
                elif isinstance(x, _ast.Call) and isinstance(x.func, _ast.Attribute) and \
                        x.func.attr in SHARED_MUTATORS and shared(x.func.value):
                    hit = x.func.value
                if hit is not None:
                    n += 1
                    src = norm(aliases[hit.id].value) if isinstance(hit, _ast.Name) and hit.id in aliases else norm(hit)
                    chk.ob(rule, '%s:%s/in-place change of %s' % (rel.split('/')[-1], getattr(fn, 'name', '?'), src),
                           False, where(mod, x),
                           '`%s` modifies the class-level object %s itself (no copy was taken): every other user of that '
                           'class sees the change' % (norm(x)[:70], src))
        n += 1
        chk.ob(rule, '%s/scanned' % rel, True, rel, '')
    chk.floor(rule, floor, 'modules scanned')


def format_arity(chk, rule, rels, floor=20):
    """`'..%s..%s' % x`: the number of conversion specifiers equals the number of values supplied.  A mismatch raises
    TypeError where the message was to be built - in an error path that means a foreign exception instead of the
    package error the message was meant for."""
    import ast as _ast
    import re as _re
    from vt.model import norm
    from vt.runner import where
    chk.doc(rule, 'every `<string constant> % <values>`: a tuple display on the right has as many items as the string '
                  'has conversion specifiers; a single non-tuple value stands for exactly one specifier (a name bound to '
                  'a tuple display in the same function counts with its length)')
    spec = _re.compile(r'%(?:\((\w+)\))?[#0\- +]*(\*|\d+)?(?:\.(\*|\d+))?[hlL]?([diouxXeEfFgGcrsa%])')
    n = 0
    for rel in rels:
        mod = chk.model.mod(rel, required=False)
        if mod is None:
            continue
        for fn in [f for f in _ast.walk(mod.tree) if isinstance(f, (_ast.FunctionDef, _ast.Module))]:
            tuples = {}
            for st in _ast.walk(fn):
                if isinstance(st, _ast.Assign) and len(st.targets) == 1 and isinstance(st.targets[0], _ast.Name) and \
                        isinstance(st.value, _ast.Tuple):
                    tuples.setdefault(st.targets[0].id, set()).add(len(st.value.elts))
            if isinstance(fn, _ast.Module):
                continue
            for x in _ast.walk(fn):
                if not (isinstance(x, _ast.BinOp) and isinstance(x.op, _ast.Mod) and isinstance(x.left, _ast.Constant) and
                        isinstance(x.left.value, str)):
                    continue
                want, named = 0, False
                for m in spec.finditer(x.left.value):
                    if m.group(4) == '%':
                        continue
                    if m.group(1):
                        named = True
                    want += 1 + (m.group(2) == '*') + (m.group(3) == '*')
                if named:
                    continue
                r = x.right
                if isinstance(r, _ast.Tuple):
                    if any(isinstance(e, _ast.Starred) for e in r.elts):
                        continue
                    got = len(r.elts)
                elif isinstance(r, _ast.Name) and r.id in tuples and len(tuples[r.id]) == 1:
                    got = list(tuples[r.id])[0]
                elif isinstance(r, (_ast.Dict,)):
                    continue
                else:
                    got = 1
                    if want != 1 and isinstance(r, (_ast.Call, _ast.Subscript, _ast.Attribute)) and \
                            not isinstance(r, _ast.Constant):
                        # a call / subscript / attribute may well be a tuple: only a bare name or literal is certain
                        if not isinstance(r, _ast.Attribute):
                            continue
                n += 1
                chk.ob(rule, '%s:%s/%s' % (rel.split('/')[-1], getattr(fn, 'name', '?'), norm(x.left)[:40]), want == got,
                       where(mod, x), 'the format string has %d conversion specifier(s), %d value(s) are supplied '
                                      '(`%s`): TypeError when this line runs' % (want, got, norm(x)[:90]))
    chk.floor(rule, floor, 'format operations')


def no_value_taken_from_an_absent_operand(chk, rule, rels, floor=10):
    """`if not V: ... V ...` - inside the branch that is taken when V is false/empty/None, V itself is used as a
    value (stored, passed on, indexed).  Optional clause parts are filled in under `if part:`; the negated form fills
    the field exactly when there is nothing to fill it with (and leaves it out when there is)."""
    import ast as _ast
    from vt.model import walk_no_nested, norm
    from vt.runner import where
    chk.doc(rule, 'in no function is a value used (stored, passed as an argument, subscripted) inside the branch that '
                  'is only taken when that same value is false: `if not V: <uses V>` / `if V: .. else: <uses V>`; '
                  'tests, truth-value uses and re-assignments of V in that branch are fine')
    n = 0

    def uses(body, key):
        out = []
        for st in body:
            rebound = False
            for x in _ast.walk(st):
                if isinstance(x, (_ast.Name, _ast.Subscript, _ast.Attribute)) and norm(x) == key and \
                        isinstance(getattr(x, 'ctx', None), _ast.Load):
                    par = getattr(x, '_parent', None)
                    if isinstance(par, (_ast.If, _ast.While, _ast.IfExp)) and par.test is x:
                        continue
                    if isinstance(par, (_ast.UnaryOp, _ast.Compare)):
                        continue
                    if isinstance(par, _ast.BoolOp) and par.values[-1] is not x:
                        continue        # an operand that is only tested
                    if isinstance(par, _ast.Call) and norm(par.func) in ('isinstance', 'len', 'bool', 'str', 'repr',
                                                                          'type'):
                        continue
                    if isinstance(par, (_ast.BinOp,)) and isinstance(par.op, _ast.Mod):
                        continue        # message formatting
                    if isinstance(par, (_ast.Tuple,)) and isinstance(getattr(par, '_parent', None), _ast.BinOp):
                        continue
                    if isinstance(par, _ast.Return) and par.value is x:
                        continue        # handing the empty value back unchanged
                    # part of a larger access path of the same root (V is `a[0]`, use is `a[0][1]`): still a use
                    out.append(x)
            for x in _ast.walk(st):
                if isinstance(x, (_ast.Assign, _ast.AugAssign)):
                    tg = x.targets if isinstance(x, _ast.Assign) else [x.target]
                    if any(norm(t) == key or (isinstance(t, _ast.Name) and key.startswith(t.id + '[')) for t in tg):
                        rebound = True
            if rebound:
                break
        return out
    for rel in rels:
        mod = chk.model.mod(rel, required=False)
        if mod is None:
            continue
        for fn in [f for f in _ast.walk(mod.tree) if isinstance(f, _ast.FunctionDef)]:
            for st in walk_no_nested(fn):
                if not isinstance(st, _ast.If):
                    continue
                t = st.test
                branches = []
                if isinstance(t, _ast.UnaryOp) and isinstance(t.op, _ast.Not) and \
                        isinstance(t.operand, (_ast.Name, _ast.Subscript, _ast.Attribute)):
                    branches.append((norm(t.operand), st.body))
                elif isinstance(t, (_ast.Name, _ast.Subscript, _ast.Attribute)) and st.orelse:
                    branches.append((norm(t), st.orelse))
                for key, body in branches:
                    if key in ('self', 'debug.logger'):
                        continue
                    n += 1
                    us = uses(body, key)
                    chk.ob(rule, '%s:%s/absent `%s`' % (rel.split('/')[-1], fn.name, key[:40]), not us,
                           where(mod, us[0]) if us else where(mod, st),
                           '`%s` is used as a value (%s) in the branch taken only when it is false / empty / None' % (
                               key, norm(getattr(us[0], '_parent', us[0]))[:70] if us else ''))
    chk.floor(rule, floor, 'negative truth tests')


def as_conditional(fn_or_expr):
    """Decode the repository's three spellings of a two-way choice into (test, value-if-true, value-if-false):
    `T and A or B` (A a non-empty tuple / string / number display, so the idiom is exact), `A if T else B`, and - for a
    function - `if T: return A` followed by `return B` (or if/else returns).  None if it is none of these."""
    import ast as _ast

    def truthy_display(e):
        return (isinstance(e, _ast.Tuple) and len(e.elts) > 0) or \
            (isinstance(e, _ast.Constant) and bool(e.value) and not isinstance(e.value, bool)) or \
            (isinstance(e, (_ast.List, _ast.Dict)) and (getattr(e, 'elts', None) or getattr(e, 'keys', None)))

    def of_expr(e):
        if isinstance(e, _ast.IfExp):
            return e.test, e.body, e.orelse
        if isinstance(e, _ast.BoolOp) and isinstance(e.op, _ast.Or) and len(e.values) == 2 and \
                isinstance(e.values[0], _ast.BoolOp) and isinstance(e.values[0].op, _ast.And) and \
                len(e.values[0].values) == 2 and truthy_display(e.values[0].values[1]):
            return e.values[0].values[0], e.values[0].values[1], e.values[1]
        return None
    if isinstance(fn_or_expr, _ast.expr):
        return of_expr(fn_or_expr)
    body = [s for s in fn_or_expr.body if not (isinstance(s, _ast.Expr) and isinstance(s.value, _ast.Constant))]
    if not body:
        return None
    last = body[-1]
    if isinstance(last, _ast.Return) and last.value is not None:
        r = of_expr(last.value)
        if r:
            return r
        if len(body) >= 2 and isinstance(body[-2], _ast.If) and not body[-2].orelse and len(body[-2].body) == 1 and \
                isinstance(body[-2].body[0], _ast.Return):
            return body[-2].test, body[-2].body[0].value, last.value
    if isinstance(last, _ast.If) and len(last.body) == 1 and len(last.orelse) == 1 and \
            isinstance(last.body[0], _ast.Return) and isinstance(last.orelse[0], _ast.Return):
        return last.test, last.body[0].value, last.orelse[0].value
    return None


CASE_METHODS = ('upper', 'lower', 'title', 'capitalize', 'casefold', 'swapcase')


def names_are_case_sensitive(chk, rule, rels, audited=(), floor=1):
    """SMI names are case-sensitive (`ipAddress` is an object, `IpAddress` a type): the code generators never map the
    case of a name taken from the MIB before comparing, looking up or emitting it."""
    import ast as _ast
    from vt.model import norm
    from vt.runner import where
    chk.doc(rule, 'no str case mapping (upper / lower / title / capitalize / casefold / swapcase) is applied to a value in '
                  'the code generators: names are compared, looked up and emitted exactly as written (audited '
                  'exceptions: %s)' % (', '.join(audited) or 'none'))
    n = 0
    for rel in rels:
        mod = chk.model.mod(rel, required=False)
        if mod is None:
            continue
        n += 1
        hits = []
        for fn in [f for f in _ast.walk(mod.tree) if isinstance(f, _ast.FunctionDef)]:
            for c in _ast.walk(fn):
                if isinstance(c, _ast.Call) and isinstance(c.func, _ast.Attribute) and c.func.attr in CASE_METHODS and \
                        not c.args and '%s:%s' % (rel.split('/')[-1], fn.name) not in audited:
                    hits.append((fn, c))
        for fn, c in hits:
            chk.ob(rule, '%s:%s/%s' % (rel.split('/')[-1], fn.name, norm(c)[:40]), False, where(mod, c),
                   '`%s`: a name that differs from a keyword only by case is taken for it' % norm(c)[:60])
        if not hits:
            chk.ob(rule, '%s/no-case-mapping' % rel, True, rel, '')
    chk.floor(rule, floor, 'modules scanned')


def handlers_do_something(chk, rule, rels, audited=(), floor=5):
    """An `except` clause whose body does nothing (pass, a docstring, a debug line) makes the failure it caught
    disappear: the caller sees a normal return and a result with something silently missing.  Every handler converts
    (raise), answers (return / continue / break with a value set) or records (an assignment / call that is not
    logging)."""
    import ast as _ast
    from vt.model import walk_no_nested, norm
    from vt.runner import where
    chk.doc(rule, 'every except clause in the listed modules has an effect: it raises, returns, continues / breaks, '
                  'assigns or calls something other than the debug logger; a handler that only passes is allowed at the '
                  'audited sites (%s)' % (', '.join(audited) or 'none'))
    n = 0
    for rel in rels:
        mod = chk.model.mod(rel, required=False)
        if mod is None:
            continue
        for fn in [f for f in _ast.walk(mod.tree) if isinstance(f, _ast.FunctionDef)]:
            for h in [x for x in walk_no_nested(fn) if isinstance(x, _ast.ExceptHandler)]:
                n += 1
                effect = False
                for st in h.body:
                    if isinstance(st, _ast.Pass):
                        continue
                    if isinstance(st, _ast.Expr) and (isinstance(st.value, _ast.Constant) or 'debug.logger' in norm(st)):
                        continue
                    effect = True
                key = '%s:%s/except %s' % (rel.split('/')[-1], fn.name, norm(h.type)[:40] if h.type else '')
                ok = effect or any(a in key for a in audited)
                chk.ob(rule, key, ok, where(mod, h),
                       'this handler swallows the exception without converting, answering or recording anything')
    chk.floor(rule, floor, 'except clauses')


def no_partial_key_memo(chk, rule, rel, cname, floor=1):
    """A handler that answers from a table on the instance (`if k in self._cache: return self._cache[k]`) returns what
    an earlier call computed for the same key.  That is only right when the key holds everything the answer depends
    on; the handlers of the code generators get one `data` argument, so the key must be built from *all* of it (the
    whole argument, or a tuple naming every component the function reads) - otherwise two clauses that agree on the
    key and differ elsewhere (the IMPLIED flag of an INDEX, the module of a type) share one answer."""
    import ast as _ast
    from vt.model import walk_no_nested, norm
    from vt.runner import where
    ci = chk.model.cls(rel, cname)
    chk.doc(rule, '%s: a method that returns self.<table>[<key>] for a table it also fills (memoisation) derives <key> from '
                  'its whole argument, not from a projection of it' % cname)
    n = 0
    for name, fn in sorted(ci.methods.items()):
        filled = set()
        for st in walk_no_nested(fn):
            if isinstance(st, _ast.Assign):
                for t in st.targets:
                    if isinstance(t, _ast.Subscript) and is_self_attr(t.value):
                        filled.add(t.value.attr)
        for r in [x for x in walk_no_nested(fn) if isinstance(x, _ast.Return) and isinstance(x.value, _ast.Subscript)
                  and is_self_attr(x.value.value) and x.value.value.attr in filled]:
            n += 1
            key = r.value.slice
            params = [a.arg for a in fn.args.args[1:]]
            keyvars = [v.id for v in _ast.walk(key) if isinstance(v, _ast.Name)]
            whole = (isinstance(key, _ast.Name) and key.id in params and len(params) == 1) or (
                isinstance(key, _ast.Tuple) and set(params) <= set(keyvars))
            # a local key: how was it built?
            proj = None
            for kv in keyvars:
                for st in walk_no_nested(fn):
                    if isinstance(st, _ast.Assign) and any(isinstance(t, _ast.Name) and t.id == kv for t in st.targets):
                        if any(isinstance(x, (_ast.Subscript, _ast.ListComp, _ast.GeneratorExp)) for x in _ast.walk(st.value)):
                            proj = st
            chk.ob(rule, '%s.%s/memo self.%s[%s]' % (cname, name, r.value.value.attr, norm(key)[:30]), whole and proj is None,
                   where(ci.mod, r), 'the cached answer is looked up under `%s`%s: clauses that differ only in what the key '
                   'leaves out get the answer computed for the first of them' % (
                       norm(key)[:40], (', built as `%s`' % norm(proj)[:60]) if proj is not None else ''))
    if n == 0:
        chk.ob(rule, '%s/no-memoising-handlers' % cname, True, rel, '')
    chk.floor(rule, floor, 'scan')


# ---------------------------------------------------------------------------------------------------------------------
# grammar actions: whether a part that is present reaches the tree does not depend on which *other* parts are present
PRESENCE_AUDIT = {
    # (lhs, rhs tuple, dropped part index, deciding part index): reason
}


def parts_reach_the_tree_whenever_present(chk, rule, gs_list, only_lhs=None, floor=0, carries=None):
    """For every production whose action builds its value from optional parts (a part is optional when its abstract
    value includes None): the term of the action is evaluated for every combination absent / present of those parts
    (at most 6 of them); a part that reaches the value in one combination where it is present must reach it in all of
    them."""
    import itertools
    from vt.shapes import eval_presence, roots_in, Mark, ScenarioError
    chk.doc(rule, 'grammar actions, evaluated under every absent/present combination of their optional parts (the parts '
                  'whose value can be None): a part that is placed in the tree in some combination where it is present is '
                  'placed in the tree in every combination where it is present - `p[3] and p[3][1] + (p[4] and p[4][1] '
                  'or [])` loses p[4] exactly when p[3] is absent')
    n = 0
    seen = set()
    for dname, gs in gs_list:
        for p in gs.d.prods:
            if only_lhs is not None and p.lhs not in only_lhs:
                continue
            key = (p.lhs, tuple(p.rhs), p.fn.name if p.fn is not None else None)
            if key in seen or p not in gs.terms:
                continue
            seen.add(key)
            term = gs.terms[p]
            opt = [i for i in range(1, len(p.rhs) + 1) if p.rhs[i - 1] in gs.av and gs.av[p.rhs[i - 1]].none]
            if not opt or len(opt) > 6:
                continue
            n += 1
            reach = {}   # part -> {scenario: bool}
            for combo in itertools.product((False, True), repeat=len(opt)):
                env = dict((i, Mark(i)) for i in range(1, len(p.rhs) + 1))
                for i, present in zip(opt, combo):
                    if not present:
                        env[i] = None
                try:
                    v = eval_presence(term, env)
                except ScenarioError:
                    continue
                roots = roots_in(v)
                for i in range(1, len(p.rhs) + 1):
                    if env[i] is not None and (carries is None or carries(gs, p.rhs[i - 1])):
                        reach.setdefault(i, {})[combo] = i in roots
            problems = []
            for i, m in sorted(reach.items()):
                if any(m.values()) and not all(m.values()):
                    lost = sorted((c for c, ok in m.items() if not ok), key=lambda c: (list(c).count(False), c))
                    others = [j for j, pr in zip(opt, lost[0]) if j != i and not pr]
                    if any((p.lhs, tuple(p.rhs), i, j) in PRESENCE_AUDIT for j in others):
                        continue
                    problems.append('%s (p[%d]) is left out of the value when %s absent' % (
                        p.rhs[i - 1], i, ' and '.join('%s (p[%d])' % (p.rhs[j - 1], j) for j in others) + (
                            ' are' if len(others) > 1 else ' is') if others else 'another part is'))
            chk.ob(rule, '%s <- %s' % (p.lhs, ' '.join(p.rhs)), not problems,
                   '%s:%s' % ('pysmi/parser/smi.py', p.fn.lineno if p.fn is not None else 0), '; '.join(problems))
    if floor:
        chk.floor(rule, floor, 'productions with optional parts')
    return n


# ---------------------------------------------------------------------------------------------------------------------
# components asked per module answer from their configuration alone
def lookups_leave_no_trace(chk, rule, classes, entry, what, audited=None, floor=0):
    """no method reachable from `entry` of the given (file, class) pairs writes an instance attribute"""
    from rules.C12 import writes_in, reachable_methods
    audited = audited or {}
    chk.doc(rule, '%s: the methods reachable from %s() write no instance attribute, so the answer for one module does '
                  'not depend on which modules were asked for before (a remembered error, a consumed iterator or a '
                  'cache keyed by less than the question changes the answer for every later module of the same '
                  'compile() call and of later calls)' % (what, entry))
    n = 0
    for rel, cname in classes:
        if rel not in chk.model.modules:
            continue
        ci = chk.model.cls(rel, cname)
        for mname, (owner, fn) in sorted(reachable_methods(ci, entry).items()):
            ws = writes_in(fn)
            n += 1
            bad = [(a, k, node) for a, k, node in ws if (cname, a) not in audited]
            chk.ob(rule, '%s.%s/no-instance-writes' % (cname, mname), not bad, where(owner.mod, fn),
                   '%s() writes self.%s (%s): what this component answers for a module depends on what it was asked '
                   'before' % (mname, bad[0][0], norm(bad[0][2])[:60]) if bad else '')
    if floor:
        chk.floor(rule, floor, 'methods reachable from %s' % entry)


# ---------------------------------------------------------------------------------------------------------------------
# itertools.groupby merges *adjacent* equal keys only
def groupby_input_is_sorted(chk, rule, rels, what):
    """every call of itertools.groupby (however imported) gets, as its first argument, a sorted(...) call or a local
    whose only assignment is one - with the same key function when one is given.  Expected count on this repository:
    zero calls; the obligation per file makes the scan visible."""
    chk.doc(rule, '%s: itertools.groupby groups adjacent items only - a call whose input is not sorted by the grouping '
                  'key (sorted(x, key=k) directly or through a local assigned once) yields several groups for one key, '
                  'and a dict built from them keeps only the last (no such call exists today; every file is scanned)' % what)
    def scan(tree):
        aliases = set()
        for n in ast.walk(tree):
            if isinstance(n, ast.ImportFrom) and n.module == 'itertools':
                for a in n.names:
                    if a.name == 'groupby':
                        aliases.add(a.asname or a.name)
        bad = []
        for n in ast.walk(tree):
            if isinstance(n, ast.Call) and ((isinstance(n.func, ast.Name) and n.func.id in aliases) or
                                            norm(n.func) in ('itertools.groupby',)):
                arg = n.args[0] if n.args else None
                key = n.args[1] if len(n.args) > 1 else next((k.value for k in n.keywords if k.arg == 'key'), None)
                src = arg
                if isinstance(arg, ast.Name):
                    fn = n
                    while fn is not None and not isinstance(fn, (ast.FunctionDef, ast.Module)):
                        fn = getattr(fn, '_parent', None)
                    asg = [s for s in ast.walk(fn) if isinstance(s, ast.Assign) and len(s.targets) == 1 and
                           isinstance(s.targets[0], ast.Name) and s.targets[0].id == arg.id] if fn is not None else []
                    src = asg[0].value if len(asg) == 1 else None
                ok = isinstance(src, ast.Call) and norm(src.func) == 'sorted'
                if ok and key is not None:
                    skey = next((k.value for k in src.keywords if k.arg == 'key'), None)
                    ok = skey is not None and norm(skey) == norm(key)
                if not ok:
                    bad.append(n)
        return bad
    # the expected count is zero: a built-in positive and negative example keep the matcher honest
    def set_parents(t):
        for node in ast.walk(t):
            for child in ast.iter_child_nodes(node):
                child._parent = node
    pos = ast.parse('from itertools import groupby\ndef f(xs, k):\n    return dict((a, list(g)) for a, g in groupby(xs, key=k))\n')
    neg = ast.parse('import itertools\ndef f(xs, k):\n    ys = sorted(xs, key=k)\n    return [list(g) for a, g in itertools.groupby(ys, key=k)]\n')
    set_parents(pos)
    set_parents(neg)
    if len(scan(pos)) != 1 or scan(neg):
        from vt.runner import AnalysisError
        raise AnalysisError('%s: the groupby matcher fails its built-in examples' % rule)
    for rel in rels:
        mod = chk.model.mod(rel, required=False)
        if mod is None:
            continue
        bad = scan(mod.tree)
        chk.ob(rule, '%s/groupby-input-sorted' % rel, not bad, where(mod, bad[0]) if bad else rel,
               'groupby(%s) groups adjacent items only and its input is not sorted by the grouping key: items with the '
               'same key that are not next to each other end up in separate groups' % (norm(bad[0].args[0])[:40] if bad and bad[0].args else ''))
