"""C10 - up-to-date modules are not regenerated; rebuild, noDeps, stubs act as documented."""
import ast

from vt.cfg import in_subtree, enclosing_trys
from vt.model import walk_no_nested, norm, dotted_name
from vt.runner import where, AnalysisError
from rules import compile_roles as cr
from rules import common
from rules.C07 import _key_is, iter_source, block_of

EXPLANATION = (
    "Typestate analysis of compile() (rule C10.T1): the statements of compile() are interpreted over an abstract "
    "state that tracks one arbitrary module through every local map, with every component call returning or raising "
    "any package error class, every option setting and every iteration order; invariants are evaluated at the "
    "component calls and at every return (see rules/compile_ts.py INV). "
    "Rules on the searcher protocol handling in compile() (both searcher loops: not-modified -> drop from the work "
    "map, status untouched, stop asking; not-found / error -> next searcher; handler order; fileExists receives the "
    "module name, the source mtime of that module and rebuild=options.get('rebuild')), on the noDeps filter (the "
    "exclusion is conditioned on noDeps and on a requested-set that is filled for every requested name), and on "
    "the three file searchers plus the stub searcher (rebuild short-circuit first; every not-modified answer is "
    "controlled by `file time >= mtime` with the unmodified mtime parameter and a time read from the very file "
    "that was tested for existence; candidate path = directory + exact module name + suffix; fall-through is "
    "not-found; a stale candidate does not end the search; the stub searcher ignores rebuild).")
ASSUMPTIONS = [
    "layout of the .pyc header (PEP 552) and filesystem timestamp granularity are not judged",
    "os.stat()[8] is ST_MTIME",
]
TECHNIQUE = 'AST/CFG rules: handler-shape agreement of sibling loops, guard dominance, provenance of compared times; typestate abstract interpretation of compile() (path-sensitive dataflow over a finite per-module domain, rules/compile_ts.py)'

SEARCHERS = (('pysmi/searcher/anyfile.py', 'AnyFileSearcher'), ('pysmi/searcher/pyfile.py', 'PyFileSearcher'),
             ('pysmi/searcher/pypackage.py', 'PyPackageSearcher'))


def r1_searcher_protocol(chk):
    r = cr.infer(chk.model)
    cfg = r.cfg
    chk.unit('pysmi/compiler.py:MibCompiler.compile')
    chk.doc('C10.R1', 'each fileExists call in compile(): searchers iterated in order; not-modified handler deletes '
                      'the module from its work map, stores the untouched status and breaks; not-found and generic '
                      'handlers go on to the next searcher without touching the bookkeeping; subclass handlers come '
                      'before PySmiError; arguments are (module, mtime of its source, rebuild=options.get("rebuild"))')
    calls = r.calls.get('fileExists', [])
    for i, c in enumerate(calls):
        tag = 'compile/fileExists#%d' % (i + 1)
        st = cr.stmt_of(c, r.fn)
        sloop = cr.enclosing_loop(st, r.fn)
        ok = isinstance(sloop, ast.For) and common.is_self_attr(sloop.iter, '_searchers') and \
            isinstance(sloop.target, ast.Name) and _key_is(c.func.value, sloop.target.id)
        chk.ob('C10.R1', tag + '/searchers-in-order', ok, where(r.mod, c), 'fileExists must be called on each of '
                                                                           'self._searchers in a plain for loop')
        if not ok:
            continue
        mloop = cr.enclosing_loop(sloop, r.fn)
        k = mloop.target.id if isinstance(mloop, ast.For) and isinstance(mloop.target, ast.Name) else None
        wmap = iter_source(mloop) if mloop is not None else None
        chk.ob('C10.R1', tag + '/per-module-loop', k is not None and wmap in r.work, where(r.mod, c),
               'searcher loop must run per module of a work map (iterates %s)' % (norm(mloop.iter) if mloop else '?'))
        # arguments
        a_ok = len(c.args) >= 2 and _key_is(c.args[0], k)
        mt = c.args[1] if len(c.args) >= 2 else None
        mt_ok = False
        if isinstance(mt, ast.Attribute) and mt.attr == 'mtime' and isinstance(mt.value, ast.Name):
            # fileInfo var unpacked from wmap[k] first component
            for s in mloop.body:
                if isinstance(s, ast.Assign) and isinstance(s.targets[0], ast.Tuple) and \
                        isinstance(s.value, ast.Subscript) and _key_is(s.value.value, wmap) and \
                        _key_is(s.value.slice, k) and _key_is(s.targets[0].elts[0], mt.value.id):
                    mt_ok = True
        chk.ob('C10.R1', tag + '/args', a_ok and mt_ok, where(r.mod, c),
               'arguments must be (%s, <source info of %s>.mtime, ...): %s' % (k, k, norm(c)[:80]))
        opt = r.fn.args.kwarg.arg if r.fn.args.kwarg else 'options'
        rb = [kw for kw in c.keywords if kw.arg == 'rebuild']
        chk.ob('C10.R1', tag + '/rebuild-kw', len(rb) == 1 and norm(rb[0].value) in (
            "%s.get('rebuild')" % opt, "%s.get('rebuild', False)" % opt), where(r.mod, c),
            'rebuild=options.get("rebuild") must be passed')
        trys = enclosing_trys(st, r.fn)
        t = trys[0] if trys else None
        if t is None:
            chk.ob('C10.R1', tag + '/try', False, where(r.mod, c), 'fileExists outside try')
            continue
        names = [cr.handler_type_names(chk.model, r.mod, h) for h in t.handlers]
        flat = [n[0] for n in names]
        for sub in ('PySmiFileNotModifiedError', 'PySmiFileNotFoundError'):
            ok = sub in flat and 'PySmiError' in flat and flat.index(sub) < flat.index('PySmiError')
            chk.ob('C10.R1', tag + '/handler-order(%s)' % sub, ok, where(r.mod, t), 'handlers: %s' % flat)
        for h, hn in zip(t.handlers, flat):
            body_nodes = list(walk_no_nested(h))
            dels = [d for s in body_nodes for d in cr.del_targets(s)]
            stores = [cr.subscript_store(s) for s in body_nodes if cr.subscript_store(s)]
            if hn == 'PySmiFileNotModifiedError':
                d_ok = any(d == wmap and _key_is(kk, k) for d, kk in dels)
                s_ok = any(s[0] == r.result and _key_is(s[1], k) and
                           cr.status_of(s[2], r.status_consts) == 'untouched' for s in stores)
                b_ok = bool(h.body) and isinstance(h.body[-1], ast.Break)
                extra = [s for s in stores if not (s[0] == r.result and
                                                   cr.status_of(s[2], r.status_consts) == 'untouched')]
                chk.ob('C10.R1', tag + '/fresh-handler', d_ok and s_ok and b_ok and not extra, where(r.mod, h),
                       'not-modified handler must: del %s[%s]%s, store untouched%s, break%s' % (
                           wmap, k, '' if d_ok else ' (MISSING)', '' if s_ok else ' (MISSING)',
                           '' if b_ok else ' (MISSING)'))
            elif hn in ('PySmiFileNotFoundError', 'PySmiError'):
                leaves = [s for s in body_nodes if isinstance(s, (ast.Break, ast.Return, ast.Raise))]
                chk.ob('C10.R1', tag + '/next-searcher(%s)' % hn, not dels and not stores and not leaves,
                       where(r.mod, h), 'handler must go on to the next searcher without changing bookkeeping')
    chk.floor('C10.R1', 16, 'two fileExists call sites x 8 obligations')


def r2_nodeps_filter(chk):
    r = cr.infer(chk.model)
    cfg = r.cfg
    chk.doc('C10.R2', 'in the for-else of the first searcher loop a module is dropped (del + untouched) exactly under '
                      '`noDeps and <module not requested>`; the requested-set is filled in the discovery loop under '
                      'a test of the *requested (popped) name* against the names passed to compile(); the code '
                      'generation loop iterates the filtered map')
    calls = r.calls.get('fileExists', [])
    if not calls:
        raise AnalysisError('no fileExists call in compile()')
    st = cr.stmt_of(calls[0], r.fn)
    sloop = cr.enclosing_loop(st, r.fn)
    mloop = cr.enclosing_loop(sloop, r.fn)
    k = mloop.target.id
    wmap = iter_source(mloop)
    opt = r.fn.args.kwarg.arg if r.fn.args.kwarg else 'options'
    vararg = r.fn.args.vararg.arg if r.fn.args.vararg else None
    found = False
    req_sets = set()
    for s in sloop.orelse:
        if not isinstance(s, ast.If):
            continue
        dels = [d for x in walk_no_nested(s) for d in cr.del_targets(x)]
        if not any(d == wmap for d, kk in dels):
            continue
        found = True
        conj = s.test.values if isinstance(s.test, ast.BoolOp) and isinstance(s.test.op, ast.And) else [s.test]
        has_nodeps = any(norm(c) in ("%s.get('noDeps')" % opt, "%s.get('noDeps', False)" % opt) for c in conj)
        member = [c for c in conj if isinstance(c, ast.Compare) and len(c.ops) == 1 and
                  isinstance(c.ops[0], ast.NotIn) and _key_is(c.left, k)]
        others = [c for c in conj if c not in member and norm(c) not in (
            "%s.get('noDeps')" % opt, "%s.get('noDeps', False)" % opt)]
        chk.ob('C10.R2', 'compile/noDeps-filter-condition', has_nodeps and bool(member) and not others,
               where(r.mod, s), 'exclusion must be conditioned on noDeps and on `%s not in <requested set>` only: %s'
               % (k, norm(s.test)))
        stores = [cr.subscript_store(x) for x in walk_no_nested(s) if cr.subscript_store(x)]
        ok = any(ss[0] == r.result and _key_is(ss[1], k) and cr.status_of(ss[2], r.status_consts) == 'untouched'
                 for ss in stores)
        chk.ob('C10.R2', 'compile/noDeps-filter-status', ok, where(r.mod, s), 'excluded module must be untouched')
        for m in member:
            if isinstance(m.comparators[0], ast.Name):
                req_sets.add(m.comparators[0].id)
    chk.ob('C10.R2', 'compile/noDeps-filter-present', found, where(r.mod, sloop),
           'no noDeps exclusion in the for-else of the searcher loop')
    # the exclusion must not be reachable without noDeps: every del of wmap outside handlers is under it (R1 covers handlers)
    # requested-set population
    from rules.C08 import discovery
    loop, popped, pop_node = discovery(r)
    for rs in sorted(req_sets):
        if rs == vararg:
            # the raw names alone are not enough (a module requested through a differently named file); next to the
            # canonical-name set they are a further protection (a requested module found inside another file)
            chk.ob('C10.R2', 'compile/requested-set(%s)' % rs, len(req_sets) > 1, where(r.mod, mloop),
                   'canonical module names are compared with the raw requested names; a module requested through '
                   'a differently named file is excluded')
            continue
        pops = []
        for x in walk_no_nested(loop):
            ss = cr.subscript_store(x)
            if ss and ss[0] == rs:
                pops.append(x)
            if isinstance(x, ast.Call) and isinstance(x.func, ast.Attribute) and x.func.attr == 'add' and \
                    _key_is(x.func.value, rs):
                pops.append(cr.stmt_of(x, r.fn))
        chk.ob('C10.R2', 'compile/requested-set(%s)-filled' % rs, bool(pops), where(r.mod, loop),
               'requested set %s is never filled in the discovery loop' % rs)
        for x in pops:
            # enclosing ifs up to the per-module-tree loop must include a test `<popped> in <vararg>`
            tests = []
            a = getattr(x, '_parent', None)
            while a is not None and a is not loop:
                if isinstance(a, ast.If):
                    tests.append(a.test)
                a = getattr(a, '_parent', None)
            req_tests = [t for t in tests if isinstance(t, ast.Compare) and len(t.ops) == 1 and
                         isinstance(t.ops[0], ast.In) and _key_is(t.comparators[0], vararg)]
            other = [t for t in tests if t not in req_tests and not (
                isinstance(t, ast.Compare) and isinstance(t.ops[0], ast.NotIn) and
                isinstance(t.comparators[0], ast.Name) and t.comparators[0].id == rs)]
            good = bool(req_tests) and all(_key_is(t.left, popped) for t in req_tests) and not other
            chk.ob('C10.R2', 'compile/requested-set(%s)-keyed-by-requested-name' % rs, good, where(r.mod, x),
                   'the set that protects requested modules from the noDeps filter must be filled whenever the '
                   'requested name `%s` is among the names given to compile(); found condition(s): %s' % (
                       popped, [norm(t) for t in tests]))
            # key stored must be the canonical name under which the work map is keyed
    # code generation loop iterates the filtered map
    gens = [c for c in r.calls.get('genCode', []) if '_codegen' in norm(c.func)]
    for c in gens:
        gl = cr.enclosing_loop(cr.stmt_of(c, r.fn), r.fn)
        chk.ob('C10.R2', 'compile/codegen-loop-over-filtered-map', gl is not None and iter_source(gl) == wmap and
               gl.lineno > mloop.lineno, where(r.mod, c), 'code generation must iterate %s after the filter' % wmap)
    chk.floor('C10.R2', 5, 'filter condition, status, requested-set, codegen loop')


# ---------------------------------------------------------------------------------------------------
def mtime_cmp(test, param):
    """('ge', other) if test is `<other> >= param` / `param <= <other>`; ('lt', other) for the strict reverse;
    ('bad', text) for any other comparison involving param; None if param not involved."""
    if not isinstance(test, ast.Compare) or len(test.ops) != 1:
        return None
    l, op, rgt = test.left, test.ops[0], test.comparators[0]
    if _key_is(rgt, param):
        if isinstance(op, ast.GtE):
            return 'ge', l
        if isinstance(op, ast.Lt):
            return 'lt', l
        return 'bad', norm(test)
    if _key_is(l, param):
        if isinstance(op, ast.LtE):
            return 'ge', rgt
        if isinstance(op, ast.Gt):
            return 'lt', rgt
        return 'bad', norm(test)
    return None


def time_provenance(fn, name, before):
    """How local `name` was last assigned before statement `before` (lexically): returns the value node."""
    best = None
    for st in walk_no_nested(fn):
        if isinstance(st, ast.Assign) and any(_key_is(t, name) for t in st.targets) and st.lineno < before.lineno:
            if best is None or st.lineno > best.lineno:
                best = st
    return best.value if best is not None else None


def r3_file_searchers(chk):
    model = chk.model
    chk.doc('C10.R3', 'file searchers: `if rebuild: return` first; each raise of PySmiFileNotModifiedError is in the '
                      'true branch of `<file time> >= mtime` (unmodified parameter) where <file time> is read from '
                      'the candidate file itself (os.stat(f)[8], .pyc header via struct.unpack, zip directory time); '
                      'candidate = join(dir, module name) + suffix without case mapping; isfile test precedes the '
                      'read; the function falls through to PySmiFileNotFoundError; a stale candidate does not end '
                      'the search')
    total = 0
    for rel, cname in SEARCHERS:
        owner, fn = model.method(rel, cname, 'fileExists')
        mod = owner.mod
        chk.unit('%s:%s.fileExists' % (rel, cname))
        params = [a.arg for a in fn.args.args]
        if len(params) < 4:
            raise AnalysisError('%s.fileExists signature changed: %s' % (cname, params))
        p_name, p_mtime, p_rebuild = params[1], params[2], params[3]
        tag = '%s.fileExists' % cname
        # rebuild default False
        dflt = fn.args.defaults[-1] if fn.args.defaults else None
        chk.ob('C10.R3', tag + '/rebuild-default', isinstance(dflt, ast.Constant) and dflt.value is False,
               where(mod, fn), 'rebuild must default to False')
        first = [s for s in fn.body if not (isinstance(s, ast.Expr) and isinstance(s.value, ast.Constant))][0]
        ok = isinstance(first, ast.If) and _key_is(first.test, p_rebuild) and first.body and \
            isinstance(first.body[-1], ast.Return) and first.body[-1].value is None
        chk.ob('C10.R3', tag + '/rebuild-first', ok, where(mod, first), 'first statement must be `if rebuild: return`')
        # mtime / mibname parameter never modified except decode(mibname)
        for n in walk_no_nested(fn):
            if isinstance(n, ast.Name) and isinstance(n.ctx, ast.Store) and n.id == p_mtime:
                chk.ob('C10.R3', tag + '/mtime-param-modified', False, where(mod, n), 'mtime parameter reassigned')
            if isinstance(n, ast.Name) and isinstance(n.ctx, ast.Store) and n.id == p_name:
                st = common.stmt_of(n)
                ok = isinstance(st, ast.Assign) and norm(st.value) == 'decode(%s)' % p_name
                chk.ob('C10.R3', tag + '/name-param-modified', ok, where(mod, n),
                       'module name changed before the lookup: %s' % norm(st))
        raises = [n for n in walk_no_nested(fn) if isinstance(n, ast.Raise) and n.exc is not None]
        fresh = []
        for x in raises:
            anc = model.exc_ancestors(mod, x.exc.func if isinstance(x.exc, ast.Call) else x.exc)
            if anc and anc[0] == 'PySmiFileNotModifiedError':
                fresh.append(x)
        chk.ob('C10.R3', tag + '/has-fresh-answer', bool(fresh) or cname == 'PyPackageSearcher' and bool(fresh),
               where(mod, fn), 'searcher never answers not-modified')
        for i, x in enumerate(fresh):
            total += 1
            ftag = tag + '/fresh#%d' % (i + 1)
            # nearest enclosing If with an mtime comparison
            cmp_info, child, a = None, x, getattr(x, '_parent', None)
            while a is not None and a is not fn:
                if isinstance(a, ast.If):
                    mc = mtime_cmp(a.test, p_mtime)
                    if mc is not None:
                        in_body = any(common._within(child, s) for s in a.body)
                        cmp_info = (mc, in_body, a)
                        break
                child, a = a, getattr(a, '_parent', None)
            if cmp_info is None:
                chk.ob('C10.R3', ftag + '/guard', False, where(mod, x),
                       'not-modified is raised without comparing a file time with mtime')
                continue
            (kind, other), in_body, ifn = cmp_info
            ok = (kind == 'ge' and in_body) or (kind == 'lt' and not in_body)
            chk.ob('C10.R3', ftag + '/guard', ok, where(mod, x),
                   'not-modified must be controlled by `<file time> >= mtime`; found `%s` (%s branch)' % (
                       norm(ifn.test), 'true' if in_body else 'false'))
            # provenance of the compared time
            src = other
            hops = 0
            while isinstance(src, ast.Name) and hops < 3:
                v = time_provenance(fn, src.id, ifn)
                if v is None:
                    break
                src, hops = v, hops + 1
            txt = norm(src)
            fvar = None
            good = False
            if isinstance(src, ast.Subscript) and isinstance(src.value, ast.Call) and \
                    dotted_name(src.value.func) == 'os.stat' and norm(src.slice) in ('8', 'stat.ST_MTIME', 'ST_MTIME'):
                good = True
                fvar = norm(src.value.args[0])
            elif 'struct.unpack' in txt and txt.endswith('[0]'):
                good = True
            elif '_parseDosTime' in txt:
                good = True
            chk.ob('C10.R3', ftag + '/time-source', good, where(mod, ifn),
                   'compared time `%s` is not read from the candidate file (os.stat(f)[8] / pyc header / zip time)'
                   % txt[:70])
            if fvar:
                # same f tested with isfile earlier in the loop body
                loop = cr.enclosing_loop(ifn, fn)
                tests = [n for n in walk_no_nested(loop or fn) if isinstance(n, ast.Call) and
                         dotted_name(n.func) == 'os.path.isfile' and norm(n.args[0]) == fvar]
                chk.ob('C10.R3', ftag + '/isfile-same-path', bool(tests), where(mod, ifn),
                       'the file that is stat()ed (%s) is not the one tested with os.path.isfile' % fvar)
        # candidate path construction: no case mapping of the module name
        for n in walk_no_nested(fn):
            if isinstance(n, ast.Call) and isinstance(n.func, ast.Attribute) and n.func.attr in (
                    'upper', 'lower', 'title', 'capitalize', 'swapcase', 'casefold') and _key_is(n.func.value, p_name):
                total += 1
                chk.ob('C10.R3', tag + '/case-mapping %s' % norm(n), False, where(mod, n),
                       'module name is case-mapped before the lookup, so another module\'s file can answer')
        # the suffix appended to the candidate is the configured one: the loop variable over the suffix list is not
        # re-assigned (a "normalised" extension no longer names the file the writer stored)
        for lp in [n for n in walk_no_nested(fn) if isinstance(n, ast.For)]:
            tvars = [t.id for t in (lp.target.elts if isinstance(lp.target, ast.Tuple) else [lp.target])
                     if isinstance(t, ast.Name)]
            if not any(k in norm(lp.iter) for k in ('exts', 'suffixes', 'SUFFIXES', 'Suffixes')):
                continue
            reb = [x for x in walk_no_nested(lp) if isinstance(x, (ast.Assign, ast.AugAssign)) and any(
                isinstance(t, ast.Name) and t.id in tvars for t in (x.targets if isinstance(x, ast.Assign) else [x.target]))]
            total += 1
            chk.ob('C10.R3', tag + '/suffix-as-configured(%s)' % norm(lp.iter)[:30], not reb,
                   where(mod, reb[0]) if reb else where(mod, lp),
                   'the suffix is rewritten before it is appended (`%s`): the searcher looks for another file name '
                   'than the writer used' % (norm(reb[0])[:60] if reb else ''))
        joins = [n for n in walk_no_nested(fn) if isinstance(n, ast.Call) and dotted_name(n.func) == 'os.path.join'
                 and any(p_name in [m.id for m in ast.walk(a) if isinstance(m, ast.Name)] for a in n.args)]
        chk.ob('C10.R3', tag + '/candidate-path', bool(joins) or cname == 'PyPackageSearcher', where(mod, fn),
               'candidate path must be os.path.join(<dir>, <module name>) + suffix')
        for j in joins:
            base_ok = common.is_self_attr(j.args[0]) and j.args[0].attr in ('_path', '_package')
            chk.ob('C10.R3', tag + '/candidate-dir', base_ok, where(mod, j), 'directory part must be the searcher\'s own '
                                                                            'location: %s' % norm(j))
        # final fall-through
        last = fn.body[-1]
        anc = model.exc_ancestors(mod, last.exc.func if isinstance(last.exc, ast.Call) else last.exc) \
            if isinstance(last, ast.Raise) and last.exc is not None else []
        chk.ob('C10.R3', tag + '/fallthrough-not-found', bool(anc) and anc[0] == 'PySmiFileNotFoundError',
               where(mod, last), 'function must end in raise PySmiFileNotFoundError')
        # a stale candidate must not end the search: no NotFound raise inside a suffix loop
        for x in raises:
            anc = model.exc_ancestors(mod, x.exc.func if isinstance(x.exc, ast.Call) else x.exc)
            if anc and anc[0] == 'PySmiFileNotFoundError':
                lp = cr.enclosing_loop(x, fn)
                if lp is not None:
                    total += 1
                    chk.ob('C10.R3', tag + '/stale-candidate-ends-search(%s)' % norm(lp.iter), False, where(mod, x),
                           'a stale file under one suffix answers not-found although a later suffix may be fresh')
    chk.floor('C10.R3', 30, 'three searchers')


def r4_stub(chk):
    owner, fn = chk.model.method('pysmi/searcher/stub.py', 'StubSearcher', 'fileExists')
    mod = owner.mod
    chk.unit('pysmi/searcher/stub.py:StubSearcher.fileExists')
    chk.doc('C10.R4', 'StubSearcher.fileExists never reads `rebuild` or mtime; not-modified iff the name is in the '
                      'fixed list, else not-found')
    params = [a.arg for a in fn.args.args]
    reads = [n for n in walk_no_nested(fn) if isinstance(n, ast.Name) and isinstance(n.ctx, ast.Load) and
             n.id in params[2:]]
    chk.ob('C10.R4', 'StubSearcher.fileExists/ignores-rebuild-and-mtime', not reads, where(mod, fn),
           'stub searcher reads %s' % sorted(set(n.id for n in reads)))
    first = [s for s in fn.body if not (isinstance(s, ast.Expr) and isinstance(s.value, ast.Constant))][0]
    ok = isinstance(first, ast.If) and isinstance(first.test, ast.Compare) and isinstance(first.test.ops[0], ast.In) \
        and _key_is(first.test.left, params[1]) and common.is_self_attr(first.test.comparators[0], '_mibnames')
    r1 = [x for x in walk_no_nested(first) if isinstance(x, ast.Raise)] if ok else []
    anc1 = chk.model.exc_ancestors(mod, r1[0].exc.func if isinstance(r1[0].exc, ast.Call) else r1[0].exc) if r1 else []
    chk.ob('C10.R4', 'StubSearcher.fileExists/member->not-modified', ok and bool(anc1) and
           anc1[0] == 'PySmiFileNotModifiedError', where(mod, first), 'membership in the fixed list must answer '
                                                                       'not-modified')
    last = fn.body[-1]
    anc = chk.model.exc_ancestors(mod, last.exc.func if isinstance(last.exc, ast.Call) else last.exc) \
        if isinstance(last, ast.Raise) and last.exc is not None else []
    chk.ob('C10.R4', 'StubSearcher.fileExists/fallthrough-not-found', bool(anc) and anc[0] == 'PySmiFileNotFoundError',
           where(mod, last), 'must end in not-found')
    owner2, init = chk.model.method('pysmi/searcher/stub.py', 'StubSearcher', '__init__')
    ok = any(isinstance(s, ast.Assign) and common.is_self_attr(s.targets[0], '_mibnames') and
             isinstance(s.value, ast.Name) and init.args.vararg and s.value.id == init.args.vararg.arg
             for s in init.body)
    chk.ob('C10.R4', 'StubSearcher.__init__/list', ok, where(mod, init), 'fixed list must be the names given')


def r5_package_delegation(chk):
    model = chk.model
    ci = model.cls('pysmi/searcher/pypackage.py', 'PyPackageSearcher')
    o, fn = ci.find_method('fileExists')
    p = [a.arg for a in fn.args.args]
    chk.doc('C10.R5', 'PyPackageSearcher on a directory package delegates to PyFileSearcher(<package dir>).fileExists('
                      'name, mtime, rebuild=rebuild) with its own arguments unchanged; an unimportable package is '
                      'not-found')
    calls = [c for c in walk_no_nested(fn) if isinstance(c, ast.Call) and isinstance(c.func, ast.Attribute) and
             c.func.attr == 'fileExists']
    ok = len(calls) == 1 and isinstance(calls[0].func.value, ast.Call) and \
        dotted_name(calls[0].func.value.func) == 'PyFileSearcher' and \
        [norm(a) for a in calls[0].args] == [p[1], p[2]] and \
        [(k.arg, norm(k.value)) for k in calls[0].keywords] == [('rebuild', p[3])]
    chk.ob('C10.R5', 'PyPackageSearcher.fileExists/delegation', ok, where(ci.mod, fn), '%s' % [norm(c)[:100] for c in calls])
    if calls:
        st = common.stmt_of(calls[0])
        chk.ob('C10.R5', 'PyPackageSearcher.fileExists/delegation-result', isinstance(st, ast.Return), where(ci.mod, st), '')
        chk.ob('C10.R5', 'PyPackageSearcher.fileExists/package-dir', norm(calls[0].func.value.args[0]) ==
               'os.path.split(p.__file__)[0]' or 'os.path.dirname' in norm(calls[0].func.value.args[0]) or
               common.pmatch(calls[0].func.value.args[0], 'os.path.split($p.__file__)[0]') is not None, where(ci.mod, st), '')
    # the object whose __file__ names the package directory must be the package that was asked for: a dotted name
    # given to __import__ without a non-empty fromlist yields the *top-level* package
    imps = [c for c in walk_no_nested(fn) if isinstance(c, ast.Call) and
            dotted_name(c.func) in ('__import__', 'importlib.import_module', 'import_module')]
    good = []
    for c in imps:
        if dotted_name(c.func) == '__import__':
            fl = c.args[3] if len(c.args) > 3 else ([k.value for k in c.keywords if k.arg == 'fromlist'] or [None])[0]
            good.append(isinstance(fl, (ast.List, ast.Tuple)) and len(fl.elts) > 0)
        else:
            good.append(True)
    chk.ob('C10.R5', 'PyPackageSearcher.fileExists/imports-the-named-package', len(imps) == 1 and all(good) and
           common.is_self_attr(imps[0].args[0], '_package') if imps and imps[0].args else False,
           where(ci.mod, imps[0]) if imps else where(ci.mod, fn),
           'the package must be imported as importlib.import_module(self._package) or __import__(self._package, ..., '
           '[<non-empty fromlist>]): plain __import__("a.b.c") returns package `a`, whose directory is the wrong one')
    hs = [h for h in walk_no_nested(fn) if isinstance(h, ast.ExceptHandler) and h.type is not None and
          norm(h.type) == 'ImportError']
    ok = len(hs) == 1 and isinstance(hs[0].body[-1], ast.Raise) and 'PySmiFileNotFoundError' in model.exc_ancestors(
        ci.mod, hs[0].body[-1].exc.func if isinstance(hs[0].body[-1].exc, ast.Call) else hs[0].body[-1].exc)
    chk.ob('C10.R5', 'PyPackageSearcher.fileExists/unimportable-not-found', ok, where(ci.mod, fn), '')


def r6_argument_agreement(chk):
    rels = sorted(r for r in chk.model.modules if r.startswith(('pysmi/searcher/',)))
    common.argument_agreement(chk, 'C10.R6', rels, floor=3)



def r7_guard_polarity(chk):
    """the candidate file is read only when it exists and is a regular file; the header time is taken only from a
    file with the right magic; every candidate loop can answer not-modified; rebuild skips all of it"""
    model = chk.model
    chk.doc('C10.R7', 'file searchers, by reachability under a valuation of the predicates: open(f)/os.stat(f)/'
                      'get_data(f) run only when os.path.exists(f) and os.path.isfile(f) (or `f in <zip directory>`) '
                      'hold; struct.unpack of the header only when the magic matches; nothing of this runs when '
                      'rebuild is true; each loop over suffixes contains a not-modified answer reachable when the '
                      'file is present and `<time> >= mtime`')
    from vt.cfg import CFG
    for rel, cname in SEARCHERS:
        owner, fn = model.method(rel, cname, 'fileExists')
        mod = owner.mod
        cfg = CFG(fn)
        p_rebuild = fn.args.args[3].arg
        tag = '%s.fileExists' % cname
        loops = [n for n in walk_no_nested(fn) if isinstance(n, ast.For)]
        for li, loop in enumerate(loops):
            reads = []
            for c in ast.walk(loop):
                if isinstance(c, ast.Call) and dotted_name(c.func) in ('open', 'os.stat') and c.args:
                    reads.append((c, norm(c.args[0]), 'fs'))
                if isinstance(c, ast.Call) and isinstance(c.func, ast.Attribute) and c.func.attr == 'get_data' and c.args:
                    reads.append((c, norm(c.args[0]), 'zip'))
                if isinstance(c, ast.Subscript) and norm(c.value).endswith('._files') and \
                        isinstance(getattr(c, 'ctx', None), ast.Load):
                    reads.append((c, norm(c.slice), 'zip'))
            seen_keys = set()
            for c, f, kind in reads:
                key = '%s/loop%d/%s(%s)' % (tag, li + 1, norm(c.func) if isinstance(c, ast.Call) else 'directory-entry', f)
                if key in seen_keys:
                    continue
                seen_keys.add(key)
                node = cfg.node_of(common.stmt_of(c))
                if kind == 'fs':
                    needed = {'os.path.exists(%s)' % f: True, 'os.path.isfile(%s)' % f: True, p_rebuild: False}
                else:
                    zdir = [norm(n.comparators[0]) for n in ast.walk(loop) if isinstance(n, ast.Compare) and
                            len(n.ops) == 1 and isinstance(n.ops[0], (ast.In, ast.NotIn)) and norm(n.left) == f]
                    needed = {p_rebuild: False}
                    if zdir:
                        needed['%s in %s' % (f, zdir[0])] = True
                    else:
                        chk.ob('C10.R7', key + '/membership-test', False, where(mod, c),
                               'zip directory read without a membership test of %s' % f)
                common.requires(chk, 'C10.R7', key, cfg, mod, [node], needed,
                                'the candidate must be tested before it is read')
            for c in ast.walk(loop):
                if isinstance(c, ast.Call) and dotted_name(c.func) == 'struct.unpack':
                    b = [n for n in ast.walk(loop) if isinstance(n, ast.Compare) and len(n.ops) == 1 and
                         isinstance(n.ops[0], ast.Eq) and norm(n.comparators[0]) == 'PY_MAGIC_NUMBER']
                    chk.ob('C10.R7', '%s/loop%d/magic-test' % (tag, li + 1), len(b) == 1, where(mod, c), 'no magic test')
                    if len(b) == 1:
                        common.requires(chk, 'C10.R7', '%s/loop%d/header-time' % (tag, li + 1), cfg, mod,
                                        [cfg.node_of(common.stmt_of(c))], {norm(b[0]): True},
                                        'the header time is meaningful only behind the right magic number')
            fresh = [x for x in ast.walk(loop) if isinstance(x, ast.Raise) and x.exc is not None and
                     (model.exc_ancestors(mod, x.exc.func if isinstance(x.exc, ast.Call) else x.exc) or [''])[0] ==
                     'PySmiFileNotModifiedError']
            chk.ob('C10.R7', '%s/loop%d(%s)/answers-not-modified' % (tag, li + 1, norm(loop.iter)), bool(fresh),
                   where(mod, loop), 'this candidate loop can never answer not-modified: an up-to-date file under one '
                                     'of its suffixes is rebuilt every time')
    chk.floor('C10.R7', 25, 'reads in candidate loops')



def r8_wellformedness(chk):
    rels = sorted(r for r in chk.model.modules if r.startswith(('pysmi/searcher/',)))
    common.wellformedness(chk, 'C10.R8', rels, floor=10)




def t1_typestate(chk):
    """typestate analysis of compile() (rules/compile_ts.py): end-to-end bookkeeping invariants for an arbitrary
    module over every outcome of every component call"""
    from rules import compile_ts
    compile_ts.ts_rule(chk, 'C10.T1', ['fresh', 'nodeps'])



def r9_source_time_in_whole_seconds(chk):
    """the searchers compare whole seconds (os.stat(f)[8], the pyc header): the source time handed to them must be
    taken the same way - shared with C14.R1"""
    from rules.C14 import r1_file_reader
    common.reuse(chk, r1_file_reader, ('C14.R1',), 'C10.R9',
                 'FileReader.getData reports mtime = os.stat(f)[8] (whole seconds), the same reading the file searchers '
                 'use for the transformed file (C10.R3): a float source time with a sub-second part makes an equally '
                 'new destination look stale',
                 keep=lambda o: o.key.split('/')[-1] in ('mtime-index', 'same-path-stat-and-open'))
    from rules.C14 import r8_result_plumbing
    common.reuse(chk, r8_result_plumbing, ('C14.R8',), 'C10.R9',
                 'FileReader.getData reports mtime = os.stat(f)[8] (whole seconds), the same reading the file searchers '
                 'use for the transformed file (C10.R3): a float source time with a sub-second part makes an equally '
                 'new destination look stale; the ZIP reader converts the member\'s local wall-clock stamp with '
                 'time.mktime (C14.R8)',
                 keep=lambda o: 'mtime' in o.key)



def r10_every_searcher_is_asked(chk):
    from rules.C08 import r7_every_component_is_asked
    r7_every_component_is_asked(chk, rule='C10.R10', meths=('fileExists',))


def r11_searchers_answer_from_configuration(chk):
    """every configured searcher is asked, in order, for every module: its answer must not depend on earlier questions"""
    common.lookups_leave_no_trace(chk, 'C10.R11', [('pysmi/searcher/pyfile.py', 'PyFileSearcher'),
                                                   ('pysmi/searcher/pypackage.py', 'PyPackageSearcher'),
                                                   ('pysmi/searcher/stub.py', 'StubSearcher'),
                                                   ('pysmi/searcher/anyfile.py', 'AnyFileSearcher')], 'fileExists',
                                  'searchers', audited={
                                      ('PyPackageSearcher', '__loader'): 'the loader object of the zipped package: the '
                                      'same object is stored on every call',
                                      ('PyPackageSearcher', '_package'): 'dots replaced by the path separator once the '
                                      'package turns out to be zipped; the replacement is idempotent and zipimport '
                                      'resolves the path form on later calls (tried with a zipped two-level package: '
                                      'three lookups in a row answer alike)'}, floor=4)


RULES = [r1_searcher_protocol, r2_nodeps_filter, r3_file_searchers, r4_stub, r5_package_delegation, r6_argument_agreement, r7_guard_polarity, r8_wellformedness, t1_typestate, r9_source_time_in_whole_seconds, r10_every_searcher_is_asked, r11_searchers_answer_from_configuration]
