"""C18 - the OID-to-module index covers every indexed OID and merges monotonically."""
import ast

from vt.model import walk_no_nested, norm, dotted_name
from vt.runner import where, AnalysisError
from rules import common, ir
from rules.C07 import _key_is
from vt.cfg import CFG, enclosing_trys, in_subtree

EXPLANATION = (
    "Rules on JsonCodeGen.genIndex and the attribute chain that feeds it: every prefix test on dotted OID strings is "
    "component-wise (equality or startswith(prefix + '.'), or a constant that ends with a dot); the four sections "
    "are fed from the like-named status attributes, which compile() copies from the MibInfo the generator filled in "
    "regSym; an old index is merged before anything is added and a broken one raises the package error; sections "
    "are only ever added to (no del/pop/rebinding of identity/enterprise/compliance); the oids compaction drops an "
    "entry only when an entry that is kept is its component-wise prefix and names a superset of its modules; every "
    "list goes through sorted(set(..)) and every mapping through sorted keys before the dump.")
ASSUMPTIONS = ["minimality of the compacted index is not decided", "status objects carry what compile() put there"]
TECHNIQUE = 'dataflow of dotted-OID strings into startswith, AST shape rules on genIndex, attribute-chain plumbing'

JSONDOC = 'pysmi/codegen/jsondoc.py'


def r1_componentwise_prefix(chk):
    model = chk.model
    chk.unit(JSONDOC, ir.INTER)
    chk.doc('C18.R1', 'each `<dotted oid>.startswith(x)`: x ends with "." (constant or `prefix + "."`) and, when the '
                      'prefix itself must match too, an equality test accompanies it')
    n = 0
    for rel, cname, meths in ((JSONDOC, 'JsonCodeGen', ('genIndex',)), (ir.INTER, 'IntermediateCodeGen', ('regSym',))):
        ci = model.cls(rel, cname)
        for m in meths:
            o, fn = ci.find_method(m)
            chk.subject(fn, '%s.%s' % (cname, m))
            for c in ast.walk(fn):
                if isinstance(c, ast.Call) and isinstance(c.func, ast.Attribute) and c.func.attr == 'startswith':
                    n += 1
                    a = c.args[0]
                    dotted = (isinstance(a, ast.Constant) and isinstance(a.value, str) and a.value.endswith('.')) or (
                        isinstance(a, ast.BinOp) and isinstance(a.op, ast.Add) and isinstance(a.right, ast.Constant)
                        and a.right.value == '.')
                    chk.ob('C18.R1', '%s.%s/startswith(%s)' % (cname, m, norm(a)), dotted, where(ci.mod, c),
                           'textual prefix test on a dotted OID: 1.3.6.1.4.1.48.1 starts with 1.3.6.1.4.1.4 although '
                           'it is not below it')
                    if dotted and isinstance(a, ast.BinOp):
                        # equality alternative in the same boolean expression
                        par = getattr(c, '_parent', None)
                        ok = isinstance(par, ast.BoolOp) and isinstance(par.op, ast.Or) and any(
                            isinstance(v, ast.Compare) and isinstance(v.ops[0], ast.Eq) and
                            set([norm(v.left), norm(v.comparators[0])]) == set([norm(c.func.value), norm(a.left)])
                            for v in par.values)
                        chk.ob('C18.R1', '%s.%s/prefix-or-equal(%s)' % (cname, m, norm(a.left)), ok, where(ci.mod, c),
                               'an OID equal to the prefix is also covered by it: `a == p or a.startswith(p + ".")`')
    chk.floor('C18.R1', 1, 'startswith sites on OIDs')


def r2_attribute_chain(chk):
    from rules.C01 import r7_plumbing
    r7_plumbing(chk, rule='C18.R2')


def r3_sections_monotone(chk):
    model = chk.model
    ci = model.cls(JSONDOC, 'JsonCodeGen')
    mod = ci.mod
    o, fn = ci.find_method('genIndex')
    chk.doc('C18.R3', 'genIndex: the document starts with the five sections; an old index is merged first (json.loads '
                      'inside try -> PySmiCodegenError); for every (module, status) each section appends the module '
                      'under the OID(s) of the like-named attribute; nothing is deleted or rebound except the oids '
                      'section, whose compaction keeps an entry unless a kept entry is its component-wise prefix '
                      'with a superset of modules')
    init = [s for s in fn.body if isinstance(s, ast.Assign) and isinstance(s.value, ast.Dict) and
            isinstance(s.targets[0], ast.Name)]
    od = init[0].targets[0].id if init else None
    keys = sorted(k.value for k in init[0].value.keys) if init else []
    chk.ob('C18.R3', 'genIndex/sections', keys == ['compliance', 'enterprise', 'identity', 'meta', 'oids'],
           where(mod, fn), 'sections %s' % keys)
    # merge of old index
    ups = [c for c in walk_no_nested(fn) if isinstance(c, ast.Call) and norm(c.func) == '%s.update' % od]
    ok = len(ups) == 1 and 'json.loads' in norm(ups[0]) and "old_index_data" in norm(ups[0])
    loop = [n for n in fn.body if isinstance(n, ast.For) and '.items()' in norm(n.iter)]
    ok = ok and len(loop) == 1 and ups[0].lineno < loop[0].lineno
    chk.ob('C18.R3', 'genIndex/old-index-merged-first', ok, where(mod, fn),
           'the earlier index must be loaded into the document before new entries are added')
    if ups:
        from vt.cfg import enclosing_trys
        from rules import compile_roles as cr
        ts = enclosing_trys(common.stmt_of(ups[0]), fn)
        h = ts[0].handlers[0] if ts else None
        good = h is not None and any(isinstance(x, ast.Raise) and x.exc is not None and 'PySmiError' in
                                     model.exc_ancestors(mod, x.exc.func if isinstance(x.exc, ast.Call) else x.exc)
                                     for x in walk_no_nested(h))
        chk.ob('C18.R3', 'genIndex/load-error-converted', good, where(mod, ups[0]), 'a broken index must raise a '
                                                                                    'package error')
    if ups:
        gs = ir.guards_of(common.stmt_of(ups[0]), fn)
        okg = all(in_body and norm(t) in ("kwargs.get('old_index_data')", "'old_index_data' in kwargs",
                                           "kwargs.get('old_index_data') is not None",
                                           "'old_index_data' in kwargs and kwargs['old_index_data']")
                  for t, in_body in gs)
        chk.ob('C18.R3', 'genIndex/old-index-merged-whenever-given', okg, where(mod, ups[0]),
               'the merge may depend on nothing but the presence of the earlier index (guards: %s)' %
               [('' if b else 'not ') + norm(t)[:50] for t, b in gs])
    if len(loop) != 1:
        return
    lp = loop[0]
    modv = lp.target.elts[0].id if isinstance(lp.target, ast.Tuple) else None
    # per section: attribute read and append
    for sec, single in (('identity', True), ('enterprise', True), ('compliance', False), ('oids', False)):
        reads = [c for c in walk_no_nested(lp) if isinstance(c, ast.Call) and dotted_name(c.func) == 'getattr' and
                 len(c.args) >= 2 and isinstance(c.args[1], ast.Constant) and c.args[1].value == sec]
        sel = [s for s in lp.body if isinstance(s, ast.Assign) and norm(s.value) == "%s['%s']" % (od, sec)]
        ok = len(reads) == 1 and len(sel) == 1
        chk.ob('C18.R3', 'genIndex/section-%s-fed-from-status.%s' % (sec, sec), ok, where(mod, lp),
               'section %s must be filled from getattr(status, %r, ...)' % (sec, sec))
    apps = [c for c in walk_no_nested(lp) if isinstance(c, ast.Call) and isinstance(c.func, ast.Attribute) and
            c.func.attr == 'append']
    ok = len(apps) == 4 and all(len(c.args) == 1 and _key_is(c.args[0], modv) for c in apps)
    # guards: a module is entered under an OID whenever the status carries one; a list is created only when absent
    src = {}
    for s_ in walk_no_nested(lp):
        if isinstance(s_, ast.Assign) and len(s_.targets) == 1 and isinstance(s_.targets[0], ast.Name) and \
                isinstance(s_.value, ast.Call) and dotted_name(s_.value.func) == 'getattr':
            src[s_.targets[0].id] = s_
    for c in apps:
        st = common.stmt_of(c)
        gs = ir.guards_of(st, fn)
        bad = [('' if b else 'not ') + norm(t)[:50] for t, b in gs if not (b and isinstance(t, ast.Name) and t.id in src)]
        chk.ob('C18.R3', 'genIndex/entered-whenever-the-status-has-the-oid %s' % norm(c)[:40], not bad, where(mod, c),
               'the module is entered only under a further condition (%s): an OID the module defines can be left out '
               'of the index' % '; '.join(bad))
    inits = [s_ for s_ in walk_no_nested(lp) if isinstance(s_, ast.Assign) and isinstance(s_.targets[0], ast.Subscript)
             and norm(s_.value) == '[]']
    for s_ in inits:
        gs = ir.guards_of(s_, fn)
        t_ = s_.targets[0]
        want = '%s not in %s' % (norm(t_.slice), norm(t_.value))
        ok_i = bool(gs) and gs[-1][1] and norm(gs[-1][0]) == want
        chk.ob('C18.R3', 'genIndex/list-created-only-when-absent %s' % norm(t_)[:40], ok_i, where(mod, s_),
               'an existing module list (from the earlier index or another module) is replaced by an empty one '
               'unless the store is under `if %s`' % want)
    sd = [c for c in apps if isinstance(c.func.value, ast.Call) and isinstance(c.func.value.func, ast.Attribute) and
          c.func.value.func.attr == 'setdefault' and len(c.func.value.args) == 2 and norm(c.func.value.args[1]) == '[]']
    chk.ob('C18.R3', 'genIndex/every-section-creates-missing-lists', len(inits) + len(sd) == 4, where(mod, lp),
           '%d `if k not in d: d[k] = []` and %d `d.setdefault(k, []).append(..)` forms for 4 sections' % (len(inits), len(sd)))
    chk.ob('C18.R3', 'genIndex/appends-module', ok, where(mod, lp), 'each section must append the module name')
    # monotone: no deletion / rebinding of sections other than oids
    for n in walk_no_nested(fn):
        bad = None
        if isinstance(n, ast.Delete):
            bad = n
        if isinstance(n, ast.Call) and isinstance(n.func, ast.Attribute) and n.func.attr in ('pop', 'popitem', 'clear',
                                                                                             'remove'):
            bad = n
        if isinstance(n, ast.Assign) and isinstance(n.targets[0], ast.Subscript) and \
                _key_is(n.targets[0].value, od) and isinstance(n.targets[0].slice, ast.Constant) and \
                n.targets[0].slice.value in ('identity', 'enterprise', 'compliance'):
            bad = n
        if bad is not None:
            chk.ob('C18.R3', 'genIndex/section-shrinks %s' % norm(bad)[:40], False, where(mod, bad),
                   'an index section loses entries')
    # compaction
    comp = [n for n in walk_no_nested(lp) if isinstance(n, ast.For) and 'sorted(' in norm(n.iter) and
            ".count('.')" in norm(n.iter)]
    chk.ob('C18.R3', 'genIndex/compaction-shortest-first', len(comp) == 1, where(mod, lp),
           'candidates must be visited shortest OID first')
    if len(comp) == 1:
        outer = comp[0]
        oidv = outer.target.id
        inner = [n for n in outer.body if isinstance(n, ast.For)]
        ok = len(inner) == 1 and inner[0].orelse and isinstance(inner[0].target, ast.Tuple)
        if ok:
            pv, mv = [e.id for e in inner[0].target.elts]
            kept = norm(inner[0].iter).split('.items')[0]
            test = [n for n in inner[0].body if isinstance(n, ast.If)]
            ok = len(test) == 1 and isinstance(test[0].body[-1], ast.Break)
            if ok:
                conj = ir.conjuncts(test[0].test)
                sup = [c for c in conj if isinstance(c, ast.Call) and isinstance(c.func, ast.Attribute) and
                       c.func.attr == 'issuperset']
                pref = [c for c in conj if c not in sup]
                forms = ('%s == %s or %s.startswith(%s + \'.\')' % (oidv, pv, oidv, pv),
                         '%s.startswith(%s + \'.\') or %s == %s' % (oidv, pv, oidv, pv),
                         "%s.split('.')[:len(%s.split('.'))] == %s.split('.')" % (oidv, pv, pv),
                         "(%s + '.').startswith(%s + '.')" % (oidv, pv),
                         '%s == %s or %s.startswith(%s + \'.\')' % (pv, oidv, oidv, pv),
                         '%s.startswith(%s + \'.\') or %s == %s' % (oidv, pv, pv, oidv),
                         "%s.split('.') == %s.split('.')[:len(%s.split('.'))]" % (pv, oidv, pv))
                chk.ob('C18.R3', 'genIndex/compaction-prefix-test', len(pref) == 1 and norm(pref[0]) in forms,
                       where(mod, test[0]), 'the covering test must be a component-wise prefix test of the candidate '
                       'against the kept entry: %s' % [norm(c) for c in pref])
                ok_sup = len(sup) == 1 and norm(sup[0].func.value) == 'set(%s)' % mv and \
                    norm(sup[0].args[0]).endswith('[%s]' % oidv)
                chk.ob('C18.R3', 'genIndex/compaction-superset', ok_sup, where(mod, test[0]),
                       'an entry may be dropped only if the covering entry names a superset of its modules: %s' %
                       norm(test[0].test)[:120])
                keep = [s for s in inner[0].orelse if isinstance(s, ast.Assign) and
                        norm(s.targets[0]) == '%s[%s]' % (kept, oidv)]
                chk.ob('C18.R3', 'genIndex/compaction-keeps-uncovered', len(keep) == 1, where(mod, inner[0]),
                       'an uncovered entry must be kept')
                fin = [s for s in walk_no_nested(lp) if isinstance(s, ast.Assign) and
                       norm(s) == "%s['oids'] = %s" % (od, kept)]
                chk.ob('C18.R3', 'genIndex/compaction-result-installed', len(fin) == 1, where(mod, lp), '')
        chk.ob('C18.R3', 'genIndex/compaction-shape', ok, where(mod, outer), 'for/else over the kept prefixes expected')


def _order_decoded(chk, mod, fn):
    """order(top) decoded arm by arm: which kind of value takes which arm, what each arm copies and what it returns"""
    from rules import ir
    tp = fn.args.args[0].arg
    kinds = {'isinstance(%s, dict)' % tp: 'dict', 'isinstance(%s, list)' % tp: 'list'}

    def arm(node):
        pos, neg = set(), set()
        for test, in_body in ir.guards_of(node, fn):
            k = kinds.get(norm(test))
            if k is None:
                return None
            (pos if in_body else neg).add(k)
        if pos == {'dict'} and not neg:
            return 'dict'
        if pos == {'list'} and neg <= {'dict'}:
            return 'list'
        if not pos and neg == {'dict', 'list'}:
            return 'other'
        if not pos and not neg:
            # code after the if-chain: reached by whatever arm does not return
            return 'after'
        return None
    # containers created in the arms
    made = {}
    for s_ in walk_no_nested(fn):
        if isinstance(s_, ast.Assign) and len(s_.targets) == 1 and isinstance(s_.targets[0], ast.Name):
            v = norm(s_.value)
            if v in ('OrderedDict()', '[]'):
                made[(arm(s_), s_.targets[0].id)] = v
    dloc = [n for (a, n), v in made.items() if a == 'dict' and v == 'OrderedDict()']
    lloc = [n for (a, n), v in made.items() if a == 'list' and v == '[]']
    chk.ob('C18.R4', 'order/arms-create-their-container', len(dloc) == 1 and len(lloc) == 1, where(mod, fn),
           'mapping arm must build an OrderedDict, list arm a list (found %s)' % sorted(map(str, made.items())))
    if not (len(dloc) == 1 and len(lloc) == 1):
        return
    dloc, lloc = dloc[0], lloc[0]
    # copies
    dcopies, lcopies, loops = [], [], []
    for s_ in walk_no_nested(fn):
        if isinstance(s_, ast.For):
            loops.append(s_)
    for lp in loops:
        a = arm(lp)
        var = lp.target.id if isinstance(lp.target, ast.Name) else None
        it = norm(lp.iter)
        body = [norm(b) for b in lp.body]
        if a == 'dict':
            ok = var is not None and it.startswith('sorted(%s' % tp) and body == [
                '%s[%s] = %s(%s[%s])' % (dloc, var, fn.name, tp, var)] and not lp.orelse
            dcopies.append((lp, ok))
        elif a == 'list':
            ok = var is not None and it == 'sorted(set(%s))' % tp and body == [
                '%s.append(%s(%s))' % (lloc, fn.name, var)] and not lp.orelse
            lcopies.append((lp, ok))
        else:
            chk.ob('C18.R4', 'order/loop-outside-the-arms', False, where(mod, lp), 'loop under guards that are not the kind tests')
    chk.ob('C18.R4', 'order/mapping-arm-copies-every-key-ordered', len(dcopies) == 2 and all(ok for _, ok in dcopies),
           where(mod, fn), 'both the numeric and the fallback loop must be `for k in sorted(%s ..): %s[k] = %s(%s[k])`'
           % (tp, dloc, fn.name, tp))
    chk.ob('C18.R4', 'order/list-arm-copies-every-member-once-ordered', len(lcopies) == 1 and all(ok for _, ok in lcopies),
           where(mod, fn), '`for e in sorted(set(%s)): %s.append(%s(e))` expected' % (tp, lloc, fn.name))
    # the fallback loop runs in the handler of the numeric one, for ValueError only
    trys = [t for t in walk_no_nested(fn) if isinstance(t, ast.Try)]
    ok = len(trys) == 1 and len(trys[0].handlers) == 1 and norm(trys[0].handlers[0].type) == 'ValueError' and \
        not trys[0].finalbody and not trys[0].orelse and len(dcopies) == 2 and \
        any(common._within(dcopies[0][0], b) for b in trys[0].body) and \
        any(common._within(dcopies[1][0], b) for b in trys[0].handlers[0].body)
    chk.ob('C18.R4', 'order/fallback-order-only-for-non-numeric-keys', ok, where(mod, trys[0] if trys else fn),
           'numeric key order in the try body, plain order in its ValueError handler')
    # returns
    want = {'dict': dloc, 'list': lloc, 'other': tp, 'after': tp}
    rets = [x for x in walk_no_nested(fn) if isinstance(x, ast.Return)]
    seen = set()
    for r_ in rets:
        a = arm(r_)
        seen.add(a)
        chk.ob('C18.R4', 'order/returns %s-arm' % a, a in want and r_.value is not None and norm(r_.value) == want[a],
               where(mod, r_), 'this arm must return %s' % want.get(a))
    chk.ob('C18.R4', 'order/every-arm-returns', {'dict', 'list'} <= seen and ('other' in seen or 'after' in seen),
           where(mod, fn), 'arms with a return: %s' % sorted(map(str, seen)))


def r4_ordering(chk):
    model = chk.model
    ci = model.cls(JSONDOC, 'JsonCodeGen')
    mod = ci.mod
    o, fn = ci.find_method('genIndex')
    chk.doc('C18.R4', 'the document is dumped through order(): mapping keys sorted (numerically as OIDs when '
                      'possible), every list through sorted(set(..)) so duplicates collapse and re-indexing the same '
                      'results changes nothing')
    order = [n for n in ast.walk(fn) if isinstance(n, ast.FunctionDef) and n.name == 'order']
    ok = len(order) == 1
    chk.ob('C18.R4', 'genIndex/order-helper', ok, where(mod, fn), 'order() helper missing')
    if ok:
        txt = norm(order[0])
        tp = order[0].args.args[0].arg
        chk.ob('C18.R4', 'order/lists-sorted-set', common.pmatch(txt, 'for $e in sorted(set(%s))' % tp, full=False)
               is not None, where(mod, order[0]),
               'lists must be emitted as sorted(set(list))')
        chk.ob('C18.R4', 'order/dicts-sorted', common.pmatch(
            txt, 'sorted(%s, key=lambda $x: [int($y) for $y in $x.split' % tp, full=False) is not None and
            common.pmatch(txt, 'for $k in sorted(%s)' % tp, full=False) is not None, where(mod, order[0]),
            'mapping keys must be sorted')
        chk.ob('C18.R4', 'order/recursion', txt.count('order(') >= 3, where(mod, order[0]), '')
    if ok:
        _order_decoded(chk, mod, order[0])
    rets = [x for x in walk_no_nested(fn) if isinstance(x, ast.Return)]
    ok = len(rets) == 1 and norm(rets[0].value).startswith('json.dumps(order(')
    chk.ob('C18.R4', 'genIndex/dumps-ordered-document', ok, where(mod, fn), 'returns %s' % [norm(r.value)[:60] for r in rets])
    # buildIndex passes the previous index and writes under the index name
    o2, bi = model.method('pysmi/compiler.py', 'MibCompiler', 'buildIndex')
    txt = norm(bi)
    ok = 'old_index_data=self._writer.getData(self.indexFile)' in txt and 'self._codegen.genIndex(processedMibs' in txt
    chk.ob('C18.R4', 'buildIndex/merges-existing-index', ok, where(o2.mod, bi),
           'buildIndex must hand the existing index to genIndex')


def r5_index_file_roundtrip(chk):
    model = chk.model
    ci = model.cls('pysmi/writer/localfile.py', 'FileWriter')
    mod = ci.mod
    chk.doc('C18.R5', 'FileWriter.getData reads the file putData writes: both build os.path.join(self._path, '
                      'decode(<name>)) + self.suffix; read errors yield the empty string (no earlier index)')
    paths = {}
    for m in ('getData', 'putData'):
        o, fn = ci.find_method(m)
        chk.subject(fn, 'FileWriter.%s' % m)
        p = fn.args.args[1].arg
        js = [norm(s.value).replace(p, 'NAME') for s in walk_no_nested(fn) if isinstance(s, ast.Assign) and
              'os.path.join(self._path' in norm(s.value)]
        paths[m] = js
    ok = len(paths['getData']) == 1 and paths['getData'] == paths['putData'] and \
        paths['getData'][0] == 'os.path.join(self._path, decode(NAME)) + self.suffix'
    chk.ob('C18.R5', 'FileWriter/getData-reads-what-putData-writes', ok, where(mod, ci.node),
           'putData stores %s, getData reads %s: the earlier index is never found and an incremental build starts '
           'from scratch' % (paths['putData'], paths['getData']))
    o, gd = ci.find_method('getData')
    rets = [norm(x.value) for x in walk_no_nested(gd) if isinstance(x, ast.Return) and x.value is not None]
    chk.ob('C18.R5', 'FileWriter.getData/returns-content-or-empty', len(rets) == 2 and "''" in rets, where(mod, gd),
           'returns %s' % rets)


def r6_summary_objects(chk):
    from vt.runner import Check
    from rules.C01 import r7b_summary_not_aliased
    chk.doc('C18.R6', 'the OID collections a status carries are the module\'s own objects (not one shared, cleared '
                      'object): see C01.R7b / C12.R3')
    tmp = Check(chk.prop, chk.tier, chk.model, chk.repo)
    r7b_summary_not_aliased(tmp)
    for o in tmp.obligations:
        chk.ob('C18.R6', o.key, o.ok, o.where, o.detail)


def r7_build_index_call(chk):
    """buildIndex writes genIndex(<its first argument>, ..., old_index_data=<what the writer reads back under the same
    name>) under the index name; a failure is raised unless ignoreErrors was asked for"""
    model = chk.model
    from rules import compile_roles as cr
    o2, bi = model.method('pysmi/compiler.py', 'MibCompiler', 'buildIndex')
    mod = o2.mod
    chk.doc('C18.R7', 'MibCompiler.buildIndex: putData(<index name>, genIndex(<processed argument>, comments=..., '
                      'old_index_data=<writer>.getData(<same index name>)), dryRun=...) - name first, document '
                      'second; a PySmiError from it is re-raised on every path except under a positive '
                      'options.get("ignoreErrors") test, which returns')
    proc = bi.args.args[1].arg
    opt = bi.args.kwarg.arg if bi.args.kwarg else 'options'
    puts = [c for c in walk_no_nested(bi) if isinstance(c, ast.Call) and isinstance(c.func, ast.Attribute) and
            c.func.attr == 'putData']
    chk.ob('C18.R7', 'buildIndex/one-putData', len(puts) == 1, where(mod, bi), '%d putData calls' % len(puts))
    if len(puts) != 1:
        return
    put = puts[0]
    ok = len(put.args) == 2 and isinstance(put.args[1], ast.Call) and isinstance(put.args[1].func, ast.Attribute) and \
        put.args[1].func.attr == 'genIndex'
    chk.ob('C18.R7', 'buildIndex/putData(name, document)', ok, where(mod, put), norm(put)[:100])
    if not ok:
        return
    name, gen = put.args
    chk.ob('C18.R7', 'buildIndex/index-name', norm(name) == 'self.indexFile', where(mod, put), norm(name))
    chk.ob('C18.R7', 'buildIndex/genIndex-input', bool(gen.args) and norm(gen.args[0]) == proc, where(mod, gen),
           'genIndex must be given the caller\'s results (%s)' % proc)
    old = [k.value for k in gen.keywords if k.arg == 'old_index_data']
    ok = len(old) == 1 and isinstance(old[0], ast.Call) and isinstance(old[0].func, ast.Attribute) and \
        old[0].func.attr == 'getData' and norm(old[0].func.value) == norm(put.func.value) and \
        [norm(a) for a in old[0].args] == [norm(name)]
    chk.ob('C18.R7', 'buildIndex/old-index-read-back', ok, where(mod, gen),
           'old_index_data must be <same writer>.getData(<same index name>)')
    ts = enclosing_trys(common.stmt_of(put), bi)
    h = cr.handler_covering(model, mod, ts[0], ('PySmiError', 'Exception', 'BaseException')) if ts else None
    chk.ob('C18.R7', 'buildIndex/failure-handler', h is not None, where(mod, put), 'putData/genIndex not in a try')
    if h is None:
        return
    cfg = CFG(bi)
    hn = cfg.by_ast[id(h)]
    tests = [n for n in cfg.nodes if n.kind == 'test' and in_subtree(n.ast, h) and
             cr.option_reads(n.expr, opt, 'ignoreErrors')]
    pol = [cr.option_reads(n.expr, opt, 'ignoreErrors')[0][0] for n in tests]
    chk.ob('C18.R7', 'buildIndex/ignoreErrors-test', len(tests) == 1 and pol == [True], where(mod, h),
           'one un-negated %s.get("ignoreErrors") test expected, found %s' % (opt, [norm(n.expr) for n in tests]))
    if len(tests) != 1:
        return
    t = tests[0]
    # without ignoreErrors (F edge) no path leaves the handler normally: every path ends in a raise
    seen = cfg.reach([m for m, l in t.succ if l == 'F'], skip_labels=('exc',))
    leaves = cfg.exit in seen
    chk.ob('C18.R7', 'buildIndex/failure-raised-by-default', not leaves and any(
        n.kind == 'stmt' and isinstance(n.ast, ast.Raise) for n in seen), where(mod, h),
           'without ignoreErrors an index failure must be raised; a path returns normally')
    seen_t = cfg.reach([m for m, l in t.succ if l == 'T'], skip_labels=('exc',))
    chk.ob('C18.R7', 'buildIndex/failure-ignored-on-request', cfg.exit in seen_t and not any(
        n.kind == 'stmt' and isinstance(n.ast, ast.Raise) for n in seen_t), where(mod, h),
           'with ignoreErrors the failure must not be raised')


def r8_index_accumulation(chk):
    """every OID of every processed module is added to its section: the list under an OID is created only when the OID
    is new and the module is appended unconditionally"""
    model = chk.model
    ci = model.cls('pysmi/codegen/jsondoc.py', 'JsonCodeGen')
    o, fn = ci.find_method('genIndex')
    mod = ci.mod
    chk.doc('C18.R8', 'genIndex: for each of identity / enterprise / compliance / oids: `if oid not in section: '
                      'section[oid] = []` (creation only when absent, by predicate-valuation reachability) followed '
                      'by an unconditional section[oid].append(module) in the same block; no reset of a present key '
                      '(common.contradictory_lookups)')
    cfg = CFG(fn)
    apps = [c for c in walk_no_nested(fn) if isinstance(c, ast.Call) and isinstance(c.func, ast.Attribute) and
            c.func.attr == 'append' and isinstance(c.func.value, ast.Subscript)]
    n = 0
    for c in apps:
        d, k = norm(c.func.value.value), norm(c.func.value.slice)
        st = common.stmt_of(c)
        from rules.C07 import block_of
        blk = block_of(st)
        inits = [x for x in blk if isinstance(x, ast.If) and any(
            isinstance(y, ast.Assign) and norm(y.targets[0]) == '%s[%s]' % (d, k) for y in x.body)]
        n += 1
        chk.ob('C18.R8', 'genIndex/%s[%s]/create-then-append' % (d, k), len(inits) == 1 and
               blk.index(inits[0]) < blk.index(st), where(mod, c), 'the list must be created (when absent) right before '
               'the unconditional append in the same block')
        for x in inits:
            for y in x.body:
                if isinstance(y, ast.Assign):
                    common.requires(chk, 'C18.R8', 'genIndex/%s[%s]/created-only-when-absent' % (d, k), cfg, mod,
                                    [cfg.node_of(y)], {'%s in %s' % (k, d): False})
        loops_ = [l_ for l_ in walk_no_nested(fn) if isinstance(l_, ast.For) and norm(l_.iter).endswith('.items()') and
                  isinstance(l_.target, ast.Tuple) and in_subtree(c, l_)]
        mv = loops_[0].target.elts[0].id if loops_ and isinstance(loops_[0].target.elts[0], ast.Name) else None
        chk.ob('C18.R8', 'genIndex/%s[%s]/appends-the-module' % (d, k), len(c.args) == 1 and mv is not None and
               norm(c.args[0]) == mv, where(mod, c), norm(c))
    chk.floor('C18.R8', 12, 'four sections')
    common.contradictory_lookups(chk, 'C18.R8', ['pysmi/codegen/jsondoc.py'])



def r7_every_result_reaches_every_section(chk):
    """in genIndex the loop over the compile results considers each of the four sections for every module: nothing
    (no `continue`, `break` or `return`) lets an iteration leave before the later sections - a module without
    MODULE-IDENTITY (every SMIv1 MIB) still has an enterprise, compliance statements and OIDs"""
    model = chk.model
    ci = model.cls(JSONDOC, 'JsonCodeGen')
    o, fn = ci.find_method('genIndex')
    chk.doc('C18.R7', 'JsonCodeGen.genIndex: the loop over (module, status) pairs contains no continue / break / return at '
                      'its own level: each section (identity, enterprise, compliance, oids) is fed independently of the others')
    loops = [n for n in fn.body if isinstance(n, ast.For) and 'items()' in norm(n.iter)]
    chk.ob('C18.R7', 'genIndex/result-loop', len(loops) >= 1, where(ci.mod, fn), '%d loops over the results' % len(loops))
    for lp in loops[:1]:
        leave = []
        def own_level(body):
            for st in body:
                if isinstance(st, (ast.Continue, ast.Break, ast.Return)):
                    leave.append(st)
                elif isinstance(st, (ast.If, ast.Try, ast.With)):
                    for f in ('body', 'orelse', 'finalbody'):
                        own_level(getattr(st, f, []) or [])
                    for h in getattr(st, 'handlers', []) or []:
                        own_level(h.body)
        own_level(lp.body)
        chk.ob('C18.R7', 'genIndex/no-early-exit-from-an-iteration', not leave,
               where(ci.mod, leave[0]) if leave else where(ci.mod, lp),
               'an iteration can be left early (`%s` under `%s`): the sections after it are skipped for that module' % (
                   norm(leave[0]) if leave else '', norm(getattr(leave[0], '_parent', leave[0]))[:50] if leave else ''))


RULES = [r1_componentwise_prefix, r2_attribute_chain, r3_sections_monotone, r4_ordering, r5_index_file_roundtrip,
         r6_summary_objects, r7_build_index_call, r8_index_accumulation, r7_every_result_reaches_every_section]
