"""C14 - readers return the right file for a module name, incl. subdirs and nested ZIPs."""
import ast

from vt.cfg import CFG
from vt.model import walk_no_nested, norm, dotted_name, MiniEval, Unknown
from vt.runner import where, AnalysisError
from rules import common
from rules.C07 import _key_is

EXPLANATION = (
    "Provenance and shape rules on the readers: in FileReader.getData the path that is tested (exists and isfile), "
    "stat()ed, opened and reported is one expression built from the reader's directory walk and a name variant; the "
    "mtime is stat index 8; the content is decode(read(maxMibSize)); MibInfo carries that path, file and alias; "
    "getMibVariants derives candidates only from the requested name (as given / upper / lower / -mib added or "
    "stripped) under the matching option flags times the extension list, and setOptions really sets every option "
    "given; the .index mapping is consulted first; every reader's getData falls through to "
    "PySmiReaderFileNotFoundError; getSubdirs and _readZipDirectory recurse (sub-directories, nested archives) and "
    "the in-memory file wrapper offers the protocol zipfile needs; ZIP members are looked up by exact basename; the "
    "URL dispatch table (scheme, extension) -> reader kind and default port is extracted and compared with the "
    "documented one.")
ASSUMPTIONS = ["byte equality of returned content, archive decoding and the duplicate-basename policy are runtime data",
               "urlparse semantics are those of the standard library"]
TECHNIQUE = 'expression-provenance rules on the reader functions; constant-folded dispatch table of getReadersFromUrls; guard-sensitive statement decode of the ZIP reader (directory, reference chain, FileLike)'

BASE = 'pysmi/reader/base.py'
LOCAL = 'pysmi/reader/localfile.py'
ZIP = 'pysmi/reader/zipreader.py'
URL = 'pysmi/reader/url.py'


def r1_file_reader(chk):
    model = chk.model
    ci = model.cls(LOCAL, 'FileReader')
    mod = ci.mod
    o, fn = ci.find_method('getData')
    chk.unit(LOCAL, BASE, ZIP, URL)
    chk.doc('C14.R1', 'FileReader.getData: f = os.path.join(<dir of the walk>, <variant file name>) is the one path '
                      'tested with exists+isfile, stat()ed ([8]), opened "rb" and reported as file://f; content is '
                      'decode(fp.read(self.maxMibSize)); MibInfo(file=<variant>, name=<alias>, mtime=<that stat>)')
    outer = [n for n in fn.body if isinstance(n, ast.For)]
    ok = len(outer) == 1 and norm(outer[0].iter) == 'self.getSubdirs(self._path, self._recursive, self._ignoreErrors)'
    chk.ob('C14.R1', 'getData/walks-own-directory', ok, where(mod, fn), 'directory walk: %s' % [norm(n.iter) for n in outer])
    if not ok:
        return
    dv = outer[0].target.id
    inner = [n for n in outer[0].body if isinstance(n, ast.For)]
    ok = len(inner) == 1 and norm(inner[0].iter) == 'self.getMibVariants(%s, **options)' % fn.args.args[1].arg and \
        isinstance(inner[0].target, ast.Tuple)
    chk.ob('C14.R1', 'getData/variants-of-requested-name', ok, where(mod, fn), 'variants: %s' % [norm(n.iter) for n in inner])
    if not ok:
        return
    alias, fname = [e.id for e in inner[0].target.elts]
    asg = [s for s in inner[0].body if isinstance(s, ast.Assign) and isinstance(s.targets[0], ast.Name) and
           'os.path.join' in norm(s.value)]
    ok = len(asg) == 1 and norm(asg[0].value) == 'os.path.join(decode(%s), decode(%s))' % (dv, fname)
    chk.ob('C14.R1', 'getData/path-construction', ok, where(mod, inner[0]), 'path: %s' % [norm(s.value) for s in asg])
    if not asg:
        return
    f = asg[0].targets[0].id
    reassigned = [s for s in walk_no_nested(inner[0]) if isinstance(s, ast.Assign) and _key_is(s.targets[0], f) and
                  s is not asg[0]]
    chk.ob('C14.R1', 'getData/path-not-changed', not reassigned, where(mod, inner[0]), '')
    guard = [n for n in inner[0].body if isinstance(n, ast.If)]
    gtxt = norm(guard[0].test) if guard else ''
    ok = len(guard) == 1 and 'os.path.exists(%s)' % f in gtxt and 'os.path.isfile(%s)' % f in gtxt and ' and ' in gtxt
    chk.ob('C14.R1', 'getData/exists-and-isfile', ok, where(mod, guard[0]) if guard else where(mod, inner[0]),
           'a candidate must be an existing regular file (a directory named like the module must be skipped): %s' % gtxt)
    body = guard[0] if guard else inner[0]
    stats = [c for c in walk_no_nested(body) if isinstance(c, ast.Call) and dotted_name(c.func) == 'os.stat']
    opens = [c for c in walk_no_nested(body) if isinstance(c, ast.Call) and dotted_name(c.func) == 'open']
    ok = len(stats) == 1 and norm(stats[0].args[0]) == f and len(opens) == 1 and norm(opens[0].args[0]) == f
    chk.ob('C14.R1', 'getData/same-path-stat-and-open', ok, where(mod, body), 'stat(%s) / open(%s)' % (
        [norm(c.args[0]) for c in stats], [norm(c.args[0]) for c in opens]))
    if stats:
        sub = getattr(stats[0], '_parent', None)
        chk.ob('C14.R1', 'getData/mtime-index', isinstance(sub, ast.Subscript) and norm(sub.slice) in ('8', 'stat.ST_MTIME'),
               where(mod, stats[0]), 'os.stat(f)[8] is the modification time')
    if opens:
        mode = [k for k in opens[0].keywords if k.arg == 'mode'] or opens[0].args[1:2]
        mv = mode[0].value if mode and isinstance(mode[0], ast.keyword) else (mode[0] if mode else None)
        chk.ob('C14.R1', 'getData/binary-read', isinstance(mv, ast.Constant) and mv.value == 'rb', where(mod, opens[0]), '')
    reads = [c for c in walk_no_nested(body) if isinstance(c, ast.Call) and isinstance(c.func, ast.Attribute) and
             c.func.attr == 'read']
    ok = len(reads) == 1 and [norm(a) for a in reads[0].args] == ['self.maxMibSize']
    chk.ob('C14.R1', 'getData/size-cap', ok, where(mod, body), 'read(self.maxMibSize)')
    rets = [x for x in walk_no_nested(body) if isinstance(x, ast.Return)]
    ok = len(rets) == 1 and isinstance(rets[0].value, ast.Tuple) and len(rets[0].value.elts) == 2
    if ok:
        mi, data = rets[0].value.elts
        kws = dict((k.arg, norm(k.value)) for k in mi.keywords) if isinstance(mi, ast.Call) else {}
        mt = [s.targets[0].id for s in walk_no_nested(body) if isinstance(s, ast.Assign) and stats and
              stats[0] in list(ast.walk(s.value)) and isinstance(s.targets[0], ast.Name)]
        rv = [s.targets[0].id for s in walk_no_nested(body) if isinstance(s, ast.Assign) and reads and
              reads[0] in list(ast.walk(s.value)) and isinstance(s.targets[0], ast.Name)]
        ok = kws.get('path') == "'file://%%s' %% %s" % f and kws.get('file') == fname and kws.get('name') == alias and \
            bool(mt) and kws.get('mtime') == mt[0] and bool(rv) and norm(data) == 'decode(%s)' % rv[0]
        chk.ob('C14.R1', 'getData/result', ok, where(mod, rets[0]),
               'result must describe the file that was read: %s, data %s' % (kws, norm(data)))
    else:
        chk.ob('C14.R1', 'getData/result', False, where(mod, body), 'no (MibInfo, text) return')


def r2_variants(chk):
    model = chk.model
    ci = model.cls(BASE, 'AbstractReader')
    mod = ci.mod
    o, fn = ci.find_method('getMibVariants')
    chk.doc('C14.R2', 'getMibVariants: the name as given / upper / lower are added under originalMatching / '
                      'uppercaseMatching / lowcaseMatching; under fuzzyMatching the -mib suffix is stripped from or '
                      'added to the name; each candidate is paired with every extension (options["exts"] or '
                      'self.exts); setOptions sets every option it is given')
    p = fn.args.args[1].arg
    lst = [s.targets[0].id for s in fn.body if isinstance(s, ast.Assign) and isinstance(s.targets[0], ast.Name) and
           isinstance(s.value, ast.List) and not s.value.elts]
    L = lst[0] if lst else 'filenames'
    want = {'self.originalMatching': p, 'self.uppercaseMatching': '%s.upper()' % p, 'self.lowcaseMatching': '%s.lower()' % p}
    for flag, val in sorted(want.items()):
        ifs = [n for n in fn.body if isinstance(n, ast.If) and norm(n.test) == flag]
        ok = len(ifs) == 1 and [norm(s) for s in ifs[0].body] == ['%s.append(%s)' % (L, val)] and not ifs[0].orelse
        chk.ob('C14.R2', 'getMibVariants/%s' % flag.split('.')[1], ok, where(mod, fn), 'under %s: %s' % (
            flag, [norm(s) for i in ifs for s in i.body]))
    fz = [n for n in fn.body if isinstance(n, ast.If) and norm(n.test) == 'self.fuzzyMatching']
    ok = len(fz) == 1
    if ok:
        txt = norm(fz[0])
        ok = "find('-mib')" in txt and common.pmatch(txt, "[$x[:$part] for $x in %s]" % L, full=False) is not None \
            and "%s + '-mib'" % p in txt
        stores = set(n.id for n in ast.walk(fz[0]) if isinstance(n, ast.Name) and isinstance(n.ctx, ast.Store))
        names = set(n.id for n in ast.walk(fz[0]) if isinstance(n, ast.Name) and isinstance(n.ctx, ast.Load))
        ok = ok and names <= (set(['self', L, p]) | stores)
    chk.ob('C14.R2', 'getMibVariants/fuzzy', ok, where(mod, fn), 'fuzzy candidates must only add or strip -mib')
    if len(fz) == 1:
        # polarity: strip when the suffix was found, add when it was not
        strip = [c for c in walk_no_nested(fz[0]) if isinstance(c, ast.Call) and norm(c.func) == '%s.extend' % L]
        add_ = [c for c in walk_no_nested(fz[0]) if isinstance(c, ast.Call) and norm(c.func) == '%s.append' % L]
        fa = [s_ for s_ in walk_no_nested(fz[0]) if isinstance(s_, ast.Assign) and isinstance(s_.targets[0], ast.Name) and
              norm(s_.value).endswith(".find('-mib')")]
        b_ = {'part': fa[0].targets[0].id} if len(fa) == 1 else None
        chk.ob('C14.R2', 'getMibVariants/fuzzy-suffix-search', b_ is not None, where(mod, fz[0]), '')
        if b_:
            found = ('%s != -1' % b_['part'], '%s >= 0' % b_['part'], '%s > -1' % b_['part'])
            gs1 = [g for c in strip for g in _g(c, fn) if g[0] != 'self.fuzzyMatching']
            gs2 = [g for c in add_ for g in _g(c, fn) if g[0] != 'self.fuzzyMatching']
            absent = ('%s == -1' % b_['part'], '%s < 0' % b_['part'], '%s <= -1' % b_['part'])

            def has(g, want):
                return (g[0] in found and g[1] == want) or (g[0] in absent and g[1] != want)
            okp = bool(strip) and bool(add_) and all(has(g, True) for g in gs1) and \
                all(has(g, False) for g in gs2) and len(gs1) == len(strip) and len(gs2) == len(add_)
            chk.ob('C14.R2', 'getMibVariants/fuzzy-polarity', okp, where(mod, fz[0]),
                   'names are cut at -mib when the name has that suffix and get it added when it has not (guards %s / %s)'
                   % (gs1, gs2))
            src_ok = norm(fz[0]).count("%s[-1].find('-mib')" % L) == 1
            chk.ob('C14.R2', 'getMibVariants/suffix-looked-up-in-the-lower-case-name', src_ok, where(mod, fz[0]),
                   'the suffix is searched for in the last (lower-case) candidate')
    # any other append / source of names?
    apps = [c for c in walk_no_nested(fn) if isinstance(c, ast.Call) and isinstance(c.func, ast.Attribute) and
            c.func.attr in ('append', 'extend', 'insert') and _key_is(c.func.value, L)]
    guarded = all(any(norm(t) in list(want) + ['self.fuzzyMatching'] for t in tests_of(c, fn)) for c in apps)
    chk.ob('C14.R2', 'getMibVariants/all-candidates-under-a-flag', guarded and len(apps) == 6, where(mod, fn),
           '%d candidate insertions' % len(apps))
    rets = [x for x in walk_no_nested(fn) if isinstance(x, ast.Return)]
    ok = len(rets) == 1 and common.pmatch(rets[0].value, "(($x, $x + $y) for $x in %s for $y in options.get('exts', self.exts))" % L) is not None
    chk.ob('C14.R2', 'getMibVariants/pairs-with-extensions', ok, where(mod, fn), 'returns %s' % [norm(r.value) for r in rets])
    o, so = ci.find_method('setOptions')
    body = [s for s in so.body if not (isinstance(s, ast.Expr) and isinstance(s.value, ast.Constant))]
    ok = len(body) == 2 and isinstance(body[0], ast.For) and [norm(s) for s in body[0].body] == [
        'setattr(self, %s, kwargs[%s])' % (body[0].target.id, body[0].target.id)] and norm(body[1]) == 'return self'
    chk.ob('C14.R2', 'AbstractReader.setOptions', ok, where(mod, so),
           'every option given must be set (switching an option off must work): %s' % [norm(s)[:60] for s in body])
    # defaults
    ev = MiniEval(model, mod)
    try:
        exts = ev.class_attr(ci, 'exts')
    except Unknown:
        exts = None
    chk.ob('C14.R2', 'AbstractReader.exts', exts is not None and exts[0] == '' and set(exts) == set(
        ['', '.txt', '.mib', '.my', '.TXT', '.MIB', '.MY']), BASE, 'exts = %s' % (exts,))
    ca = dict((t_.id, norm(s_.value)) for s_ in ci.node.body if isinstance(s_, ast.Assign) for t_ in s_.targets
              if isinstance(t_, ast.Name))
    flags = ('fuzzyMatching', 'originalMatching', 'uppercaseMatching', 'lowcaseMatching')
    chk.ob('C14.R2', 'AbstractReader/all-variants-on-by-default', all(ca.get(f_) == 'True' for f_ in flags), BASE,
           'documented defaults: every matching option is on (found %s)' % dict((f_, ca.get(f_)) for f_ in flags))


def tests_of(node, fn):
    out = []
    a = getattr(node, '_parent', None)
    while a is not None and a is not fn:
        if isinstance(a, ast.If):
            out.append(a.test)
        a = getattr(a, '_parent', None)
    return out


def r3_index_first(chk):
    model = chk.model
    ci = model.cls(LOCAL, 'FileReader')
    mod = ci.mod
    o, fn = ci.find_method('getMibVariants')
    chk.doc('C14.R3', 'FileReader.getMibVariants: when the .index mapping (loaded once from <dir>/.index) names the '
                      'module it alone is returned, before the generic variants')
    cfg = CFG(fn)
    rets = [n for n in cfg.nodes if n.kind == 'stmt' and isinstance(n.ast, ast.Return)]
    idx = [n for n in rets if 'self._mibIndex[' in norm(n.ast)]
    gen = [n for n in rets if 'super(' in norm(n.ast) and 'getMibVariants' in norm(n.ast)]
    ok = len(idx) == 1 and len(gen) == 1 and idx[0].lineno < gen[0].lineno
    if ok:
        p = fn.args.args[1].arg
        ok = norm(idx[0].ast.value) == '[(%s, self._mibIndex[%s])]' % (p, p) and \
            any(norm(t) == '%s in self._mibIndex' % p for t in tests_of(idx[0].ast, fn)) and \
            any(norm(t) == 'self.useIndexFile' for t in tests_of(idx[0].ast, fn))
    chk.ob('C14.R3', 'FileReader.getMibVariants/index-wins', ok, where(mod, fn), '')
    ok = any(norm(s) == "self._mibIndex = self.loadIndex(os.path.join(self._path, self.indexFile))"
             for s in walk_no_nested(fn) if isinstance(s, ast.Assign))
    chk.ob('C14.R3', 'FileReader.getMibVariants/index-from-own-dir', ok, where(mod, fn), '')
    o, li = ci.find_method('loadIndex')
    ok = common.pmatch(norm(li), 'dict([$x.split()[:2] for $x in $f.readlines()])', full=False) is not None
    chk.ob('C14.R3', 'FileReader.loadIndex/format', ok, where(mod, li), 'index lines are `MIB-NAME file-name`')
    # guards: the mapping is loaded the first time it is asked for, from the file when the file exists, and returned
    ld = [s_ for s_ in walk_no_nested(fn) if isinstance(s_, ast.Assign) and norm(s_.targets[0]) == 'self._mibIndex']
    if ld:
        gs = _g(ld[0], fn)
        okg = all(g in (('self.useIndexFile', True), ('not self._indexLoaded', True)) for g in gs)
        chk.ob('C14.R3', 'FileReader.getMibVariants/index-loaded-on-first-use', okg, where(mod, ld[0]),
               'the load may depend on useIndexFile and on not having been done, on nothing else (guards %s)' % gs)
    ini = ci.methods.get('__init__')
    if ini is not None:
        st = dict((norm(s_.targets[0]), norm(s_.value)) for s_ in walk_no_nested(ini) if isinstance(s_, ast.Assign))
        chk.ob('C14.R3', 'FileReader.__init__/index-not-loaded-yet', st.get('self._indexLoaded') == 'False', where(mod, ini),
               'self._indexLoaded starts as False (found %s)' % st.get('self._indexLoaded'))
    ip = li.args.args[-1].arg
    ops = [c for c in walk_no_nested(li) if isinstance(c, ast.Call) and dotted_name(c.func) == 'open']
    okl = len(ops) == 1 and ops[0].args and norm(ops[0].args[0]) == ip and \
        _g(ops[0], li) in ([], [('os.path.exists(%s)' % ip, True)], [('os.path.isfile(%s)' % ip, True)])
    chk.ob('C14.R3', 'FileReader.loadIndex/reads-the-file-when-it-exists', okl, where(mod, ops[0] if ops else li),
           'open(%s) under no guard but the existence of the file (guards %s)' % (ip, ops and _g(ops[0], li)))
    rets = [x for x in walk_no_nested(li) if isinstance(x, ast.Return)]
    tgt = [norm(s_.targets[0]) for s_ in walk_no_nested(li) if isinstance(s_, ast.Assign) and 'readlines()' in norm(s_.value)]
    chk.ob('C14.R3', 'FileReader.loadIndex/returns-what-it-read', len(rets) == 1 and len(tgt) == 1 and
           norm(rets[0].value) == tgt[0] and not _g(rets[0], li), where(mod, li), '')
    ca = dict((norm(s_.targets[0]), norm(s_.value)) for s_ in ci.node.body if isinstance(s_, ast.Assign))
    chk.ob('C14.R3', 'FileReader/index-used-by-default-under-its-documented-name', ca.get('useIndexFile') == 'True' and
           ca.get('indexFile') == "'.index'", where(mod, ci.node), 'useIndexFile = True, indexFile = ".index" (found %s, %s)'
           % (ca.get('useIndexFile'), ca.get('indexFile')))
    if ini is not None:
        names = [a_.arg for a_ in ini.args.args]
        dfl = dict(zip(names[len(names) - len(ini.args.defaults):], [norm(d_) for d_ in ini.args.defaults]))
        chk.ob('C14.R3', 'FileReader.__init__/sub-directories-searched-by-default', dfl.get('recursive') == 'True',
               where(mod, ini), 'recursive=True is the documented default (found %s)' % dfl.get('recursive'))
    sup = [c for c in walk_no_nested(fn) if isinstance(c, ast.Call) and dotted_name(c.func) == 'super']
    oks = all((not c.args) or [norm(a_) for a_ in c.args] == [ci.node.name, 'self'] for c in sup) and bool(sup)
    chk.ob('C14.R3', 'FileReader.getMibVariants/generic-variants-of-the-base-class', oks, where(mod, fn),
           'super(%s, self) expected' % ci.node.name)


def r4_fallthrough(chk):
    model = chk.model
    chk.doc('C14.R4', 'every reader\'s getData ends in raise PySmiReaderFileNotFoundError on its fall-through path')
    for rel, cname in ((LOCAL, 'FileReader'), (ZIP, 'ZipReader'), ('pysmi/reader/httpclient.py', 'HttpReader'),
                       ('pysmi/reader/ftpclient.py', 'FtpReader'), ('pysmi/reader/callback.py', 'CallbackReader')):
        ci = model.cls(rel, cname)
        o, fn = ci.find_method('getData')
        chk.subject(fn, '%s.getData' % cname)
        last = fn.body[-1]
        anc = model.exc_ancestors(ci.mod, last.exc.func if isinstance(last.exc, ast.Call) else last.exc) \
            if isinstance(last, ast.Raise) and last.exc is not None else []
        chk.ob('C14.R4', '%s.getData/not-found' % cname, bool(anc) and anc[0] == 'PySmiReaderFileNotFoundError',
               where(ci.mod, last), 'fall-through must raise PySmiReaderFileNotFoundError')
    ci = model.cls(ZIP, 'ZipReader')
    o, fn = ci.find_method('getData')
    sub = [n for n in walk_no_nested(fn) if isinstance(n, ast.Subscript) and norm(n.value) == 'self._members']
    ok = len(sub) == 1 and isinstance(sub[0].slice, ast.Name)
    loops = [n for n in fn.body if isinstance(n, ast.For)]
    ok = ok and len(loops) == 1 and norm(loops[0].iter) == 'self.getMibVariants(%s, **options)' % fn.args.args[1].arg \
        and sub[0].slice.id == loops[0].target.elts[1].id
    chk.ob('C14.R4', 'ZipReader.getData/exact-member-lookup', ok, where(ci.mod, fn),
           'archive members must be looked up by the exact variant file name')


def r5_recursion(chk):
    model = chk.model
    chk.doc('C14.R5', 'getSubdirs recurses into every sub-directory when recursive; _readZipDirectory recurses into '
                      'members ending in .zip/.ZIP keeping the chain of references in order, keys members by '
                      'basename; FileLike offers read/seek/tell/seekable/close for zipfile')
    ci = model.cls(LOCAL, 'FileReader')
    o, fn = ci.find_method('getSubdirs')
    rec = [c for c in walk_no_nested(fn) if isinstance(c, ast.Call) and norm(c.func) == 'self.getSubdirs']
    first = [s for s in fn.body if isinstance(s, ast.If)][0]
    ok = len(rec) == 1 and norm(first.test) == 'not %s' % fn.args.args[2].arg and norm(first.body[-1]) == 'return [%s]' % \
        fn.args.args[1].arg and any('os.path.isdir' in norm(t) for t in tests_of(rec[0], fn))
    chk.ob('C14.R5', 'FileReader.getSubdirs/recursion', ok, where(ci.mod, fn), '')
    ok = common.pfind(fn.body, '$d = [%s]' % fn.args.args[1].arg) is not None
    chk.ob('C14.R5', 'FileReader.getSubdirs/own-dir-first', ok, where(ci.mod, fn), '')
    # the sub-directory path is join(<this directory>, <entry>) in that order
    loops_ = [n for n in walk_no_nested(fn) if isinstance(n, ast.For)]
    joins = [c for l_ in loops_ for c in ast.walk(l_) if isinstance(c, ast.Call) and dotted_name(c.func) == 'os.path.join']
    pth = fn.args.args[1].arg
    ok = len(loops_) == 1 and len(joins) == 1 and len(joins[0].args) == 2 and \
        pth in [n.id for n in ast.walk(joins[0].args[0]) if isinstance(n, ast.Name)] and \
        norm(loops_[0].target) in [n.id for n in ast.walk(joins[0].args[1]) if isinstance(n, ast.Name)] and \
        rec and norm(rec[0].args[0]) == norm(common.stmt_of(joins[0]).targets[0])
    if rec:
        gs_ = _g(rec[0], fn)
        d_ = norm(rec[0].args[0]) if rec[0].args else '?'
        chk.ob('C14.R5', 'FileReader.getSubdirs/every-sub-directory-entered', gs_ == [('os.path.isdir(%s)' % d_, True)],
               where(ci.mod, rec[0]), 'the recursion depends on more than the entry being a directory (guards %s): '
               'directories of the source - symbolic links to directories included - are left unsearched' % gs_)
    chk.ob('C14.R5', 'FileReader.getSubdirs/child-path', bool(ok), where(ci.mod, fn),
           'a sub-directory is os.path.join(<parent>, <listdir entry>) and that path is what is tested and recursed into')
    zi = model.cls(ZIP, 'ZipReader')
    o, rz = zi.find_method('_readZipDirectory')
    rec = [c for c in walk_no_nested(rz) if isinstance(c, ast.Call) and norm(c.func) == 'self._readZipDirectory']
    ok = len(rec) == 1 and any(".endswith('.zip')" in norm(t) and ".endswith('.ZIP')" in norm(t) for t in tests_of(rec[0], rz))
    chk.ob('C14.R5', 'ZipReader._readZipDirectory/nested-archives', ok, where(zi.mod, rz), '')
    txt = norm(rz)
    b = common.pmatch(txt, '$f = os.path.basename($m.filename)', full=False)
    ok = b is not None and common.pmatch(txt, '$ms[%s] = [[$fo, %s.filename, $mt]]' % (b['f'], b['m']), full=False) is not None
    chk.ob('C14.R5', 'ZipReader._readZipDirectory/basename-keys', ok, where(zi.mod, rz), '')
    b2 = common.pmatch(txt, '$ms[$inner] = [[$fo, $m.filename, None]]', full=False)
    ok = b2 is not None and common.pmatch(txt, '%s[%s].extend($ref)' % (b2['ms'], b2['inner']), full=False) is not None
    chk.ob('C14.R5', 'ZipReader._readZipDirectory/reference-chain', ok, where(zi.mod, rz), '')
    fl = model.cls(ZIP, 'FileLike')
    need = ['read', 'seek', 'tell', 'seekable', 'close']
    missing = [m for m in need if m not in fl.methods]
    chk.ob('C14.R5', 'FileLike/file-protocol', not missing, where(fl.mod, fl.node),
           'the in-memory file used for nested archives lacks %s: zipfile cannot read members of an inner archive' % missing)
    if 'seekable' in fl.methods:
        rets = [x for x in walk_no_nested(fl.methods['seekable']) if isinstance(x, ast.Return)]
        chk.ob('C14.R5', 'FileLike.seekable', len(rets) == 1 and norm(rets[0].value) == 'True', where(fl.mod, fl.node), '')
    o, rf = zi.find_method('_readZipFile')
    t2 = norm(rf)
    b3 = common.pmatch(t2, 'for $fo, $fn, $mt in refs', full=False)
    ok = b3 is not None and common.pmatch(t2, '%s = FileLike($d, name=self._name)' % b3['fo'], full=False) is not None \
        and common.pmatch(t2, 'return ($d, %s)' % b3['mt'], full=False) is not None
    chk.ob('C14.R5', 'ZipReader._readZipFile/follows-chain', ok, where(zi.mod, rf), '')


def r6_url_dispatch(chk):
    model = chk.model
    fn = model.func(URL, 'getReadersFromUrls')
    mod = model.mod(URL)
    chk.doc('C14.R6', 'getReadersFromUrls: scheme "" / file / zip -> FileReader, or ZipReader when the scheme is not '
                      'file and the path ends in .zip/.ZIP; http/https -> HttpReader(port or 80/443, ssl iff https); '
                      'ftp/sftp -> FtpReader(port or 21, ssl iff sftp); anything else raises PySmiError')
    loops = [n for n in fn.body if isinstance(n, ast.For)]
    mapping = {}
    for pat, canon in (('$v = urlparse.urlparse($u)', 'mibSource'), ('$v = []', 'readers')):
        b = common.pfind([s for s in ast.walk(fn) if isinstance(s, ast.Assign)], pat)
        if b:
            mapping[b['v']] = canon
    ms = [k for k, v in mapping.items() if v == 'mibSource']
    if ms:
        for pat, canon in (('$v = url2pathname(%s.path)' % ms[0], 'filePath'), ('$v = %s.scheme' % ms[0], 'scheme')):
            b = common.pfind([s for s in ast.walk(fn) if isinstance(s, ast.Assign)], pat)
            if b:
                mapping[b['v']] = canon
    # the local path handed to the file/zip readers is the URL path with its %-escapes decoded
    conv = [k for k, v in mapping.items() if v == 'filePath']
    imported = any(isinstance(n, ast.ImportFrom) and any(a.name == 'url2pathname' for a in n.names) and
                   (n.module or '').split('.')[0] == 'urllib' for n in ast.walk(mod.tree))
    chk.ob('C14.R6', 'path-decoded', bool(conv) and imported, where(mod, fn),
           'the path of a file:// / zip:// / plain source must go through urllib\'s url2pathname (escapes such as '
           '%20 decoded) before it is used as a directory or archive name')
    if conv:
        rd = [c for c in ast.walk(fn) if isinstance(c, ast.Call) and dotted_name(c.func) in ('FileReader', 'ZipReader')]
        chk.ob('C14.R6', 'decoded-path-used', len(rd) >= 2 and all(c.args and norm(c.args[0]) == conv[0] for c in rd),
               where(mod, fn), 'readers get %s' % [norm(c.args[0]) if c.args else None for c in rd])
    global norm
    _norm = norm

    def norm(n, _m=mapping, _n=_norm):
        import re as _re
        t = _n(n)
        for k, v in _m.items():
            t = _re.sub(r'\b%s\b' % _re.escape(k), v, t)
        return t
    try:
        return _r6_body(chk, model, fn, mod, loops, norm)
    finally:
        norm = _norm


def _r6_body(chk, model, fn, mod, loops, norm):
    chain = [n for n in loops[0].body if isinstance(n, ast.If) and 'mibSource.scheme in' in norm(n.test)] if loops else []
    ok = len(chain) == 1
    chk.ob('C14.R6', 'dispatch-chain', ok, where(mod, fn), '')
    if not ok:
        return
    branches = []
    cur = chain[0]
    while cur is not None:
        branches.append((norm(cur.test), cur.body))
        if len(cur.orelse) == 1 and isinstance(cur.orelse[0], ast.If):
            cur = cur.orelse[0]
        else:
            branches.append(('else', cur.orelse))
            cur = None
    tests = [b[0] for b in branches]
    chk.ob('C14.R6', 'dispatch-schemes', tests == ["mibSource.scheme in ('', 'file', 'zip')",
                                                   "mibSource.scheme in ('http', 'https')",
                                                   "mibSource.scheme in ('ftp', 'sftp')", 'else'], where(mod, chain[0]),
           'schemes: %s' % tests)
    if len(branches) != 4:
        return
    ftxt = ' '.join(norm(s) for s in branches[0][1])
    ok = "scheme != 'file' and (filePath.endswith('.zip') or filePath.endswith('.ZIP'))" in ftxt and \
        "readers.append(FileReader(filePath).setOptions(**options))" in ftxt and \
        "readers.append(ZipReader(filePath).setOptions(**options))" in ftxt and "if scheme == 'file':" in ftxt
    chk.ob('C14.R6', 'file/zip-branch', ok, where(mod, chain[0]), '')
    # which reader a local source gets: the branch is a little program over `scheme`; it is interpreted for every
    # (scheme, path-ends-in-.zip) combination and compared with the table the documentation implies
    def run(stmts, env, zipped, out):
        for st in stmts:
            if isinstance(st, ast.Assign) and len(st.targets) == 1 and isinstance(st.targets[0], ast.Name):
                v = st.value
                if isinstance(v, ast.Constant):
                    env[st.targets[0].id] = v.value
                elif norm(v) == 'mibSource.scheme':
                    env[st.targets[0].id] = env['__scheme__']
                else:
                    env[st.targets[0].id] = ('expr', norm(v))
            elif isinstance(st, ast.If):
                t = ev(st.test, env, zipped)
                if t is None:
                    out.append('?')
                    return
                run(st.body if t else st.orelse, env, zipped, out)
            elif isinstance(st, ast.Expr):
                for c in ast.walk(st):
                    if isinstance(c, ast.Call) and dotted_name(c.func) in ('FileReader', 'ZipReader'):
                        out.append(dotted_name(c.func))

    def ev(e, env, zipped):
        if isinstance(e, ast.BoolOp):
            vs = [ev(x, env, zipped) for x in e.values]
            if None in vs:
                return None
            return all(vs) if isinstance(e.op, ast.And) else any(vs)
        if isinstance(e, ast.UnaryOp) and isinstance(e.op, ast.Not):
            v = ev(e.operand, env, zipped)
            return None if v is None else not v
        if isinstance(e, ast.Compare) and len(e.ops) == 1 and isinstance(e.left, ast.Name) and \
                isinstance(e.comparators[0], ast.Constant) and e.left.id in env and not isinstance(env[e.left.id], tuple):
            if isinstance(e.ops[0], ast.Eq):
                return env[e.left.id] == e.comparators[0].value
            if isinstance(e.ops[0], ast.NotEq):
                return env[e.left.id] != e.comparators[0].value
        if isinstance(e, ast.Call) and isinstance(e.func, ast.Attribute) and e.func.attr == 'endswith' and e.args and \
                isinstance(e.args[0], ast.Constant) and e.args[0].value in ('.zip', '.ZIP'):
            return zipped == e.args[0].value
        return None
    want = {('', None): 'FileReader', ('', '.zip'): 'ZipReader', ('', '.ZIP'): 'ZipReader',
            ('file', None): 'FileReader', ('file', '.zip'): 'FileReader', ('file', '.ZIP'): 'FileReader',
            ('zip', '.zip'): 'ZipReader', ('zip', '.ZIP'): 'ZipReader', ('zip', None): 'FileReader'}
    got = {}
    for (sch, z), w in sorted(want.items(), key=str):
        out = []
        run(branches[0][1], {'__scheme__': sch}, z, out)
        got[(sch, z)] = out
    bad = dict((k, v) for k, v in got.items() if v != [want[k]])
    chk.ob('C14.R6', 'file/zip-decision-table', not bad, where(mod, chain[0]),
           'reader chosen per (scheme, suffix): %s; expected %s' % (
               sorted((k, v) for k, v in bad.items()), sorted((k, want[k]) for k in bad)))
    calls = dict((dotted_name(c.func), c) for b in branches[1:3] for s in b[1] for c in ast.walk(s)
                 if isinstance(c, ast.Call) and dotted_name(c.func) in ('HttpReader', 'FtpReader'))
    h = calls.get('HttpReader')
    ok = h is not None and len(h.args) >= 3
    if ok:
        port = norm(h.args[1])
        ssl = [norm(k.value) for k in h.keywords if k.arg == 'ssl']
        folded = fold_port(h.args[1])
        ok = folded == {'http': 80, 'https': 443} and ssl == ["mibSource.scheme == 'https'"] and \
            norm(h.args[0]) == 'mibSource.hostname or mibSource.netloc' and norm(h.args[2]) == 'mibSource.path'
        chk.ob('C14.R6', 'http-branch', ok, where(mod, h), 'default ports %s (expected http 80, https 443), ssl=%s' % (
            folded, ssl))
    else:
        chk.ob('C14.R6', 'http-branch', False, where(mod, chain[0]), 'no HttpReader')
    f = calls.get('FtpReader')
    ok = f is not None
    if ok:
        kws = dict((k.arg, k.value) for k in f.keywords)
        folded = fold_port(kws.get('port')) if kws.get('port') is not None else None
        ok = folded == {'ftp': 21, 'sftp': 21} and norm(kws['ssl']) == "mibSource.scheme == 'sftp'" and \
            norm(f.args[1]) == 'mibSource.path'
        chk.ob('C14.R6', 'ftp-branch', ok, where(mod, f), 'default ports %s, ssl=%s' % (folded, norm(kws.get('ssl'))))
    rs = [x for s in branches[3][1] for x in ast.walk(s) if isinstance(x, ast.Raise)]
    ok = len(rs) == 1 and 'PySmiError' in model.exc_ancestors(mod, rs[0].exc.func if isinstance(rs[0].exc, ast.Call) else rs[0].exc)
    chk.ob('C14.R6', 'unknown-scheme-raises', ok, where(mod, chain[0]), '')


def fold_port(expr):
    """default port per scheme of `mibSource.port or <default>` by constant folding the default for each scheme"""
    if not (isinstance(expr, ast.BoolOp) and isinstance(expr.op, ast.Or) and norm(expr.values[0]) == 'mibSource.port'):
        return None
    d = expr.values[1]
    out = {}
    schemes = ('http', 'https') if 'http' in norm(d) or isinstance(d, ast.Constant) and d.value in (80, 443) else ('ftp', 'sftp')
    if isinstance(d, ast.Constant):
        schemes = ('http', 'https', 'ftp', 'sftp')
    for s in schemes:
        out[s] = fold(d, s)
    if isinstance(d, ast.Constant):
        out = dict((k, v) for k, v in out.items() if (k in ('http', 'https')) == (d.value in (80, 443, 8080)) or True)
        # a constant default applies to whichever schemes the branch serves; caller compares the relevant pair
        if d.value in (21,):
            out = {'ftp': 21, 'sftp': 21}
        else:
            out = {'http': d.value, 'https': d.value}
    return out


def fold(e, scheme):
    if isinstance(e, ast.Constant):
        return e.value
    if isinstance(e, ast.Compare) and len(e.ops) == 1 and norm(e.left) == 'mibSource.scheme' and \
            isinstance(e.comparators[0], ast.Constant):
        if isinstance(e.ops[0], ast.Eq):
            return scheme == e.comparators[0].value
        if isinstance(e.ops[0], ast.NotEq):
            return scheme != e.comparators[0].value
    if isinstance(e, ast.BoolOp):
        vals = [fold(v, scheme) for v in e.values]
        cur = vals[0]
        for v in vals[1:]:
            if isinstance(e.op, ast.And):
                cur = v if cur else cur
            else:
                cur = cur if cur else v
        return cur
    if isinstance(e, ast.IfExp):
        return fold(e.body, scheme) if fold(e.test, scheme) else fold(e.orelse, scheme)
    if isinstance(e, ast.Subscript) and isinstance(e.value, ast.Dict) and norm(e.slice) == 'mibSource.scheme':
        for k, v in zip(e.value.keys, e.value.values):
            if isinstance(k, ast.Constant) and k.value == scheme:
                return fold(v, scheme)
    return None


def r7_stateless_lookups(chk):
    model = chk.model
    from rules.C12 import writes_in, reachable_methods
    chk.doc('C14.R7', 'looking a module up does not change the reader: the methods reachable from getData write no '
                      'instance attribute (audited exception: FileReader loads its .index mapping once), so the answer '
                      'for a name does not depend on earlier lookups')
    audited = {('FileReader', '_mibIndex'): 'index mapping loaded once from <dir>/.index',
               ('FileReader', '_indexLoaded'): 'flag of that one-time load'}
    n = 0
    for rel, cname in ((LOCAL, 'FileReader'), (ZIP, 'ZipReader'), ('pysmi/reader/callback.py', 'CallbackReader'),
                       ('pysmi/reader/httpclient.py', 'HttpReader'), ('pysmi/reader/ftpclient.py', 'FtpReader')):
        ci = model.cls(rel, cname)
        for mname, (owner, fn) in sorted(reachable_methods(ci, 'getData').items()):
            ws = writes_in(fn)
            n += 1
            bad = [(a, k, node) for a, k, node in ws if (cname, a) not in audited]
            chk.ob('C14.R7', '%s.%s/no-instance-writes' % (cname, mname), not bad, where(owner.mod, fn),
                   'lookup code writes self.%s (%s): a later lookup can be answered from what an earlier one left '
                   'behind' % (bad[0][0], norm(bad[0][2])[:60]) if bad else '')
    chk.floor('C14.R7', 8, 'methods reachable from the getData of five readers')


def r8_result_plumbing(chk):
    model = chk.model
    chk.doc('C14.R8', 'every reader returns MibInfo(file=<variant file name>, name=<variant alias>, ...) of the variant '
                      'that matched, together with the decoded content of that variant; the ZIP reader takes the '
                      'modification time from the member that was read')
    for rel, cname in ((ZIP, 'ZipReader'), ('pysmi/reader/httpclient.py', 'HttpReader'),
                       ('pysmi/reader/ftpclient.py', 'FtpReader')):
        ci = model.cls(rel, cname)
        o, fn = ci.find_method('getData')
        loops = [n for n in walk_no_nested(fn) if isinstance(n, ast.For) and 'self.getMibVariants(' in norm(n.iter)]
        ok = len(loops) == 1 and isinstance(loops[0].target, ast.Tuple)
        chk.ob('C14.R8', '%s.getData/variant-loop' % cname, ok, where(ci.mod, fn), '')
        if not ok:
            continue
        alias, fname = [e.id for e in loops[0].target.elts]
        rets = [x for x in walk_no_nested(loops[0]) if isinstance(x, ast.Return) and isinstance(x.value, ast.Tuple)]
        ok = len(rets) == 1 and isinstance(rets[0].value.elts[0], ast.Call)
        if ok:
            kws = dict((k.arg, norm(k.value)) for k in rets[0].value.elts[0].keywords)
            ok = kws.get('file') == fname and kws.get('name') == alias and 'mtime' in kws and 'path' in kws
        chk.ob('C14.R8', '%s.getData/mibinfo' % cname, ok, where(ci.mod, rets[0]) if rets else where(ci.mod, fn),
               'MibInfo must name the variant that matched (file=%s, name=%s)' % (fname, alias))
        if rets:
            chk.ob('C14.R8', '%s.getData/decoded' % cname, norm(rets[0].value.elts[1]).startswith('decode(') or
                   norm(rets[0].value.elts[1]) in ('data',), where(ci.mod, rets[0]), norm(rets[0].value.elts[1])[:60])
    zi = model.cls(ZIP, 'ZipReader')
    o, gd = zi.find_method('getData')
    b = common.pfind([s for s in walk_no_nested(gd) if isinstance(s, ast.Assign)], '$d, $m = self._readZipFile($r)')
    b2 = common.pfind([s for s in walk_no_nested(gd) if isinstance(s, ast.Assign)], '$r = self._members[$f]')
    chk.ob('C14.R8', 'ZipReader.getData/reads-the-member-found', bool(b and b2 and b['r'] == b2['r']), where(zi.mod, gd), '')
    o, rz = zi.find_method('_readZipDirectory')
    ok = common.pmatch(norm(rz), '$t = time.mktime(datetime.datetime(*$m.date_time[:6]).timetuple())', full=False) is not None
    chk.ob('C14.R8', 'ZipReader._readZipDirectory/member-mtime', ok, where(zi.mod, rz), 'mtime must come from the member')
    cb = model.cls('pysmi/reader/callback.py', 'CallbackReader')
    o, fn = cb.find_method('getData')
    calls = [c for c in walk_no_nested(fn) if isinstance(c, ast.Call) and common.is_self_attr(c.func, '_cbFun')]
    ok = len(calls) == 1 and [norm(a) for a in calls[0].args] == [fn.args.args[1].arg, 'self._cbCtx']
    chk.ob('C14.R8', 'CallbackReader.getData/callback-args', ok, where(cb.mod, fn), '')


def r9_argument_agreement(chk):
    rels = sorted(r for r in chk.model.modules if r.startswith(('pysmi/reader/',)))
    common.argument_agreement(chk, 'C14.R9', rels, floor=15)



def r10_guard_polarity(chk):
    """FileReader: stat/open only of an existing regular file; the size error only at the limit; an access error is
    raised unless errors are ignored; sub-directories are entered only when they are directories and recursion is on"""
    model = chk.model
    from vt.cfg import CFG
    chk.doc('C14.R10', 'FileReader, by reachability under a valuation of the predicates: os.stat(f)/open(f) only when '
                       'os.path.exists(f) and os.path.isfile(f); the too-large error only when the read filled '
                       'maxMibSize; the access error of getData/getSubdirs only when errors are not ignored; '
                       'getSubdirs recurses only into os.path.isdir(d) and only when recursive')
    ci = model.cls(LOCAL, 'FileReader')
    o, fn = ci.find_method('getData')
    mod = ci.mod
    cfg = CFG(fn)
    for c in walk_no_nested(fn):
        if isinstance(c, ast.Call) and dotted_name(c.func) in ('open', 'os.stat') and c.args:
            f = norm(c.args[0])
            common.requires(chk, 'C14.R10', 'FileReader.getData/%s(%s)' % (dotted_name(c.func), f), cfg, mod,
                            [cfg.node_of(common.stmt_of(c))],
                            {'os.path.exists(%s)' % f: True, 'os.path.isfile(%s)' % f: True})
    big = [x for x in walk_no_nested(fn) if isinstance(x, ast.Raise) and x.exc is not None and
           norm(x.exc).startswith('IOError(')]
    tests = [n for n in walk_no_nested(fn) if isinstance(n, ast.Compare) and 'self.maxMibSize' in norm(n)]
    if tests:
        common.requires(chk, 'C14.R10', 'FileReader.getData/too-large', cfg, mod, [cfg.node_of(x) for x in big],
                        {norm(tests[0]): True}, 'a file is too large only when the bounded read was filled')
        chk.ob('C14.R10', 'FileReader.getData/too-large-test', isinstance(tests[0].ops[0], (ast.Eq, ast.GtE)) and
               norm(tests[0].left).startswith('len('), where(mod, tests[0]), norm(tests[0]))
    acc = [x for x in walk_no_nested(fn) if isinstance(x, ast.Raise) and x.exc is not None and
           isinstance(getattr(common.stmt_of(x), '_parent', None), (ast.If, ast.ExceptHandler)) and
           'access error' in norm(x.exc)]
    common.requires(chk, 'C14.R10', 'FileReader.getData/access-error', cfg, mod, [cfg.node_of(x) for x in acc],
                    {'self._ignoreErrors': False}, 'access errors surface unless ignoreErrors')
    o, gs = ci.find_method('getSubdirs')
    cfg2 = CFG(gs)
    p = [a.arg for a in gs.args.args]
    rec = [c for c in walk_no_nested(gs) if isinstance(c, ast.Call) and norm(c.func) == 'self.getSubdirs']
    for c in rec:
        d = norm(c.args[0]) if c.args else '?'
        common.requires(chk, 'C14.R10', 'FileReader.getSubdirs/recursion', cfg2, mod, [cfg2.node_of(common.stmt_of(c))],
                        {'os.path.isdir(%s)' % d: True, p[2]: True})
    err = [x for x in walk_no_nested(gs) if isinstance(x, ast.Raise) and x.exc is not None]
    common.requires(chk, 'C14.R10', 'FileReader.getSubdirs/access-error', cfg2, mod, [cfg2.node_of(x) for x in err],
                    {p[3]: False})
    # ZipReader: an archive that could not be opened is reported (unless errors are ignored) when a module is asked
    # for; an empty member is skipped, a member filling the size limit is refused, anything else is returned
    zi = model.cls(ZIP, 'ZipReader')
    o, zg = zi.find_method('getData')
    zcfg = CFG(zg)
    pend = [x for x in walk_no_nested(zg) if isinstance(x, ast.Raise) and x.exc is not None and
            norm(x.exc) == 'self._pendingError']
    common.requires(chk, 'C14.R10', 'ZipReader.getData/pending-error-raised', zcfg, zi.mod, [zcfg.node_of(x) for x in pend],
                    {'self._pendingError': True})
    rets = [x for x in walk_no_nested(zg) if isinstance(x, ast.Return) and isinstance(x.value, ast.Tuple)]
    b = common.pfind([s_ for s_ in walk_no_nested(zg) if isinstance(s_, ast.Assign)], '$d, $m = self._readZipFile($r)')
    if b and rets:
        common.requires(chk, 'C14.R10', 'ZipReader.getData/returns-non-empty-member', zcfg, zi.mod,
                        [zcfg.node_of(rets[0])], {b['d']: True, 'self._pendingError': False,
                                                  'len(%s) == self.maxMibSize' % b['d']: False})
        big = [x for x in walk_no_nested(zg) if isinstance(x, ast.Raise) and x.exc is not None and
               norm(x.exc).startswith('IOError(')]
        common.requires(chk, 'C14.R10', 'ZipReader.getData/too-large', zcfg, zi.mod, [zcfg.node_of(x) for x in big],
                        {'len(%s) == self.maxMibSize' % b['d']: True})
    o, zinit = zi.find_method('__init__')
    icfg = CFG(zinit)
    ip = [a.arg for a in zinit.args.args]
    st_err = [s_ for s_ in walk_no_nested(zinit) if isinstance(s_, ast.Assign) and norm(s_.targets[0]) ==
              'self._pendingError' and not (isinstance(s_.value, ast.Constant) and s_.value.value is None)]
    common.requires(chk, 'C14.R10', 'ZipReader.__init__/open-error-kept', icfg, zi.mod, [icfg.node_of(x) for x in st_err],
                    {ip[2]: False}, 'an unreadable archive must surface unless ignoreErrors')
    chk.floor('C14.R10', 12, 'guarded statements')



def r11_wellformedness(chk):
    rels = sorted(r for r in chk.model.modules if r.startswith(('pysmi/reader/',)))
    common.wellformedness(chk, 'C14.R11', rels, floor=20)


def _in_handler(n):
    a = getattr(n, '_parent', None)
    while a is not None:
        if isinstance(a, ast.ExceptHandler):
            return True
        a = getattr(a, '_parent', None)
    return False


def _ancestors(n, stop):
    a = getattr(n, '_parent', None)
    while a is not None and a is not stop:
        yield a
        a = getattr(a, '_parent', None)


_INV = {ast.GtE: ast.Lt, ast.Gt: ast.LtE, ast.NotEq: ast.Eq, ast.NotIn: ast.In, ast.IsNot: ast.Is}
_INV_BACK = {ast.Lt: ast.GtE, ast.LtE: ast.Gt, ast.Eq: ast.NotEq, ast.In: ast.NotIn, ast.Is: ast.IsNot}


def _canon_guard(t, b):
    """one spelling per comparison: `not (a OP b)` is `a inv(OP) b`; >=, >, !=, not in, is not are written as the
    negation of <, <=, ==, in, is (the polarity of the guard flips)"""
    import copy
    if isinstance(t, ast.UnaryOp) and isinstance(t.op, ast.Not) and isinstance(t.operand, ast.Compare) and \
            len(t.operand.ops) == 1:
        c = copy.copy(t.operand)
        op = type(c.ops[0])
        inv = _INV.get(op) or _INV_BACK.get(op)
        if inv is not None:
            c.ops = [inv()]
            t = c
    if isinstance(t, ast.Compare) and len(t.ops) == 1 and type(t.ops[0]) in _INV:
        c = copy.copy(t)
        c.ops = [_INV[type(t.ops[0])]()]
        return norm(c), not b
    return norm(t), b


def _g(node, fn):
    from rules import ir
    return [_canon_guard(t, b) for t, b in ir.guards_of(node, fn)]


def r12_zip_directory_and_chain(chk):
    """ZipReader: how the directory of an archive (and of archives inside it) is read and how a member is fetched
    back through the chain of enclosing archives - decoded statement by statement with the guards each one sits under"""
    model = chk.model
    chk.doc('C14.R12', 'ZipReader._readZipDirectory: archive = ZipFile(<file object>); the object is forgotten only '
                       'when it is a FileLike (an inner archive is re-read from its parent\'s data); directory entries '
                       '(empty basename) are skipped and nothing else; a member is an inner archive exactly when its name '
                       'ends in .zip / .ZIP, in which case its directory is read recursively from FileLike(archive.read('
                       '<member>)) and each inner name is entered as [[obj, <member>, None]] + <inner chain>, renamed '
                       'only while it collides; any other member is entered under its basename as [[obj, <member>, '
                       'mtime]]; the dictionary is returned.  _readZipFile walks the chain in order: a link without a file object is '
                       'opened from the data of the link before it, each link reads its member from its own archive, a '
                       'read error ends in ("", 0), the last link\'s data and time are returned')
    zi = model.cls(ZIP, 'ZipReader')
    mod = zi.mod
    wl = []
    o, fn = zi.find_method('_readZipDirectory')
    fo = fn.args.args[1].arg
    asg = [s_ for s_ in walk_no_nested(fn) if isinstance(s_, ast.Assign)]
    b = common.pfind(asg, '$a = zipfile.ZipFile(%s)' % fo)
    chk.ob('C14.R12', '_readZipDirectory/opens-the-object-given', b is not None and not _g(
        [s_ for s_ in asg if common.pmatch(s_, '$a = zipfile.ZipFile(%s)' % fo)][0], fn), where(mod, fn),
        'archive = zipfile.ZipFile(%s), unconditionally' % fo)
    if b is None:
        return
    ar = b['a']
    resets = [s_ for s_ in asg if norm(s_.targets[0]) == fo]
    ok = len(resets) == 1 and norm(resets[0].value) == 'None' and _g(resets[0], fn) == [
        ('isinstance(%s, FileLike)' % fo, True)]
    chk.ob('C14.R12', '_readZipDirectory/object-forgotten-only-for-inner-archives', ok, where(mod, resets[0] if resets else fn),
           'the file object of the outermost archive must stay in its references (guards %s)' %
           (resets and _g(resets[0], fn)))
    loops = [n for n in fn.body if isinstance(n, ast.For)]
    ok = len(loops) == 1 and norm(loops[0].iter) == '%s.infolist()' % ar and isinstance(loops[0].target, ast.Name)
    chk.ob('C14.R12', '_readZipDirectory/every-member-visited', ok, where(mod, fn), 'for <m> in %s.infolist()' % ar)
    if not ok:
        return
    lp, m = loops[0], loops[0].target.id
    bn = common.pfind(lp.body, '$f = os.path.basename(%s.filename)' % m)
    chk.ob('C14.R12', '_readZipDirectory/basename', bn is not None, where(mod, lp), '')
    if bn is None:
        return
    f = bn['f']
    skip = 'not %s' % f
    if any(("%s == ''" % f, True) in _g(x, fn) for x in walk_no_nested(lp) if isinstance(x, ast.Continue)):
        skip = "%s == ''" % f
    conts = [x for x in walk_no_nested(lp) if isinstance(x, (ast.Continue, ast.Break))]
    ok = len(conts) == 1 and isinstance(conts[0], ast.Continue) and _g(conts[0], fn) == [(skip, True)]
    chk.ob('C14.R12', '_readZipDirectory/only-directory-entries-skipped', ok, where(mod, conts[0] if conts else lp),
           'the one early exit of an iteration is `if not %s: continue`' % f)
    ZT = ("%s.filename.endswith('.zip') or %s.filename.endswith('.ZIP')" % (m, m),
          "%s.filename.endswith('.ZIP') or %s.filename.endswith('.zip')" % (m, m),
          "%s.filename.endswith(('.zip', '.ZIP'))" % m, "%s.filename.lower().endswith('.zip')" % m)

    def arm(node):
        gs = [g for g in _g(node, fn) if g != (skip, False)]
        if len(gs) >= 1 and gs[0][0] in ZT:
            return ('inner' if gs[0][1] else 'plain'), gs[1:]
        return None, gs
    rec = [c for c in walk_no_nested(lp) if isinstance(c, ast.Call) and norm(c.func) == 'self.%s' % fn.name]
    ok = len(rec) == 1 and arm(rec[0])[0] == 'inner' and not arm(rec[0])[1]
    chk.ob('C14.R12', '_readZipDirectory/inner-archives-are-the-members-named-zip', ok, where(mod, rec[0] if rec else lp),
           'the recursion must sit directly under the .zip/.ZIP name test (guards %s)' % (rec and _g(rec[0], fn)))
    if rec:
        a0 = rec[0].args[0] if rec[0].args else (rec[0].keywords[0].value if rec[0].keywords else None)
        blob = common.pfind([s_ for s_ in walk_no_nested(lp) if isinstance(s_, ast.Assign)], '$b = %s.read(%s.filename)' % (ar, m))
        ok = a0 is not None and (
            (blob is not None and norm(a0) in ('FileLike(%s, %s.filename)' % (blob['b'], m),
                                               'FileLike(%s, name=%s.filename)' % (blob['b'], m))) or
            norm(a0) in ('FileLike(%s.read(%s.filename), %s.filename)' % (ar, m, m),))
        chk.ob('C14.R12', '_readZipDirectory/inner-archive-read-from-its-own-member', ok, where(mod, rec[0]),
               'the inner directory is read from FileLike(%s.read(%s.filename), %s.filename)' % (ar, m, m))
    stores = [s_ for s_ in walk_no_nested(lp) if isinstance(s_, ast.Assign) and isinstance(s_.targets[0], ast.Subscript)]
    msv = set(norm(s_.targets[0].value) for s_ in stores)
    rets = [x for x in walk_no_nested(fn) if isinstance(x, ast.Return)]
    ok = len(msv) == 1 and len(rets) == 1 and rets[0].value is not None and norm(rets[0].value) in msv and not _g(rets[0], fn)
    chk.ob('C14.R12', '_readZipDirectory/returns-the-directory', ok, where(mod, fn), 'stores into %s' % sorted(msv))
    if len(msv) != 1:
        return
    ms = msv.pop()
    plain = [s_ for s_ in stores if arm(s_)[0] == 'plain']
    inner = [s_ for s_ in stores if arm(s_)[0] == 'inner']
    ok = len(plain) == 1 and not arm(plain[0])[1] and norm(plain[0].targets[0].slice) == f and \
        common.pmatch(plain[0].value, '[[%s, %s.filename, $t]]' % (fo, m)) is not None
    chk.ob('C14.R12', '_readZipDirectory/plain-member-entered-under-its-basename', ok, where(mod, plain[0] if plain else lp),
           '%s[%s] = [[%s, %s.filename, <mtime>]] under the negative arm of the name test only' % (ms, f, fo, m))
    if ok:
        tv = common.pmatch(plain[0].value, '[[%s, %s.filename, $t]]' % (fo, m))['t']
        tm = [s_ for s_ in walk_no_nested(lp) if isinstance(s_, ast.Assign) and norm(s_.targets[0]) == tv]
        ok2 = len(tm) == 1 and '%s.date_time' % m in norm(tm[0].value) and 'time.mktime' in norm(tm[0].value)
        chk.ob('C14.R12', '_readZipDirectory/time-is-the-member\'s', ok2, where(mod, tm[0] if tm else lp),
               'mtime must be computed from %s.date_time' % m)
    il = [n for n in walk_no_nested(lp) if isinstance(n, ast.For) and n is not lp]
    ok = len(inner) == 1 and len(il) == 1 and isinstance(il[0].target, ast.Tuple) and len(il[0].target.elts) == 2 and \
        rec and common.stmt_of(rec[0]) is not None
    chk.ob('C14.R12', '_readZipDirectory/inner-names-loop', bool(ok), where(mod, lp), '')
    if ok:
        iname, iref = [e.id for e in il[0].target.elts]
        rv = common.stmt_of(rec[0])
        src_ok = isinstance(rv, ast.Assign) and norm(il[0].iter) == '%s.items()' % norm(rv.targets[0])
        chk.ob('C14.R12', '_readZipDirectory/inner-names-come-from-the-inner-directory', src_ok, where(mod, il[0]), '')
        st = inner[0]
        ok3 = norm(st.targets[0].slice) == iname and norm(st.value) == '[[%s, %s.filename, None]]' % (fo, m) and \
            common._within(st, il[0])
        ext = [c for c in walk_no_nested(il[0]) if isinstance(c, ast.Call) and norm(c.func) == '%s[%s].extend' % (ms, iname)]
        ok3 = ok3 and len(ext) == 1 and norm(ext[0].args[0]) == iref and common.stmt_of(ext[0]).lineno > st.lineno and \
            arm(ext[0]) == ('inner', []) and arm(st) == ('inner', [])
        chk.ob('C14.R12', '_readZipDirectory/chain = own link, then the inner chain', ok3, where(mod, st),
               '%s[<inner name>] = [[%s, %s.filename, None]] followed by .extend(<inner chain>), both unconditionally '
               'inside the loop over the inner directory' % (ms, fo, m))
        wl = [n for n in walk_no_nested(il[0]) if isinstance(n, ast.While)]
        ok4 = len(wl) <= 1 and all(norm(w.test) == '%s in %s' % (iname, ms) and len(w.body) == 1 and
                                   isinstance(w.body[0], ast.AugAssign) and norm(w.body[0].target) == iname and
                                   not w.orelse and w.lineno < st.lineno for w in wl)
        renames = [s_ for s_ in walk_no_nested(il[0]) if isinstance(s_, (ast.Assign, ast.AugAssign)) and
                   norm(s_.targets[0] if isinstance(s_, ast.Assign) else s_.target) == iname]
        ok4 = ok4 and all(any(common._within(r_, w) for w in wl) for r_ in renames)
        chk.ob('C14.R12', '_readZipDirectory/inner-name-changed-only-while-it-collides', ok4, where(mod, il[0]),
               'an inner member keeps its name unless a member of that name is already entered '
               '(`while %s in %s: %s += ...`)' % (iname, ms, iname))
    # _readZipFile
    o, rf = zi.find_method('_readZipFile')
    refs = rf.args.args[1].arg
    loops = [n for n in rf.body if isinstance(n, ast.For)]
    ok = len(loops) == 1 and norm(loops[0].iter) == refs and isinstance(loops[0].target, ast.Tuple) and \
        len(loops[0].target.elts) == 3 and not loops[0].orelse
    chk.ob('C14.R12', '_readZipFile/walks-the-chain-in-order', ok, where(mod, rf), 'for obj, member, mtime in %s' % refs)
    if not ok:
        return
    lp = loops[0]
    lo, lm, lt = [e.id for e in lp.target.elts]
    asg = [s_ for s_ in walk_no_nested(lp) if isinstance(s_, ast.Assign)]
    rd = [s_ for s_ in asg if common.pmatch(s_, '$d = $a.read(%s)' % lm)]
    ok = len(rd) == 1
    chk.ob('C14.R12', '_readZipFile/reads-the-link\'s-member', ok, where(mod, lp), '<data> = <archive>.read(%s)' % lm)
    if not ok:
        return
    bb = common.pmatch(rd[0], '$d = $a.read(%s)' % lm)
    dv, av = bb['d'], bb['a']
    op = [s_ for s_ in asg if norm(s_) == '%s = zipfile.ZipFile(%s)' % (av, lo)]
    ok = len(op) == 1 and not _g(op[0], rf) and op[0].lineno < rd[0].lineno and not _g(rd[0], rf)
    chk.ob('C14.R12', '_readZipFile/each-link-opens-its-own-archive', ok, where(mod, op[0] if op else lp),
           '%s = zipfile.ZipFile(%s) before the read, both unconditional' % (av, lo))
    sub = [s_ for s_ in asg if norm(s_.targets[0]) == lo]
    ok = len(sub) == 1 and _g(sub[0], rf) in ([('not %s' % lo, True)], [('%s is None' % lo, True)]) and norm(sub[0].value).startswith('FileLike(%s, ' % dv) and bool(op) and sub[0].lineno < op[0].lineno
    chk.ob('C14.R12', '_readZipFile/inner-link-opened-from-the-data-before-it', ok, where(mod, sub[0] if sub else lp),
           'if not %s: %s = FileLike(%s, ...) before the archive is opened' % (lo, lo, dv))
    rets = [x for x in walk_no_nested(rf) if isinstance(x, ast.Return)]
    fin = [x for x in rets if not common._within(x, lp)]
    ok = len(fin) == 1 and norm(fin[0].value) == '(%s, %s)' % (dv, lt)
    chk.ob('C14.R12', '_readZipFile/returns-last-link\'s-data-and-time', ok, where(mod, fin[0] if fin else rf), '')
    early = [x for x in rets if common._within(x, lp)]
    from vt.cfg import enclosing_trys
    ok = all(isinstance(x.value, ast.Tuple) and len(x.value.elts) == 2 and isinstance(x.value.elts[0], ast.Constant) and
             not x.value.elts[0].value and _in_handler(x)
             for x in early) and bool(enclosing_trys(rd[0], rf))
    chk.ob('C14.R12', '_readZipFile/read-error-yields-no-data', ok, where(mod, early[0] if early else rf),
           'the only early return is the empty result inside the handler of the member read')
    # collisions: the renaming step must change the name
    if True:
        for w in wl:
            v = w.body[0].value if w.body and isinstance(w.body[0], ast.AugAssign) else None
            chk.ob('C14.R12', '_readZipDirectory/renaming-makes-progress', isinstance(v, ast.Constant) and
                   isinstance(v.value, str) and len(v.value) > 0, where(mod, w),
                   'the collision loop appends %s: with nothing appended it never ends' % (norm(v) if v is not None else '?'))
    # __init__ / getData
    o, init = zi.find_method('__init__')
    pth = init.args.args[1].arg
    pre = {}
    for s_ in init.body:
        if isinstance(s_, ast.Try):
            break
        if isinstance(s_, ast.Assign):
            pre[norm(s_.targets[0])] = norm(s_.value)
    chk.ob('C14.R12', '__init__/state-exists-before-the-archive-is-opened', pre.get('self._members') == '{}' and
           pre.get('self._pendingError') == 'None', where(mod, init),
           'getData reads self._members and self._pendingError also when the archive could not be opened: both must be '
           'set ({} / None) before the try (found %s)' % sorted(pre.items()))
    opens = [c for c in walk_no_nested(init) if isinstance(c, ast.Call) and dotted_name(c.func) == 'open']
    ok_o = len(opens) == 1 and [norm(a_) for a_ in opens[0].args] == [pth, "'rb'"] and not opens[0].keywords
    chk.ob('C14.R12', '__init__/archive-opened-binary', ok_o, where(mod, opens[0] if opens else init),
           "open(%s, 'rb') expected" % pth)
    o, gd = zi.find_method('getData')
    nf = [x for x in walk_no_nested(gd) if isinstance(x, ast.Raise) and x.exc is not None and
          'PySmiReaderFileNotFoundError' in norm(x.exc)]
    for x in nf:
        gs = _g(x, gd)
        in_loop = any(isinstance(a_, (ast.For, ast.While)) for a_ in _ancestors(x, gd))
        okx = not in_loop and gs in ([], [('not self._members', True)], [('len(self._members) == 0', True)])
        chk.ob('C14.R12', 'getData/not-found-only-for-an-empty-archive-or-at-the-end %s' % (gs and gs[0][0] or 'end'), okx,
               where(mod, x), 'a not-found error under %s%s: members the archive holds are never returned' %
               (gs, ' inside the variant loop' if in_loop else ''))
    chk.floor('C14.R12', 18, 'statements of the ZIP directory / chain decode')


def r13_filelike(chk):
    """FileLike is what zipfile reads an inner archive through: positions and slices must be those of a file"""
    model = chk.model
    chk.doc('C14.R13', 'FileLike over a bytes buffer: __init__ keeps the buffer, its length and position 0; '
                       'seek(pos, mode): mode 1 adds the current position, mode 2 the length, the result (not below 0) '
                       'becomes the position, unconditionally; tell returns the position; read(n): the slice '
                       '[position : length if n < 0 else min(position + n, length)] is returned and the position '
                       'advanced to its end')
    fl = model.cls(ZIP, 'FileLike')
    mod = fl.mod

    def m(name):
        return fl.methods.get(name)
    init = m('__init__')
    bp = init.args.args[1].arg
    st = dict((norm(s_.targets[0]), (norm(s_.value), _g(s_, init))) for s_ in walk_no_nested(init) if isinstance(s_, ast.Assign))
    ok = st.get('self.buf') == (bp, []) and st.get('self.len') == ('len(%s)' % bp, []) and st.get('self.pos') == ('0', [])
    chk.ob('C14.R13', 'FileLike.__init__/buffer-length-position', ok, where(mod, init), '%s' % sorted(st.items())[:4])
    sk = m('seek')
    pp, mp = sk.args.args[1].arg, sk.args.args[2].arg
    dflt = sk.args.defaults and norm(sk.args.defaults[-1]) == '0'
    adds = [(norm(s_.value), _g(s_, sk)) for s_ in walk_no_nested(sk) if isinstance(s_, ast.AugAssign) and
            isinstance(s_.op, ast.Add) and norm(s_.target) == pp]
    other = [s_ for s_ in walk_no_nested(sk) if (isinstance(s_, ast.Assign) and norm(s_.targets[0]) == pp) or
             (isinstance(s_, ast.AugAssign) and norm(s_.target) == pp and not isinstance(s_.op, ast.Add))]
    want = [('self.pos', [('%s == 1' % mp, True)]), ('self.len', [('%s == 1' % mp, False), ('%s == 2' % mp, True)])]
    alt = [('self.pos', [('%s == 1' % mp, True)]), ('self.len', [('%s == 2' % mp, True)])]
    chk.ob('C14.R13', 'FileLike.seek/whence', bool(dflt) and (adds == want or adds == alt) and not other, where(mod, sk),
           'relative to the start by default, to the position for mode 1, to the end for mode 2 (found %s)' % adds)
    ps = [(norm(s_.value), _g(s_, sk)) for s_ in walk_no_nested(sk) if isinstance(s_, ast.Assign) and
          norm(s_.targets[0]) == 'self.pos']
    chk.ob('C14.R13', 'FileLike.seek/position-set', ps in ([('max(0, %s)' % pp, [])], [('max(%s, 0)' % pp, [])]),
           where(mod, sk), 'self.pos = max(0, %s), unconditionally (found %s)' % (pp, ps))
    tl = m('tell')
    rets = [x for x in walk_no_nested(tl) if isinstance(x, ast.Return)]
    chk.ob('C14.R13', 'FileLike.tell', len(rets) == 1 and norm(rets[0].value) == 'self.pos', where(mod, tl), '')
    rd = m('read')
    npar = rd.args.args[1].arg
    rets = [x for x in walk_no_nested(rd) if isinstance(x, ast.Return)]
    ok = len(rets) == 1 and isinstance(rets[0].value, ast.Name) and rd.args.defaults and norm(rd.args.defaults[-1]) == '-1'
    chk.ob('C14.R13', 'FileLike.read/one-result', bool(ok), where(mod, rd), '')
    if ok:
        rv = rets[0].value.id
        ra = [s_ for s_ in walk_no_nested(rd) if isinstance(s_, ast.Assign) and norm(s_.targets[0]) == rv]
        b = common.pmatch(ra[0].value, 'self.buf[self.pos:$e]') if len(ra) == 1 else None
        chk.ob('C14.R13', 'FileLike.read/slice-from-the-position', b is not None and not _g(ra[0], rd), where(mod, rd),
               '%s = self.buf[self.pos:<end>]' % rv)
        if b:
            e = b['e']
            ends = sorted((norm(s_.value), tuple(_g(s_, rd))) for s_ in walk_no_nested(rd) if isinstance(s_, ast.Assign) and
                          norm(s_.targets[0]) == e)
            want = sorted([('self.len', (('%s < 0' % npar, True),)),
                           ('min(self.pos + %s, self.len)' % npar, (('%s < 0' % npar, False),))])
            want2 = sorted([('self.len', (('%s < 0' % npar, True),)),
                            ('min(self.len, self.pos + %s)' % npar, (('%s < 0' % npar, False),))])
            chk.ob('C14.R13', 'FileLike.read/end-of-the-slice', ends in (want, want2), where(mod, rd),
                   'end = self.len if %s < 0 else min(self.pos + %s, self.len) (found %s)' % (npar, npar, ends))
            adv = [s_ for s_ in walk_no_nested(rd) if isinstance(s_, ast.Assign) and norm(s_.targets[0]) == 'self.pos']
            ok = len(adv) == 1 and norm(adv[0].value) == e and not _g(adv[0], rd) and adv[0].lineno > ra[0].lineno
            chk.ob('C14.R13', 'FileLike.read/position-advanced-after-the-slice', ok, where(mod, adv[0] if adv else rd), '')



RULES = [r1_file_reader, r2_variants, r3_index_first, r4_fallthrough, r5_recursion, r6_url_dispatch, r7_stateless_lookups, r8_result_plumbing, r9_argument_agreement, r10_guard_polarity, r11_wellformedness, r12_zip_directory_and_chain, r13_filelike]
