"""C20 - command-line tools report and leave on disk exactly what happened."""
import ast

from vt.cfg import CFG
from vt.model import walk_no_nested, norm, dotted_name, module_value
from vt.runner import where, AnalysisError
from rules import common
from rules import compile_roles as cr
from rules.C07 import _key_is

EXPLANATION = (
    "Typestate analysis of compile() (rule C20.T1): the statements of compile() are interpreted over an abstract "
    "state that tracks one arbitrary module through every local map, with every component call returning or raising "
    "any package error class, every option setting and every iteration order; invariants are evaluated at the "
    "component calls and at every return (see rules/compile_ts.py INV). "
    "Dataflow and plumbing rules on the two scripts: (mibdump) constant propagation of every sys.exit argument - the "
    "final exit code starts at 0 and is overwritten by a non-zero code when any status is 'missing' or 'failed', "
    "argument/option validation exits with EX_USAGE = 64, a PySmiError exits non-zero; the status words used by the "
    "report lines and exit tests are exactly the six MibStatus words, one report line each; every declared long "
    "option has a handler and every flag reaches the keyword of compile()/buildIndex() it stands for (dry-run to "
    "both); (mibcopy) the name and revision of a source come from the `compiled` status whose path is the file "
    "just read, the destination revision is looked up under the canonical module name, the copy is skipped iff the "
    "destination revision is >= the source revision, the remembered revision is updated, and the copy goes to "
    "<destination>/<canonical name>; the statuses the tools report are backed by the writer rules of C07/C09.")
ASSUMPTIONS = ["directory contents after a run, __pycache__ side effects and the index file under --no-mib-writes "
               "are filesystem state outside static reach",
               "the code generator forgets the previous module's revision (C12.R2), which mibcopy's shared "
               "generator relies on"]
TECHNIQUE = 'constant propagation of exit codes, option-table/handler agreement, keyword plumbing, AST rules on the ' \
            'newest-wins loop; typestate abstract interpretation of compile() (path-sensitive dataflow over a finite per-module domain, rules/compile_ts.py)'

MIBDUMP = 'scripts/mibdump.py'
MIBCOPY = 'scripts/mibcopy.py'
SIX = ['compiled', 'untouched', 'failed', 'unprocessed', 'missing', 'borrowed']


def consts(model, rel):
    out = {}
    for st in model.mod(rel).tree.body:
        if isinstance(st, ast.Assign) and isinstance(st.targets[0], ast.Name) and isinstance(st.value, ast.Constant) \
                and st.targets[0].id.startswith('EX_'):
            out[st.targets[0].id] = st.value.value
    return out


def r1_exit_codes(chk):
    model = chk.model
    mod = model.mod(MIBDUMP)
    chk.unit(MIBDUMP, MIBCOPY)
    chk.doc('C20.R1', 'mibdump: EX_OK = 0, EX_USAGE = 64; help/version exit 0; every other exit before the compiler '
                      'is built is EX_USAGE; a PySmiError exits non-zero; the final code is EX_OK overwritten by a '
                      'non-zero code iff some status == "missing" / "failed"')
    ex = consts(model, MIBDUMP)
    chk.ob('C20.R1', 'EX_OK', ex.get('EX_OK') == 0, MIBDUMP, 'EX_OK = %r' % ex.get('EX_OK'))
    chk.ob('C20.R1', 'EX_USAGE', ex.get('EX_USAGE') == 64, MIBDUMP, 'EX_USAGE = %r' % ex.get('EX_USAGE'))
    for k in ('EX_SOFTWARE', 'EX_MIB_MISSING', 'EX_MIB_FAILED'):
        chk.ob('C20.R1', k, isinstance(ex.get(k), int) and ex.get(k) != 0, MIBDUMP, '%s = %r' % (k, ex.get(k)))
    exits = [c for c in ast.walk(mod.tree) if isinstance(c, ast.Call) and dotted_name(c.func) == 'sys.exit']
    final = None
    for c in exits:
        a = c.args[0] if c.args else None
        conds = []
        p = getattr(c, '_parent', None)
        child = c
        while p is not None:
            if isinstance(p, ast.If):
                conds.append(norm(p.test))
            if isinstance(p, ast.ExceptHandler):
                conds.append('except ' + (norm(p.type) if p.type else ''))
            child, p = p, getattr(p, '_parent', None)
        ctx = ' / '.join(reversed(conds))[:80]
        if isinstance(a, ast.Name) and a.id in ex:
            if any('--help' in x or '--version' in x for x in conds):
                chk.ob('C20.R1', 'exit@%s' % ctx, a.id == 'EX_OK', where(mod, c), 'help/version exit with %s' % a.id)
            elif any(x.startswith('except error.PySmiError') for x in conds):
                chk.ob('C20.R1', 'exit@%s' % ctx, ex[a.id] != 0, where(mod, c), 'compiler error exits with %s' % a.id)
            else:
                chk.ob('C20.R1', 'exit@%s' % ctx, a.id == 'EX_USAGE', where(mod, c),
                       'a usage error must exit with EX_USAGE (64), found %s' % a.id)
        elif isinstance(a, ast.Name):
            final = (c, a.id)
        else:
            chk.ob('C20.R1', 'exit@%s' % ctx, False, where(mod, c), 'exit argument %s is not a sysexits constant' % (
                norm(a) if a is not None else None))
    for word in ('--help', '--version'):
        ifs = [n for n in ast.walk(mod.tree) if isinstance(n, ast.If) and any(
            isinstance(c_, ast.Constant) and c_.value == word for c_ in ast.walk(n.test))]
        ok_ = len(ifs) == 1 and isinstance(ifs[0].body[-1], ast.Expr) and isinstance(ifs[0].body[-1].value, ast.Call) and \
            dotted_name(ifs[0].body[-1].value.func) == 'sys.exit' and [norm(a) for a in ifs[0].body[-1].value.args] == ['EX_OK']
        chk.ob('C20.R1', 'exit-after%s' % word, ok_, MIBDUMP, '%s prints and exits with EX_OK as its last statement' % word)
    chk.ob('C20.R1', 'final-exit', final is not None, MIBDUMP, 'no sys.exit(<computed code>)')
    if final is None:
        return
    c, var = final
    blk = getattr(common.stmt_of(c), '_parent', None)
    stmts = [s for s in ast.walk(blk) if isinstance(s, ast.Assign) and _key_is(s.targets[0], var)]
    init = [s for s in stmts if norm(s.value) == 'EX_OK' and not isinstance(getattr(s, '_parent', None), ast.If)]
    chk.ob('C20.R1', 'exit-code/starts-ok', len(init) == 1, where(mod, c), '')
    seen = {}
    for s in stmts:
        p = getattr(s, '_parent', None)
        if isinstance(p, ast.If):
            t = norm(p.test)
            for w in ('missing', 'failed'):
                if t == "any((x for x in processed.values() if x == '%s'))" % w:
                    val = ex.get(norm(s.value))
                    seen[w] = val
    for w in ('missing', 'failed'):
        chk.ob('C20.R1', 'exit-code/%s-nonzero' % w, isinstance(seen.get(w), int) and seen.get(w) != 0, where(mod, c),
               'a %s module must make the exit status non-zero (found %r)' % (w, seen.get(w)))
    others = [s for s in stmts if s not in init and not (isinstance(getattr(s, '_parent', None), ast.If))]
    chk.ob('C20.R1', 'exit-code/no-unconditional-overwrite', not others, where(mod, c), '%s' % [norm(s) for s in others])
    # every conditional assignment is one of the two tests; none resets to EX_OK
    bad = [s for s in stmts if s not in init and norm(s.value) == 'EX_OK']
    chk.ob('C20.R1', 'exit-code/never-reset', not bad, where(mod, c), '')
    # an error that is reported is also an exit: in both scripts every except-handler that writes an ERROR line, and
    # every block that does, ends the run with sys.exit(<non-zero constant>) as its last statement
    mcfg = {}
    for rel in (MIBDUMP, MIBCOPY):
        m2 = model.mod(rel)
        exs = consts(model, rel)
        nerr = 0
        for st in ast.walk(m2.tree):
            if not (isinstance(st, ast.Expr) and isinstance(st.value, ast.Call) and
                    dotted_name(st.value.func) == 'sys.stderr.write' and st.value.args):
                continue
            first = [n.value for n in ast.walk(st.value.args[0]) if isinstance(n, ast.Constant) and
                     isinstance(n.value, str)]
            if not first or not first[0].startswith('ERROR'):
                continue
            in_func = any(isinstance(p_, ast.FunctionDef) for p_ in parents(st))
            if in_func:
                # inside a helper of mibcopy an error line may be followed by `continue`/`return` (per-file errors
                # under --ignore-errors); those are judged by C20.R4
                continue
            cfgm = mcfg.setdefault(rel, CFG(m2.tree))
            exits_nz = set(n_ for n_ in cfgm.nodes if n_.kind == 'stmt' and isinstance(n_.ast, ast.Expr) and
                           isinstance(n_.ast.value, ast.Call) and dotted_name(n_.ast.value.func) == 'sys.exit' and
                           n_.ast.value.args and isinstance(n_.ast.value.args[0], ast.Name) and
                           exs.get(n_.ast.value.args[0].id, 0) != 0)
            wn = cfgm.node_of(st)
            seen_ = cfgm.reach([wn], avoid=exits_nz, skip_labels=('exc',))
            ok = cfgm.exit not in seen_ and not any(
                n_.kind == 'stmt' and isinstance(n_.ast, ast.Expr) and isinstance(n_.ast.value, ast.Call) and
                dotted_name(n_.ast.value.func) == 'sys.exit' for n_ in seen_)
            nerr += 1
            chk.ob('C20.R1', '%s/error-line-exits#%d' % (rel.split('/')[-1], nerr), ok, where(m2, st),
                   'an ERROR message is written but some path from it ends the run without sys.exit(<non-zero code>): the run goes '
                   'on and may exit 0')
        chk.ob('C20.R1', '%s/error-sites' % rel.split('/')[-1], nerr >= (4 if rel == MIBDUMP else 1), rel,
               '%d reported-error sites' % nerr)
    # mibcopy usage exits
    ex2 = consts(model, MIBCOPY)
    chk.ob('C20.R1', 'mibcopy/EX_USAGE', ex2.get('EX_USAGE') == 64 and ex2.get('EX_OK') == 0, MIBCOPY, '%s' % ex2)


def r2_report(chk):
    model = chk.model
    mod = model.mod(MIBDUMP)
    chk.doc('C20.R2', 'the status words mibdump compares with are the six MibStatus words; the report has one line '
                      'per status listing exactly the modules with that status')
    r = cr.infer(model)
    words = sorted(r.status_consts.values())
    chk.ob('C20.R2', 'six-status-words', words == sorted(SIX), cr.COMPILER, '%s' % words)
    used = {}
    for c in ast.walk(mod.tree):
        if isinstance(c, ast.Compare) and len(c.ops) == 1 and isinstance(c.ops[0], ast.Eq) and \
                isinstance(c.comparators[0], ast.Constant) and isinstance(c.comparators[0].value, str) and \
                ('processed[' in norm(c.left) or norm(c.left) == 'x'):
            used.setdefault(c.comparators[0].value, []).append(c)
    unknown = sorted(set(used) - set(SIX))
    chk.ob('C20.R2', 'status-literals-known', not unknown, MIBDUMP, 'unknown status words %s' % unknown)
    # report lines: sys.stderr.write(...) whose argument filters on one status
    lines = {}
    for c in ast.walk(mod.tree):
        if isinstance(c, ast.Call) and dotted_name(c.func) == 'sys.stderr.write':
            for comp in ast.walk(c):
                if isinstance(comp, (ast.ListComp, ast.GeneratorExp)) and norm(comp.generators[0].iter) == 'sorted(processed)':
                    for cond in comp.generators[0].ifs:
                        if isinstance(cond, ast.Compare) and isinstance(cond.comparators[0], ast.Constant) and not (
                                len(cond.ops) == 1 and isinstance(cond.ops[0], ast.Eq)):
                            chk.ob('C20.R2', 'report-filter %s' % norm(cond)[:40], False, where(mod, cond),
                                   'a report line must select the modules whose status equals the word')
                        if isinstance(cond, ast.Compare) and isinstance(cond.comparators[0], ast.Constant) and \
                                len(cond.ops) == 1 and isinstance(cond.ops[0], ast.Eq):
                            lines.setdefault(cond.comparators[0].value, []).append(
                                (norm(cond.left), comp.generators[0].target.id, c))
    for w in SIX:
        ok = len(lines.get(w, [])) == 1 and lines[w][0][0] == 'processed[%s]' % lines[w][0][1]
        chk.ob('C20.R2', 'report-line(%s)' % w, ok, MIBDUMP, 'report lines for status %s: %d' % (w, len(lines.get(w, []))))
    labels = {'compiled': 'reated/updated', 'borrowed': 'borrowed', 'untouched': 'Up to date', 'missing': 'Missing',
              'unprocessed': 'Ignored', 'failed': 'Failed'}
    for w, lab in sorted(labels.items()):
        if lines.get(w):
            call = lines[w][0][2]
            first = [n.value for n in ast.walk(call) if isinstance(n, ast.Constant) and isinstance(n.value, str)][0]
            chk.ob('C20.R2', 'report-label(%s)' % w, lab in first, where(mod, call),
                   'modules with status %s are listed under %r' % (w, first[:40]))


def r3_options(chk):
    model = chk.model
    mod = model.mod(MIBDUMP)
    chk.doc('C20.R3', 'mibdump: every long option declared to getopt has a handler `if opt[0] == "--name"`; the flags '
                      'reach compile() as noDeps, rebuild, dryRun, dstTemplate, genTexts, textFilter, writeMibs, '
                      'ignoreErrors and buildIndex() as dryRun, ignoreErrors; each flag is set only by its option')
    declared = []
    for c in ast.walk(mod.tree):
        if isinstance(c, ast.Call) and dotted_name(c.func) == 'getopt.getopt':
            for e in c.args[2].elts:
                declared.append(e.value.rstrip('='))
    handled = set()
    setters = {}
    effects = {}
    for n in ast.walk(mod.tree):
        if isinstance(n, ast.If):
            # the handler test is `opt[0] == '--name'` or an or-chain of such equalities, un-negated
            alts = n.test.values if isinstance(n.test, ast.BoolOp) and isinstance(n.test.op, ast.Or) else [n.test]
            for cmp_ in alts:
                if isinstance(cmp_, ast.Compare) and len(cmp_.ops) == 1 and isinstance(cmp_.ops[0], ast.Eq) and \
                        norm(cmp_.left) == 'opt[0]' and isinstance(cmp_.comparators[0], ast.Constant):
                    o = cmp_.comparators[0].value
                    if o.startswith('--'):
                        handled.add(o[2:])
                        for s in n.body:
                            if isinstance(s, ast.Assign) and isinstance(s.targets[0], ast.Name):
                                setters.setdefault(s.targets[0].id, []).append((o[2:], norm(s.value)))
                        for s in ast.walk(n):
                            if isinstance(s, ast.Assign) and isinstance(s.targets[0], ast.Name):
                                effects.setdefault(o[2:], []).append('%s = %s' % (s.targets[0].id, norm(s.value)))
                            if isinstance(s, ast.Expr) and isinstance(s.value, ast.Call) and not norm(s.value).startswith(
                                    ('sys.stderr.write', 'sys.exit')):
                                effects.setdefault(o[2:], []).append(norm(s.value))
    for rel_ in (MIBDUMP, MIBCOPY):
        _option_test_shape(chk, model.mod(rel_), rel_)
    want_effects = {
        'quiet': ['verboseFlag = False'], 'debug': ["debug.setLogger(debug.Debug(*opt[1].split(',')))"],
        'mib-source': ['mibSources.append(opt[1])'], 'mib-searcher': ['mibSearchers.append(opt[1])'],
        'mib-stub': ['mibStubs.append(opt[1])'], 'mib-borrower': ['mibBorrowers.append((opt[1], genMibTextsFlag))'],
        'destination-format': ['dstFormat = opt[1]'], 'destination-template': ['dstTemplate = opt[1]'],
        'destination-directory': ['dstDirectory = opt[1]'], 'cache-directory': ['cacheDirectory = opt[1]'],
        'no-python-compile': ['pyCompileFlag = False'], 'python-optimization-level': ['pyOptimizationLevel = int(opt[1])'],
        'disable-fuzzy-source': ['doFuzzyMatchingFlag = False'],
    }
    for o, want in sorted(want_effects.items()):
        chk.ob('C20.R3', 'effect --%s' % o, effects.get(o) == want, MIBDUMP,
               'option --%s does %s, expected %s' % (o, effects.get(o), want))
    for o in declared:
        chk.ob('C20.R3', 'option --%s handled' % o, o in handled, MIBDUMP, 'declared but not handled')
    want_set = {'dryrunFlag': ('dry-run', 'True'), 'writeMibsFlag': ('no-mib-writes', 'False'),
                'nodepsFlag': ('no-dependencies', 'True'), 'rebuildFlag': ('rebuild', 'True'),
                'ignoreErrorsFlag': ('ignore-errors', 'True'), 'genMibTextsFlag': ('generate-mib-texts', 'True'),
                'buildIndexFlag': ('build-index', 'True'), 'keepTextsLayout': ('keep-texts-layout', 'True')}
    for flag, (opt, val) in sorted(want_set.items()):
        chk.ob('C20.R3', 'flag %s' % flag, setters.get(flag) == [(opt, val)], MIBDUMP,
               '%s is set by %s, expected only --%s -> %s' % (flag, setters.get(flag), opt, val))
    defaults = dict((s.targets[0].id, norm(s.value)) for s in mod.tree.body if isinstance(s, ast.Assign) and
                    isinstance(s.targets[0], ast.Name))
    for flag, dv in (('dryrunFlag', 'False'), ('writeMibsFlag', 'True'), ('nodepsFlag', 'False'),
                     ('rebuildFlag', 'False'), ('ignoreErrorsFlag', 'False'), ('genMibTextsFlag', 'False')):
        chk.ob('C20.R3', 'default %s' % flag, defaults.get(flag) == dv, MIBDUMP, '%s defaults to %s' % (flag, defaults.get(flag)))
    comp = [c for c in ast.walk(mod.tree) if isinstance(c, ast.Call) and norm(c.func) == 'mibCompiler.compile']
    chk.ob('C20.R3', 'compile-call', len(comp) == 1, MIBDUMP, '')
    if comp:
        kw = {}
        for k in comp[0].keywords:
            if k.arg is None and isinstance(k.value, ast.Call) and dotted_name(k.value.func) == 'dict':
                for kk in k.value.keywords:
                    kw[kk.arg] = norm(kk.value)
            elif k.arg:
                kw[k.arg] = norm(k.value)
        want = {'noDeps': 'nodepsFlag', 'rebuild': 'rebuildFlag', 'dryRun': 'dryrunFlag', 'dstTemplate': 'dstTemplate',
                'genTexts': 'genMibTextsFlag', 'writeMibs': 'writeMibsFlag', 'ignoreErrors': 'ignoreErrorsFlag',
                'textFilter': 'keepTextsLayout and (lambda symbol, text: text) or None'}
        for k, v in sorted(want.items()):
            chk.ob('C20.R3', 'compile(%s=)' % k, kw.get(k) == v, where(mod, comp[0]), '%s=%s, expected %s' % (k, kw.get(k), v))
        chk.ob('C20.R3', 'compile(*inputMibs)', any(isinstance(a, ast.Starred) and norm(a.value) == 'inputMibs'
                                                    for a in comp[0].args), where(mod, comp[0]), '')
    bi = [c for c in ast.walk(mod.tree) if isinstance(c, ast.Call) and norm(c.func) == 'mibCompiler.buildIndex']
    chk.ob('C20.R3', 'buildIndex-call', len(bi) == 1, MIBDUMP, '--build-index must lead to one mibCompiler.buildIndex() call')
    go = [c for c in ast.walk(mod.tree) if isinstance(c, ast.Call) and dotted_name(c.func) == 'getopt.getopt']
    chk.ob('C20.R3', 'getopt-arguments', len(go) == 1 and len(go[0].args) == 3 and norm(go[0].args[0]) == 'sys.argv[1:]'
           and isinstance(go[0].args[1], ast.Constant) and isinstance(go[0].args[2], ast.List), MIBDUMP,
           'getopt.getopt(sys.argv[1:], <short options>, [<long options>])')
    if bi:
        kw = dict((k.arg, norm(k.value)) for k in bi[0].keywords)
        chk.ob('C20.R3', 'buildIndex(dryRun=)', kw.get('dryRun') == 'dryrunFlag', where(mod, bi[0]), '%s' % kw)
        chk.ob('C20.R3', 'buildIndex(ignoreErrors=)', kw.get('ignoreErrors') == 'ignoreErrorsFlag', where(mod, bi[0]), '')
        chk.ob('C20.R3', 'buildIndex-under-flag', any(isinstance(p, ast.If) and norm(p.test) == 'buildIndexFlag'
                                                      for p in parents(bi[0])), where(mod, bi[0]), '')
        chk.ob('C20.R3', 'buildIndex(processed)', bool(bi[0].args) and norm(bi[0].args[0]) == 'processed', where(mod, bi[0]), '')


def _option_test_shape(chk, mod, rel):
    """every test of the current option is `opt[0] == '<name>'` (or an or-chain of such), un-negated; every long option
    declared to getopt has such a test"""
    declared, tested = [], set()
    for c in ast.walk(mod.tree):
        if isinstance(c, ast.Call) and dotted_name(c.func) == 'getopt.getopt' and len(c.args) == 3 and \
                isinstance(c.args[2], ast.List):
            declared = [e.value.rstrip('=') for e in c.args[2].elts if isinstance(e, ast.Constant)]
    nm = rel.split('/')[-1]
    for n in ast.walk(mod.tree):
        if not isinstance(n, ast.If):
            continue
        cmps = [c_ for c_ in ast.walk(n.test) if isinstance(c_, ast.Compare) and norm(c_.left) == 'opt[0]']
        if not cmps:
            continue
        alts = n.test.values if isinstance(n.test, ast.BoolOp) and isinstance(n.test.op, ast.Or) else [n.test]
        ok = all(isinstance(a_, ast.Compare) and len(a_.ops) == 1 and isinstance(a_.ops[0], ast.Eq) and
                 norm(a_.left) == 'opt[0]' and isinstance(a_.comparators[0], ast.Constant) for a_ in alts)
        chk.ob('C20.R3', '%s/option-test %s' % (nm, norm(n.test)[:50]), ok, where(mod, n),
               'an option handler must be guarded by `opt[0] == <option>` (or an or-chain of such), un-negated')
        if ok:
            for a_ in alts:
                tested.add(a_.comparators[0].value.lstrip('-'))
    if rel == MIBDUMP:
        for o in declared:
            chk.ob('C20.R3', '%s/option --%s has a handler' % (nm, o), o in tested, rel, 'declared to getopt but never tested')
    else:
        # mibcopy declares --dry-run and --mib-stub to getopt (and documents --dry-run) without handling them: the
        # options are accepted and ignored.  C20 does not speak about mibcopy's options, so this is noted, not judged.
        unhandled = sorted(o for o in declared if o not in tested)
        if unhandled:
            chk.note('%s: options declared to getopt but never handled: %s (outside the stated property)' % (
                nm, ', '.join('--' + o for o in unhandled)))


def parents(n):
    p = getattr(n, '_parent', None)
    while p is not None:
        yield p
        p = getattr(p, '_parent', None)


def enclosing_handler(st):
    a = getattr(st, '_parent', None)
    while a is not None:
        if isinstance(a, ast.ExceptHandler):
            return a
        a = getattr(a, '_parent', None)
    return None


def r4_mibcopy(chk):
    model = chk.model
    mod = model.mod(MIBCOPY)
    chk.doc('C20.R4', 'mibcopy: getMibRevision returns (canonical name, revision) of the status that is "compiled" and '
                      'whose path is file://<dir>/<file just read>; the destination revision is asked for '
                      '(dstDirectory, <canonical name>) unless remembered; the copy is skipped iff destination '
                      'revision >= source revision; the remembered revision becomes the source revision; the file is '
                      'copied to os.path.join(dstDirectory, <canonical name>)')
    fn = model.func(MIBCOPY, 'getMibRevision')
    d, f = [a.arg for a in fn.args.args]
    comp0 = [s for s in walk_no_nested(fn) if isinstance(s, ast.Assign) and isinstance(s.value, ast.Call) and
             isinstance(s.value.func, ast.Attribute) and s.value.func.attr == 'compile' and
             isinstance(s.targets[0], ast.Name)]
    P = comp0[0].targets[0].id if comp0 else 'processed'
    loop = [n for n in fn.body if isinstance(n, ast.For)]
    ok = len(loop) == 1 and norm(loop[0].iter) == P
    if ok:
        nv = loop[0].target.id
        t = [n for n in loop[0].body if isinstance(n, ast.If)]
        ok = len(t) == 1 and norm(t[0].test) == "%s[%s] == 'compiled' and %s[%s].path == 'file://' + " \
                                                "os.path.join(%s, %s)" % (P, nv, P, nv, d, f)
        rets = [x for x in walk_no_nested(t[0]) if isinstance(x, ast.Return)] if t else []
        ok = ok and len(rets) == 1 and norm(rets[0].value).startswith('(%s, ' % nv)
        rev = [s for s in walk_no_nested(t[0]) if isinstance(s, ast.Assign) and 'strptime' in norm(s.value)] if t else []
        ok = ok and len(rev) == 1 and norm(rev[0].value) == "datetime.strptime(%s[%s].revision, '%%Y-%%m-%%d %%H:%%M')" % (P, nv)
    chk.ob('C20.R4', 'getMibRevision/selects-the-file-just-read', ok, where(mod, fn),
           'name and revision must come from the compiled status whose path is the file read')
    # every file found by os.walk() is paired with the directory it was found in
    walks = [c for c in ast.walk(mod.tree) if isinstance(c, (ast.ListComp, ast.GeneratorExp)) and any(
        isinstance(g.iter, ast.Call) and dotted_name(g.iter.func) == 'os.walk' for g in c.generators)]
    okw = False
    detail = 'no comprehension over os.walk() found'
    if walks:
        c = walks[0]
        g = [g for g in c.generators if isinstance(g.iter, ast.Call) and dotted_name(g.iter.func) == 'os.walk'][0]
        dirvar = g.target.elts[0].id if isinstance(g.target, ast.Tuple) and isinstance(g.target.elts[0], ast.Name) else None
        first = c.elt.elts[0] if isinstance(c.elt, ast.Tuple) and c.elt.elts else None
        okw = dirvar is not None and dirvar != '_' and first is not None and any(
            isinstance(x, ast.Name) and x.id == dirvar for x in ast.walk(first))
        detail = 'files are paired with `%s`, the walk step\'s directory is `%s`' % (
            norm(first)[:50] if first is not None else None, dirvar)
    chk.ob('C20.R4', 'source-walk/file-paired-with-its-own-directory', okw, where(mod, walks[0]) if walks else MIBCOPY, detail)
    # sources are asked in the order they were added and the first hit wins: the directory of the file under
    # inspection must come first, or a same-named file in a repository shadows it
    adds = [c for c in walk_no_nested(fn) if isinstance(c, ast.Call) and isinstance(c.func, ast.Attribute) and
            c.func.attr == 'addSources']
    adds.sort(key=lambda c: (c.lineno, c.col_offset))
    first = adds[0].args[0] if adds and adds[0].args else None
    okf = isinstance(first, ast.Call) and dotted_name(first.func) == 'FileReader' and first.args and \
        _key_is(first.args[0], d)
    chk.ob('C20.R4', 'getMibRevision/own-directory-is-the-first-source', bool(okf), where(mod, adds[0]) if adds else
           where(mod, fn), 'the first source added must be FileReader(%s, ...), found %s' % (
               d, norm(first)[:70] if first is not None else None))
    # a module without REVISION has revision None: strptime then raises TypeError, a malformed stamp ValueError; both
    # mean "revision unknown -> oldest", neither may end the run
    sp = [c for c in walk_no_nested(fn) if isinstance(c, ast.Call) and norm(c.func).endswith('strptime')]
    okh = False
    if sp:
        from vt.cfg import enclosing_trys
        for t in enclosing_trys(common.stmt_of(sp[0]), fn):
            for h in t.handlers:
                names = cr.handler_type_names(model, mod, h)
                if h.type is None or any(x in ('Exception', 'BaseException') for x in names) or \
                        ('TypeError' in names and 'ValueError' in names):
                    okh = True
    chk.ob('C20.R4', 'getMibRevision/missing-revision-tolerated', okh, where(mod, sp[0]) if sp else where(mod, fn),
           'the strptime() of the revision must sit in a try that catches TypeError (no REVISION clause: None) as well '
           'as ValueError (malformed stamp)')
    last = fn.body[-1]
    chk.ob('C20.R4', 'getMibRevision/unreadable-raises', isinstance(last, ast.Raise), where(mod, fn), '')
    comp = [c for c in walk_no_nested(fn) if isinstance(c, ast.Call) and isinstance(c.func, ast.Attribute) and
            c.func.attr == 'compile']
    ok = len(comp) == 1 and norm(comp[0].args[0]) == f
    chk.ob('C20.R4', 'getMibRevision/compiles-that-file', ok, where(mod, fn), '')
    srcs = [c for c in walk_no_nested(fn) if isinstance(c, ast.Call) and dotted_name(c.func) == 'FileReader']
    ok = len(srcs) == 1 and norm(srcs[0].args[0]) == d
    chk.ob('C20.R4', 'getMibRevision/reads-that-directory', ok, where(mod, fn), '')
    # main loop
    calls = [c for c in ast.walk(mod.tree) if isinstance(c, ast.Call) and dotted_name(c.func) == 'getMibRevision' and
             common.enclosing_function(c) is None]
    src = [c for c in calls if norm(c.args[0]) == 'srcDirectory']
    dst = [c for c in calls if norm(c.args[0]) == 'dstDirectory']
    ok = len(src) == 1 and norm(src[0].args[1]) == 'mibFile'
    st = common.stmt_of(src[0]) if src else None
    okn = ok and isinstance(st, ast.Assign) and norm(st.targets[0]) == '(mibName, srcMibRevision)'
    chk.ob('C20.R4', 'loop/source-lookup', okn, where(mod, src[0]) if src else MIBCOPY, '')
    ok = len(dst) == 1 and norm(dst[0].args[1]) == 'mibName'
    chk.ob('C20.R4', 'loop/destination-lookup-by-canonical-name', ok, where(mod, dst[0]) if dst else MIBCOPY,
           'the copy already in the destination is stored under the canonical module name; it is looked up as %s' % (
               [norm(c.args[1]) for c in dst]))
    if dst:
        st = common.stmt_of(dst[0])
        ok = isinstance(st, ast.Assign) and norm(st.targets[0]).endswith('dstMibRevision)')
        chk.ob('C20.R4', 'loop/destination-revision', ok, where(mod, st), '')
        remembered = any(isinstance(p, ast.If) and norm(p.test) == 'mibName in mibsRevisions' and
                         any(common._within(st, s) for s in p.orelse) for p in parents(st))
        chk.ob('C20.R4', 'loop/remembered-revision-first', remembered, where(mod, st), '')
    # an absent destination copy is older than any source - also than a source without REVISION, whose revision
    # getMibRevision reports as the epoch: the two fall-backs must differ and the absent one must be the minimum
    fb_rev = [x.value for x in walk_no_nested(fn) if isinstance(x, ast.Assign) and isinstance(x.targets[0], ast.Name) and
              enclosing_handler(x) is not None]
    fb_dst = [x for x in ast.walk(mod.tree) if isinstance(x, ast.Assign) and isinstance(x.targets[0], ast.Name) and
              x.targets[0].id == 'dstMibRevision' and enclosing_handler(x) is not None]
    okfb = len(fb_dst) == 1 and norm(fb_dst[0].value) in ('datetime.min', 'datetime.datetime.min') and \
        all(norm(v) != norm(fb_dst[0].value) for v in fb_rev)
    chk.ob('C20.R4', 'loop/absent-destination-older-than-any-source', okfb,
           where(mod, fb_dst[0]) if fb_dst else MIBCOPY,
           'the revision assumed for a module that is not in the destination yet must be datetime.min - below the epoch '
           'getMibRevision reports for a module without REVISION - found %s' % [norm(x.value) for x in fb_dst])
    skip = [n for n in ast.walk(mod.tree) if isinstance(n, ast.If) and 'dstMibRevision' in norm(n.test) and
            'srcMibRevision' in norm(n.test)]
    ok = len(skip) == 1 and norm(skip[0].test) in ('dstMibRevision >= srcMibRevision', 'srcMibRevision <= dstMibRevision') \
        and isinstance(skip[0].body[-1], ast.Continue)
    chk.ob('C20.R4', 'loop/skip-iff-destination-not-older', ok, where(mod, skip[0]) if skip else MIBCOPY,
           'skip test: %s' % [norm(s.test) for s in skip])
    upd = [s for s in ast.walk(mod.tree) if isinstance(s, ast.Assign) and norm(s.targets[0]) == 'mibsRevisions[mibName]']
    vals = sorted(norm(s.value) for s in upd)
    chk.ob('C20.R4', 'loop/remembers-copied-revision', vals == ['dstMibRevision', 'srcMibRevision'], MIBCOPY, '%s' % vals)
    if skip and upd:
        after = [s for s in upd if norm(s.value) == 'srcMibRevision']
        chk.ob('C20.R4', 'loop/update-after-skip-test', bool(after) and after[0].lineno > skip[0].lineno, MIBCOPY, '')
    cp = [c for c in ast.walk(mod.tree) if isinstance(c, ast.Call) and dotted_name(c.func) in ('shutil.copy', 'shutil.copyfile',
                                                                                             'shutil.copy2')]
    ok = len(cp) == 1 and norm(cp[0].args[0]) == 'os.path.join(srcDirectory, mibFile)' and \
        norm(cp[0].args[1]) == 'os.path.join(dstDirectory, mibName)'
    chk.ob('C20.R4', 'loop/copy-target', ok, where(mod, cp[0]) if cp else MIBCOPY,
           'copy %s' % [norm(c) for c in cp])
    if cp and skip:
        chk.ob('C20.R4', 'loop/copy-after-skip-test', cp[0].lineno > skip[0].lineno, MIBCOPY, '')
    # shared generator state: revision reset is C12.R2
    from vt.runner import Check
    from rules.C12 import r2_generator_reset
    tmp = Check(chk.prop, chk.tier, chk.model, chk.repo)
    r2_generator_reset(tmp)
    for o in tmp.obligations:
        if o.key.endswith('/self._moduleRevision'):
            chk.ob('C20.R4', 'generator/' + o.key, o.ok, o.where, o.detail)


def r5_statuses_backed_by_writes(chk):
    """the files present afterwards are the modules reported created or borrowed: compile()'s side of it"""
    from vt.runner import Check
    from rules import C07, C09
    chk.doc('C20.R5', 'compile(): compiled/borrowed statuses only survive when the text was handed to the writer '
                      '(C07.R6), and when nothing is written every built module is reported unprocessed (C09.R2)')
    tmp = Check(chk.prop, chk.tier, chk.model, chk.repo)
    C07.r6_single_writer_site(tmp)
    C09.r1_guard(tmp)
    C09.r2_unprocessed_marking(tmp)
    for o in tmp.obligations:
        if o.rule in ('C07.R6', 'C09.R2'):
            chk.ob('C20.R5', o.key, o.ok, o.where, o.detail)


def _dn(n):
    return dotted_name(n) or ''


def r6_format_wiring(chk):
    model = chk.model
    mod = model.mod(MIBDUMP)
    chk.doc('C20.R6', 'mibdump wires searcher, writer and borrower of one destination format to one directory expression '
                      'and one file suffix (file searcher(dir) / file writer(dir); for the suffix-parameterised classes '
                      'writer suffix == searcher exts == borrower exts); the branch of a format instantiates that '
                      'format\'s code generator; the compiler is built from the generator and writer so chosen and '
                      'receives sources, searchers and borrowers')
    # the format dispatch: if dstFormat == '<fmt>' ... elif ...
    branches = {}
    for node in ast.walk(mod.tree):
        if isinstance(node, ast.If):
            if isinstance(node.test, ast.Compare) and len(node.test.ops) == 1 and \
                    isinstance(node.test.ops[0], ast.Eq) and isinstance(node.test.comparators[0], ast.Constant) and \
                    node.test.comparators[0].value in ('pysnmp', 'json', 'null') and \
                    any(isinstance(x, ast.Call) and _dn(x.func).endswith('CodeGen') for s_ in node.body
                        for x in ast.walk(s_)):
                branches[node.test.comparators[0].value] = node.body
    chk.ob('C20.R6', 'format-dispatch', sorted(branches) == ['json', 'null', 'pysnmp'], MIBDUMP, '%s' % sorted(branches))
    gens = {'pysnmp': 'PySnmpCodeGen', 'json': 'JsonCodeGen', 'null': 'NullCodeGen'}
    tgt = {}
    for fmt, body in sorted(branches.items()):
        calls = [c for s_ in body for c in ast.walk(s_) if isinstance(c, ast.Call)]
        made = [_dn(c.func) for c in calls if _dn(c.func).endswith('CodeGen')]
        chk.ob('C20.R6', '%s/generator' % fmt, made == [gens[fmt]], MIBDUMP, 'instantiated %s' % made)
        for s_ in body:
            if isinstance(s_, ast.Assign) and isinstance(s_.value, ast.Call) and \
                    _dn(s_.value.func).endswith('CodeGen'):
                tgt.setdefault('gen', set()).add(norm(s_.targets[0]))
        dirs, sufs = {}, {}
        for c in calls:
            nm = _dn(c.func)
            if nm in ('PyFileSearcher', 'AnyFileSearcher', 'PyFileWriter', 'FileWriter') and c.args:
                dirs[nm] = norm(c.args[0])
            if isinstance(c.func, ast.Attribute) and c.func.attr == 'setOptions' and isinstance(c.func.value, ast.Call):
                inner = _dn(c.func.value.func)
                for k in c.keywords:
                    if k.arg in ('exts', 'suffix'):
                        try:
                            v = ast.literal_eval(k.value)
                        except Exception:
                            v = norm(k.value)
                        sufs[inner] = sorted(v) if isinstance(v, (list, tuple)) else [v]
            if nm in ('PyFileWriter', 'FileWriter', 'CallbackWriter'):
                st = common.stmt_of(c)
                if isinstance(st, ast.Assign):
                    tgt.setdefault('wr', set()).add(norm(st.targets[0]))
        if fmt != 'null':
            chk.ob('C20.R6', '%s/one-directory' % fmt, len(dirs) == 2 and len(set(dirs.values())) == 1, MIBDUMP,
                   'searcher and writer directories: %s' % dirs)
        if fmt == 'json':
            ok = set(sufs) >= {'AnyFileSearcher', 'FileWriter', 'AnyFileBorrower'} and \
                len(set(tuple(v) for v in sufs.values())) == 1
            chk.ob('C20.R6', 'json/one-suffix', ok, MIBDUMP, 'suffixes %s' % sufs)
        if fmt == 'pysnmp':
            # PyFileWriter / PyFileSearcher / PyFileBorrower share the .py convention by class; nothing may override it
            chk.ob('C20.R6', 'pysnmp/no-suffix-override', not any(k in sufs for k in ('PyFileWriter', 'PyFileSearcher')),
                   MIBDUMP, 'suffixes %s' % sufs)
        chk.ob('C20.R6', '%s/stub-searcher' % fmt, any(_dn(c.func) == 'StubSearcher' and
               [norm(a) for a in c.args] == ['*mibStubs'] for c in calls), MIBDUMP,
               'the stub list must be handed to a StubSearcher in the searcher list of this format')
        if fmt == 'pysnmp':
            pk = [c for c in calls if _dn(c.func) == 'PyPackageSearcher']
            ok_ = len(pk) == 1 and isinstance(getattr(common.stmt_of(pk[0]), '_parent', None), ast.For) and \
                norm(common.stmt_of(pk[0])).startswith('searchers.append(')
            chk.ob('C20.R6', 'pysnmp/package-searchers', ok_, MIBDUMP,
                   'every --mib-searcher package must become a PyPackageSearcher in the searcher list')
    dirnames = set()
    for fmt, body in branches.items():
        for c in [c for s_ in body for c in ast.walk(s_) if isinstance(c, ast.Call)]:
            if _dn(c.func) in ('PyFileWriter', 'FileWriter') and c.args:
                dirnames.add(norm(c.args[0]))
    chk.ob('C20.R6', 'one-destination-variable', len(dirnames) == 1 and isinstance(
        ast.parse(list(dirnames)[0], mode='eval').body, ast.Name), MIBDUMP, '%s' % sorted(dirnames))
    comp = [c for c in ast.walk(mod.tree) if isinstance(c, ast.Call) and _dn(c.func) == 'MibCompiler']
    ok = len(comp) == 1 and len(comp[0].args) == 3 and len(tgt.get('gen', ())) == 1 and len(tgt.get('wr', ())) == 1 and \
        [norm(a) for a in comp[0].args][1:] == [list(tgt['gen'])[0], list(tgt['wr'])[0]]
    chk.ob('C20.R6', 'compiler-components', ok, MIBDUMP, '%s gen=%s writer=%s' % (
        [norm(c)[:80] for c in comp], sorted(tgt.get('gen', ())), sorted(tgt.get('wr', ()))))
    order = sorted(c.func.attr for c in ast.walk(mod.tree) if isinstance(c, ast.Call) and
                   isinstance(c.func, ast.Attribute) and c.func.attr in ('addSources', 'addSearchers', 'addBorrowers'))
    chk.ob('C20.R6', 'component-lists-added', order == ['addBorrowers', 'addSearchers', 'addSources'], MIBDUMP, '%s' % order)
    for attr, var in (('addSearchers', 'searchers'), ('addBorrowers', 'borrowers')):
        cs = [c for c in ast.walk(mod.tree) if isinstance(c, ast.Call) and isinstance(c.func, ast.Attribute) and
              c.func.attr == attr]
        chk.ob('C20.R6', '%s-arg' % attr, len(cs) == 1 and [norm(a) for a in cs[0].args] == ['*' + var], MIBDUMP,
               '%s' % [norm(c)[:60] for c in cs])


def r7_argument_agreement(chk):
    rels = sorted(r for r in chk.model.modules if r.startswith(('scripts/',)))
    common.argument_agreement(chk, 'C20.R7', rels, floor=5)



def r8_failed_leaves_no_file(chk):
    from rules.C13 import r9_failure_after_rename_leaves_no_file
    r9_failure_after_rename_leaves_no_file(chk, rule='C20.R8')


def r9_wellformedness(chk):
    rels = sorted(r for r in chk.model.modules if r.startswith(('scripts/',)))
    common.wellformedness(chk, 'C20.R9', rels, floor=4)
    common.given_values_not_discarded(chk, 'C20.R9', rels)




def t1_typestate(chk):
    """typestate analysis of compile() (rules/compile_ts.py): end-to-end bookkeeping invariants for an arbitrary
    module over every outcome of every component call"""
    from rules import compile_ts
    compile_ts.ts_rule(chk, 'C20.T1', ['status-effect', 'failed-pairing', 'missing-reported', 'abort', 'nowrite-switch'])



def r10_no_stray_files(chk):
    """the destination directory holds exactly the reported modules: a failed store must not leave its temporary file
    there - shared with C13.R2 / C13.R4"""
    from rules.C13 import r2_typestate, r4_cleanup
    common.reuse(chk, r2_typestate, ('C13.R2',), 'C20.R10',
                 'file writers: one mkstemp in the destination directory, one rename onto the destination name '
                 '(C13.R2); every failure between them unlinks the temporary file through the variable mkstemp '
                 'assigned and raises the writer error (C13.R4)', floor=4)
    common.reuse(chk, r4_cleanup, ('C13.R4',), 'C20.R10',
                 'file writers: one mkstemp in the destination directory, one rename onto the destination name '
                 '(C13.R2); every failure between them unlinks the temporary file through the variable mkstemp '
                 'assigned and raises the writer error (C13.R4)', floor=4)



def r11_options_forwarded_under_their_names(chk):
    """compile() and buildIndex() hand caller options on to the components as keyword arguments: the key read from the
    options mapping is the keyword it is passed as (dstTemplate=options.get('dstTemplate'), ...), and the keys compile()
    tests itself are the documented ones"""
    model = chk.model
    chk.doc('C20.R11', 'MibCompiler.compile / buildIndex: every keyword argument fed from the options mapping reads the key '
                       'of the same name (X=options.get("X")); the keys compile() consults are exactly noDeps, rebuild, '
                       'dryRun, dstTemplate, genTexts, textFilter, writeMibs, ignoreErrors (those mibdump sets, C20.R3)')
    known = set(['noDeps', 'rebuild', 'dryRun', 'dstTemplate', 'genTexts', 'textFilter', 'writeMibs', 'ignoreErrors'])
    seen = set()
    n = 0
    for mname in ('compile', 'buildIndex'):
        o, fn = model.method(cr.COMPILER, 'MibCompiler', mname)
        opt = fn.args.kwarg.arg if fn.args.kwarg else 'options'
        for c in walk_no_nested(fn):
            if isinstance(c, ast.Call) and isinstance(c.func, ast.Attribute) and c.func.attr == 'get' and \
                    isinstance(c.func.value, ast.Name) and c.func.value.id == opt and c.args and \
                    isinstance(c.args[0], ast.Constant):
                key = c.args[0].value
                seen.add(key)
                par = getattr(c, '_parent', None)
                if isinstance(par, ast.keyword) and par.arg is not None:
                    n += 1
                    chk.ob('C20.R11', '%s/%s=options.get(%r)' % (mname, par.arg, key), par.arg == key, where(o.mod, c),
                           'the option %r is passed on as keyword %r' % (key, par.arg))
                n += 1
                chk.ob('C20.R11', '%s/reads option %s' % (mname, key), key in known, where(o.mod, c),
                       'option key %r is not one of the documented options %s' % (key, sorted(known)))
    missing = sorted(known - seen)
    chk.ob('C20.R11', 'all documented options are consulted', not missing, cr.COMPILER,
           'never read by compile()/buildIndex(): %s' % missing)
    chk.floor('C20.R11', 12, 'option reads in compile() and buildIndex()')



def r12_revision_time_of_two_digit_years(chk):
    """shared with C03.R9: mibcopy keeps the copy with the latest revision - as genTime reads it"""
    from rules.C03 import r9_revision_time
    common.reuse(chk, r9_revision_time, ('C03.R9',), 'C20.R12',
                 'genTime completes a two-digit year with the century before parsing (C03.R9): the revision mibcopy '
                 'compares is the one the MIB states, so an old YYMMDDHHMM revision cannot outrank a newer one', floor=1)


RULES = [r1_exit_codes, r2_report, r3_options, r4_mibcopy, r5_statuses_backed_by_writes, r6_format_wiring, r7_argument_agreement, r8_failed_leaves_no_file, r9_wellformedness, t1_typestate, r10_no_stray_files, r11_options_forwarded_under_their_names, r12_revision_time_of_two_digit_years]
