"""Role inference for MibCompiler.compile(), shared by C07 C08 C09 C10 C13 C19.

Roles are inferred from structure, not from local variable names:
  RESULT   the single local name returned by every `return`
  FAILED   the local dict that receives a caught exception object
  WORK     local dicts initialised empty that are `del`-eted from (work maps)
  WORKLIST the local list that the `while` loop pops from
  protocol calls: receiver.<getData|parse|genCode|fileExists|putData>(...)
"""
import ast

from vt.cfg import CFG, enclosing_trys, in_subtree
from vt.model import walk_no_nested, norm, dotted_name
from vt.runner import AnalysisError

PROTOCOL = ('getData', 'parse', 'genCode', 'fileExists', 'putData')
COMPILER = 'pysmi/compiler.py'


class Roles(object):
    pass


def subscript_store(st):
    """(container name, key node, value node) for `D[k] = v` statements."""
    if isinstance(st, ast.Assign) and len(st.targets) == 1 and isinstance(st.targets[0], ast.Subscript):
        t = st.targets[0]
        if isinstance(t.value, ast.Name):
            return t.value.id, t.slice, st.value
    return None


def del_targets(st):
    out = []
    if isinstance(st, ast.Delete):
        for t in st.targets:
            if isinstance(t, ast.Subscript) and isinstance(t.value, ast.Name):
                out.append((t.value.id, t.slice))
    return out


def pop_call(st):
    """`D.pop(k, ...)` as an expression statement -> (D, key node)."""
    if isinstance(st, ast.Expr) and isinstance(st.value, ast.Call):
        f = st.value.func
        if isinstance(f, ast.Attribute) and f.attr == 'pop' and isinstance(f.value, ast.Name) and st.value.args:
            return f.value.id, st.value.args[0]
    return None


def infer(model):
    cached = model.__dict__.get('_compile_roles')
    if cached is not None:
        return cached
    owner, fn = model.method(COMPILER, 'MibCompiler', 'compile')
    mod = owner.mod
    r = Roles()
    r.mod, r.fn, r.cls = mod, fn, owner
    r.cfg = CFG(fn)
    nodes = list(walk_no_nested(fn))

    # RESULT
    rets = [n for n in nodes if isinstance(n, ast.Return)]
    names = set(n.value.id for n in rets if isinstance(n.value, ast.Name))
    if len(names) != 1 or any(not isinstance(n.value, ast.Name) for n in rets):
        raise AnalysisError('compile(): cannot infer RESULT (returns: %s)' % sorted(norm(x) for x in rets))
    r.result = names.pop()
    r.returns = rets

    # exception variables bound in handlers: `as e`, or unpacked from sys.exc_info()
    r.exc_vars = {}
    for h in [n for n in nodes if isinstance(n, ast.ExceptHandler)]:
        vs = set()
        if h.name:
            vs.add(h.name)
        for st in walk_no_nested(h):
            if isinstance(st, ast.Assign) and isinstance(st.value, ast.Call) and \
                    dotted_name(st.value.func) == 'sys.exc_info':
                t = st.targets[0]
                if isinstance(t, ast.Tuple) and len(t.elts) == 3 and isinstance(t.elts[1], ast.Name):
                    vs.add(t.elts[1].id)
        r.exc_vars[id(h)] = vs
    all_exc_vars = set().union(*r.exc_vars.values()) if r.exc_vars else set()

    # locals initialised to {} / []
    r.dict_locals, r.list_locals = set(), set()
    for st in fn.body:
        if isinstance(st, ast.Assign) and len(st.targets) == 1 and isinstance(st.targets[0], ast.Name):
            if isinstance(st.value, ast.Dict) and not st.value.keys:
                r.dict_locals.add(st.targets[0].id)
            if isinstance(st.value, (ast.List, ast.ListComp)):
                r.list_locals.add(st.targets[0].id)

    # FAILED: dict that receives a caught exception object (or a freshly built package error)
    cand = {}
    for st in nodes:
        ss = subscript_store(st)
        if ss and isinstance(ss[2], ast.Name) and ss[2].id in all_exc_vars and ss[0] != r.result:
            cand[ss[0]] = cand.get(ss[0], 0) + 1
    if len(cand) != 1:
        raise AnalysisError('compile(): cannot infer FAILED map (candidates %s)' % sorted(cand))
    r.failed = list(cand)[0]

    # WORK maps: dict locals del'd from, except RESULT / FAILED
    deld = set()
    for st in nodes:
        for d, k in del_targets(st):
            deld.add(d)
    r.work = sorted(d for d in deld if d in r.dict_locals and d not in (r.result, r.failed))

    # WORKLIST: list popped in a while loop test
    r.worklist, r.while_loop = None, None
    for st in nodes:
        if isinstance(st, ast.While) and isinstance(st.test, ast.Name) and st.test.id in r.list_locals:
            r.worklist, r.while_loop = st.test.id, st
    # protocol calls
    r.calls = {}
    for n in nodes:
        if isinstance(n, ast.Call) and isinstance(n.func, ast.Attribute) and n.func.attr in PROTOCOL:
            recv = n.func.value
            # only component receivers: self._x or a loop variable over self._xs
            if isinstance(recv, ast.Attribute) and isinstance(recv.value, ast.Name) and recv.value.id == 'self':
                r.calls.setdefault(n.func.attr, []).append(n)
            elif isinstance(recv, ast.Name) and loop_over_self_attr(fn, recv.id):
                r.calls.setdefault(n.func.attr, []).append(n)
    r.status_consts = StatusConsts(status_constants(model, mod))
    # locals that only ever hold one status (`status = statusBorrowed.setOptions(..)` before the store)
    by = {}
    for st in nodes:
        if isinstance(st, ast.Assign) and len(st.targets) == 1 and isinstance(st.targets[0], ast.Name):
            by.setdefault(st.targets[0].id, []).append(status_of(st.value, dict(r.status_consts)))
    for st in nodes:
        if isinstance(st, (ast.For, ast.AugAssign)):
            for x in ast.walk(st.target):
                if isinstance(x, ast.Name):
                    by.setdefault(x.id, []).append(None)
    for name, words in by.items():
        if words and all(w is not None for w in words) and len(set(words)) == 1 and name not in r.status_consts:
            r.status_consts.locals[name] = words[0]
    model.__dict__['_compile_roles'] = r
    return r


def loop_over_self_attr(fn, name):
    for n in walk_no_nested(fn):
        if isinstance(n, ast.For) and isinstance(n.target, ast.Name) and n.target.id == name:
            it = n.iter
            if isinstance(it, ast.Attribute) and isinstance(it.value, ast.Name) and it.value.id == 'self':
                return it.attr
    return None


def status_constants(model, mod):
    """module-level NAME = MibStatus('word') constants -> {NAME: word}"""
    out = {}
    for st in mod.tree.body:
        if isinstance(st, ast.Assign) and len(st.targets) == 1 and isinstance(st.targets[0], ast.Name) \
                and isinstance(st.value, ast.Call) and isinstance(st.value.func, ast.Name) \
                and st.value.func.id == 'MibStatus' and len(st.value.args) == 1 \
                and isinstance(st.value.args[0], ast.Constant):
            out[st.targets[0].id] = st.value.args[0].value
    return out


class StatusConsts(dict):
    """module-level status constants {NAME: word}; .locals = locals of compile() that only ever hold one status"""
    def __init__(self, *a):
        dict.__init__(self, *a)
        self.locals = {}


def status_of(expr, consts):
    """Status word of an RHS: a status constant or `<const>.setOptions(...)` (or a local that only ever holds
    one of these); else None."""
    if isinstance(expr, ast.Name) and expr.id in consts:
        return consts[expr.id]
    if isinstance(expr, ast.Name) and expr.id in getattr(consts, 'locals', {}):
        return consts.locals[expr.id]
    if isinstance(expr, ast.Call) and isinstance(expr.func, ast.Attribute) and expr.func.attr == 'setOptions' \
            and isinstance(expr.func.value, ast.Name) and expr.func.value.id in consts:
        return consts[expr.func.value.id]
    return None


def enclosing_loop(node, fn):
    a = getattr(node, '_parent', None)
    child = node
    while a is not None and a is not fn:
        if isinstance(a, (ast.For, ast.While)) and any(child is s for s in a.body):
            return a
        child, a = a, getattr(a, '_parent', None)
    return None


def enclosing_loops(node, fn):
    out = []
    a = getattr(node, '_parent', None)
    child = node
    while a is not None and a is not fn:
        if isinstance(a, (ast.For, ast.While)) and any(child is s for s in a.body):
            out.append(a)
        child, a = a, getattr(a, '_parent', None)
    return out


def stmt_of(node, fn):
    """Enclosing statement of an expression node."""
    a = node
    while a is not None and not isinstance(a, ast.stmt):
        a = getattr(a, '_parent', None)
    return a


def handler_covering(model, mod, try_ast, class_names):
    """First handler of try_ast that catches an exception whose ancestry is
    class_names (most derived first)."""
    for h in try_ast.handlers:
        if h.type is None:
            return h
        types = h.type.elts if isinstance(h.type, ast.Tuple) else [h.type]
        for t in types:
            anc = model.exc_ancestors(mod, t)
            if anc and anc[0] in class_names:
                return h
            if not anc:
                n = dotted_name(t)
                if n and n.split('.')[-1] in class_names:
                    return h
    return None


def handler_type_names(model, mod, h):
    if h.type is None:
        return ['BaseException']
    types = h.type.elts if isinstance(h.type, ast.Tuple) else [h.type]
    out = []
    for t in types:
        anc = model.exc_ancestors(mod, t)
        out.append(anc[0] if anc else (dotted_name(t) or norm(t)))
    return out


def option_reads(expr, options_name, key):
    """[(polarity, default node or None, call)] for every `<options>.get('<key>'[, default])` inside expr; polarity is
    True when the read stands un-negated (as the whole test or as a conjunct of an and-chain), False under `not`,
    None when it is buried in something else (comparison, or-chain, call argument)."""
    out = []

    def rec(e, pol):
        if isinstance(e, ast.UnaryOp) and isinstance(e.op, ast.Not):
            rec(e.operand, (not pol) if pol is not None else None)
            return
        if isinstance(e, ast.BoolOp) and isinstance(e.op, ast.And):
            for v in e.values:
                rec(v, pol)
            return
        if isinstance(e, ast.Call) and isinstance(e.func, ast.Attribute) and e.func.attr == 'get' and \
                isinstance(e.func.value, ast.Name) and e.func.value.id == options_name and e.args and \
                isinstance(e.args[0], ast.Constant) and e.args[0].value == key:
            out.append((pol, e.args[1] if len(e.args) > 1 else None, e))
            return
        for c in ast.iter_child_nodes(e):
            rec(c, None)
    rec(expr, True)
    return out
