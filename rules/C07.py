"""C07 - compile() accounts for every module; statuses match effects; errors contained."""
import ast

from vt.cfg import enclosing_trys, in_subtree
from vt.model import walk_no_nested, norm, dotted_name, unparse
from vt.runner import where, AnalysisError
from rules import compile_roles as cr
from rules import common

EXPLANATION = (
    "Typestate analysis of compile() (rule C07.T1): the statements of compile() are interpreted over an abstract "
    "state that tracks one arbitrary module through every local map, with every component call returning or raising "
    "any package error class, every option setting and every iteration order; invariants are evaluated at the "
    "component calls and at every return (see rules/compile_ts.py INV). "
    "Static rules over the CFG of MibCompiler.compile() (roles RESULT/FAILED/work maps inferred structurally): "
    "every protocol call (getData/parse/genCode/fileExists/putData) is enclosed by a handler that covers PySmiError "
    "and neither re-raises nor leaves the module unaccounted; no explicit package raise escapes compile(); every "
    "value stored into the result is one of the six documented MibStatus constants; no `del` from a work map "
    "without a status/work-map store on the same iteration path; every name popped from the work list is "
    "accounted for on every path of the iteration (including the empty-parse path); FAILED and RESULT move "
    "together; one putData site, statusCompiled stored only after it returned; every raise in lexer/parser/codegen "
    "is a package error; Jinja errors are converted. Decides the error-discipline / bookkeeping mechanism on all "
    "paths, not the values flowing through user-supplied components.")
ASSUMPTIONS = [
    "implicit exceptions (TypeError/KeyError/AttributeError) inside components are outside this rule set except "
    "the guarded-lookup rule R7d",
    "user-supplied components signal failure through PySmiError subclasses",
    "ply / jinja2 internals are trusted to raise only the exception classes they document",
]

WIDE = ('PySmiError', 'Exception', 'BaseException')


TECHNIQUE = 'CFG rules over compile() (containment of component calls, status stores, paired map updates); typestate abstract interpretation of compile() (path-sensitive dataflow over a finite per-module domain, rules/compile_ts.py)'


def r1_containment(chk):
    r = cr.infer(chk.model)
    chk.unit('pysmi/compiler.py:MibCompiler.compile')
    chk.doc('C07.R1', 'each protocol call in compile() lies in a try whose handlers cover PySmiError itself (or '
                      'wider); the covering handler contains no raise')
    n = 0
    for meth, calls in sorted(r.calls.items()):
        for call in calls:
            n += 1
            st = cr.stmt_of(call, r.fn)
            key = 'compile/%s#%s' % (norm(call.func), ordinal(r, meth, call))
            trys = enclosing_trys(st, r.fn)
            cover = None
            for t in trys:
                h = cr.handler_covering(chk.model, r.mod, t, WIDE)
                if h is not None:
                    cover = h
                    break
            if cover is None:
                names = [cr.handler_type_names(chk.model, r.mod, h) for t in trys for h in t.handlers]
                chk.ob('C07.R1', key, False, where(r.mod, call),
                       'no enclosing handler covers PySmiError (handlers seen: %s)' % names)
                continue
            raises = [x for x in walk_no_nested(cover) if isinstance(x, ast.Raise)]
            chk.ob('C07.R1', key, not raises, where(r.mod, call),
                   'covering handler re-raises at line %s' % raises[0].lineno if raises else '')
    chk.floor('C07.R1', 8, 'getData x2, parse, symtable genCode, genCode, fileExists x2, putData')
    # handlers of the source try: only the not-found class may go on silently; every other handler must record the
    # failure (FAILED[name] = exc and a failed status), whatever package error class it catches
    src_gets = [c for c in r.calls.get('getData', []) if cr.loop_over_self_attr(r.fn, norm(c.func.value)) == '_sources']
    for c in src_gets:
        st = cr.stmt_of(c, r.fn)
        for t in enclosing_trys(st, r.fn)[:1]:
            for h in t.handlers:
                names = cr.handler_type_names(chk.model, r.mod, h)
                if names == ['PySmiReaderFileNotFoundError']:
                    continue
                stores = [cr.subscript_store(s) for s in walk_no_nested(h) if cr.subscript_store(s)]
                rec = any(s[0] == r.failed for s in stores) and any(
                    s[0] == r.result and cr.status_of(s[2], r.status_consts) == 'failed' for s in stores)
                chk.ob('C07.R1', 'compile/source-handler(%s)-records-failure' % '+'.join(names), rec, where(r.mod, h),
                       'a source error of class %s ends the search for the module without recording a failure: the '
                       'module is neither compiled nor failed, and the abort guard does not see it' % names)


def ordinal(r, meth, call):
    return r.calls[meth].index(call) + 1


def r2_no_package_raise_escapes(chk):
    r = cr.infer(chk.model)
    chk.doc('C07.R2', 'no explicit raise in compile() (or in self-methods it calls) escapes to the caller')
    raises = [n for n in walk_no_nested(r.fn) if isinstance(n, ast.Raise)]
    for x in raises:
        caught = False
        for t in enclosing_trys(x, r.fn):
            if any(h.type is None or cr.handler_type_names(chk.model, r.mod, h)[0] in WIDE for h in t.handlers):
                caught = True
        chk.ob('C07.R2', 'compile/raise %s' % norm(x), caught, where(r.mod, x), 'explicit raise escapes compile()')
    # self-method callees
    for n in walk_no_nested(r.fn):
        if isinstance(n, ast.Call) and isinstance(n.func, ast.Attribute) and isinstance(n.func.value, ast.Name) \
                and n.func.value.id == 'self':
            owner, fn = r.cls.find_method(n.func.attr)
            if fn is None:
                continue
            esc = [x for x in walk_no_nested(fn) if isinstance(x, ast.Raise) and not enclosing_trys(x, fn)]
            chk.ob('C07.R2', 'compile/call self.%s' % n.func.attr, not esc, where(r.mod, n),
                   'callee raises %s' % (norm(esc[0]) if esc else ''))
    chk.ob('C07.R2', 'compile/explicit-raises', True, where(r.mod, r.fn), '%d raise statements' % len(raises))


def r3_status_values(chk):
    r = cr.infer(chk.model)
    chk.doc('C07.R3', 'every value stored into RESULT is one of the six MibStatus constants (or .setOptions of one); '
                      'the constants are exactly the six documented words')
    words = sorted(r.status_consts.values())
    expected = sorted(['compiled', 'untouched', 'failed', 'unprocessed', 'missing', 'borrowed'])
    chk.ob('C07.R3', 'status-constants', words == expected, where(r.mod, r.fn), 'constants: %s' % words)
    for name, word in r.status_consts.items():
        chk.ob('C07.R3', 'constant %s' % name, name.lower() == ('status' + word), r.mod.rel,
               'constant %s spells %r' % (name, word))
    n = 0
    for st in walk_no_nested(r.fn):
        ss = cr.subscript_store(st)
        if ss and ss[0] == r.result:
            n += 1
            w = cr.status_of(ss[2], r.status_consts)
            chk.ob('C07.R3', 'compile/%s[..] = %s' % (r.result, norm(ss[2]).split('(')[0]), w is not None,
                   where(r.mod, st), 'stored value is not a status constant: %s' % norm(ss[2]))
        elif isinstance(st, (ast.Assign, ast.AugAssign)):
            # RESULT rebinding is not allowed after initialisation
            tg = st.targets if isinstance(st, ast.Assign) else [st.target]
            for t in tg:
                if isinstance(t, ast.Name) and t.id == r.result and not (
                        isinstance(st, ast.Assign) and isinstance(st.value, ast.Dict) and not st.value.keys):
                    chk.ob('C07.R3', 'compile/rebinding of %s' % r.result, False, where(r.mod, st), norm(st))
    chk.floor('C07.R3', 12, '11+ RESULT stores and the constant table')
    # MibStatus.setOptions returns a copy with attributes set
    ci = chk.model.cls(cr.COMPILER, 'MibStatus')
    owner, so = ci.find_method('setOptions')
    ok = False
    detail = 'setOptions must return a *copy* of the status with the attributes set'
    if so is not None:
        news = [s for s in so.body if isinstance(s, ast.Assign) and isinstance(s.targets[0], ast.Name) and
                isinstance(s.value, ast.Call) and norm(s.value) in ('self.__class__(self)', 'MibStatus(self)',
                                                                    'type(self)(self)', 'copy.copy(self)')]
        if news:
            nv = news[0].targets[0].id
            sets = [c for c in ast.walk(so) if isinstance(c, ast.Call) and dotted_name(c.func) == 'setattr']
            rets = [x for x in ast.walk(so) if isinstance(x, ast.Return)]
            on_self = [c for c in sets if c.args and _key_is(c.args[0], 'self')]
            ok = bool(sets) and all(c.args and _key_is(c.args[0], nv) for c in sets) and len(rets) == 1 and \
                _key_is(rets[0].value, nv) and not on_self
        else:
            detail = 'setOptions annotates and returns the shared status constant itself: every module with that ' \
                     'status then carries the attributes (error, path, oids) of the last one'
    chk.ob('C07.R3', 'MibStatus.setOptions', ok, r.mod.rel, detail)


def _key_is(node, name):
    return isinstance(node, ast.Name) and node.id == name


def accounted_nodes(r, cfg, key, extra_maps=()):
    """CFG nodes that account for module `key` in this iteration: a store
    RESULT[key] / WORK[key] / FAILED[key], or the `if key not in RESULT` test
    whose true-branch stores RESULT[key]."""
    maps = set([r.result, r.failed]) | set(r.work) | set(extra_maps)
    acc = set()
    for n in cfg.nodes:
        if n.kind == 'stmt':
            ss = cr.subscript_store(n.ast)
            if ss and ss[0] in maps and _key_is(ss[1], key):
                acc.add(n)
        elif n.kind == 'test' and isinstance(n.ast, ast.If):
            t = n.ast.test
            if isinstance(t, ast.Compare) and len(t.ops) == 1 and isinstance(t.ops[0], ast.NotIn) \
                    and _key_is(t.left, key) and isinstance(t.comparators[0], ast.Name) \
                    and t.comparators[0].id == r.result:
                if any(cr.subscript_store(s) and cr.subscript_store(s)[0] == r.result and
                       _key_is(cr.subscript_store(s)[1], key) for s in n.ast.body):
                    acc.add(n)
    return acc


def loop_var(loop):
    if isinstance(loop, ast.For) and isinstance(loop.target, ast.Name):
        return loop.target.id
    return None


def r4_no_silent_drop(chk):
    r = cr.infer(chk.model)
    cfg = r.cfg
    chk.doc('C07.R4', 'on every path of a loop iteration that executes `del WORK[k]`, a store RESULT[k]/WORK2[k]/'
                      'FAILED[k] (or `if k not in RESULT: RESULT[k]=..`) also executes')
    n = 0
    for st in walk_no_nested(r.fn):
        for d, k in cr.del_targets(st):
            if d not in r.work or not isinstance(k, ast.Name):
                continue
            n += 1
            loops = [l for l in cr.enclosing_loops(st, r.fn) if loop_var(l) == k.id or isinstance(l, ast.While)]
            key = 'compile/del %s[%s]#%d' % (d, k.id, n)
            if not loops:
                chk.ob('C07.R4', key, False, where(r.mod, st), 'del outside a per-module loop')
                continue
            loop = loops[0]
            head = cfg.by_ast[id(loop)]
            dn = cfg.node_of(st)
            acc = accounted_nodes(r, cfg, k.id) - set([dn])
            # iteration start = body entry
            start = [m for m, l in head.succ if l == 'T']
            before = dn in cfg.reach(start, avoid=acc | set([head]))
            after_nodes = cfg.reach([m for m, l in dn.succ], avoid=acc)
            leaves = head in after_nodes or cfg.exit in after_nodes or any(
                not in_subtree(x.ast, loop) for x in after_nodes if x.ast is not None and x.kind != 'raise')
            ok = not (before and leaves)
            chk.ob('C07.R4', key, ok, where(r.mod, st),
                   'module can leave work map %s with no status recorded on this path' % d if not ok else '')
    chk.floor('C07.R4', 8, 'del sites on work maps')


def r4b_popped_name_accounted(chk):
    """Every name popped from the work list ends the iteration accounted for:
    seen-guard, a RESULT/FAILED store for it, or a work-map store that is not
    inside a loop that may run zero times."""
    r = cr.infer(chk.model)
    cfg = r.cfg
    chk.doc('C07.R4b', 'every path through one iteration of the work-list loop either leaves through a seen-guard '
                       'or records the popped name in RESULT/FAILED or records a parsed module in a work map')
    loop = chk.subject(r.while_loop, 'work-list while loop in compile()')
    head = cfg.by_ast[id(loop)]
    # popped variable
    popped = None
    for st in loop.body:
        if isinstance(st, ast.Assign) and isinstance(st.value, ast.Call) and isinstance(st.value.func, ast.Attribute) \
                and st.value.func.attr == 'pop' and _key_is(st.value.func.value, r.worklist) \
                and isinstance(st.targets[0], ast.Name):
            popped = st.targets[0].id
            pop_node = cfg.node_of(st)
    if popped is None:
        raise AnalysisError('cannot find the pop of the work list')
    acc = set()
    for n in cfg.nodes:
        if n.kind == 'stmt' and in_subtree(n.ast, loop):
            ss = cr.subscript_store(n.ast)
            if ss and ss[0] in (r.result, r.failed) and _key_is(ss[1], popped):
                acc.add(n)
            elif ss and ss[0] in r.work:
                acc.add(n)  # a module parsed from the fetched text is recorded
            if isinstance(n.ast, ast.Continue) and guard_continue(n.ast, loop, popped):
                acc.add(n)
        if n.kind == 'test' and isinstance(n.ast, ast.If) and in_subtree(n.ast, loop):
            t = n.ast.test
            if isinstance(t, ast.Compare) and isinstance(t.ops[0], ast.NotIn) and _key_is(t.left, popped) and \
                    isinstance(t.comparators[0], ast.Name) and t.comparators[0].id in (r.result, r.failed):
                tgt = t.comparators[0].id
                if any(cr.subscript_store(s) and cr.subscript_store(s)[0] == tgt for s in n.ast.body):
                    acc.add(n)
    # a `for x in N` loop that is preceded by `if not N: raise ...` runs at least once: when every path
    # through its body is accounted, the loop as a whole is
    for n in cfg.nodes:
        if n.kind == 'iter' and in_subtree(n.ast, loop) and n.ast is not loop and nonempty_guarded(n.ast):
            body_start = [m for m, l in n.succ if l == 'T']
            # exceptional exits of the body are followed by the main reachability below
            inner = cfg.reach(body_start, avoid=acc | set([n]), skip_labels=('exc',))
            falls_back = any(any(m is n and l != 'exc' for m, l in x.succ) for x in inner)
            leaves = any(x is cfg.exit or (x.ast is not None and not in_subtree(x.ast, n.ast)) for x in inner)
            if not falls_back and not leaves:
                acc.add(n)
    # exceptional edges are followed only into handlers of this function (dispatch), not to the raise exit
    after = cfg.reach([m for m, l in pop_node.succ if l != 'exc'], avoid=acc,
                      edge_filter=lambda a, b, l: not (l == 'exc' and b is cfg.raise_exit))
    ok = head not in after
    detail = ''
    if not ok:
        # describe one offending path: find last node before head
        offenders = [x for x in after if any(m is head for m, l in x.succ)]
        detail = 'an iteration can finish with the popped name in neither RESULT, FAILED nor a work map; ' \
                 'path returns to the loop head from line(s) %s' % sorted(set(x.lineno for x in offenders if x.lineno))
    chk.ob('C07.R4b', 'compile/worklist-iteration(%s)' % popped, ok, where(r.mod, loop), detail)


def nonempty_guarded(for_ast):
    """`for x in N:` directly preceded (same block) by `if not N: raise ...` with N assigned once before."""
    if not isinstance(for_ast.iter, ast.Name):
        return False
    name = for_ast.iter.id
    blk = block_of(for_ast)
    idx = [i for i, s in enumerate(blk) if s is for_ast][0]
    guard = None
    for i, s in enumerate(blk[:idx]):
        if isinstance(s, ast.If) and isinstance(s.test, ast.UnaryOp) and isinstance(s.test.op, ast.Not) and \
                _key_is(s.test.operand, name) and s.body and isinstance(s.body[-1], ast.Raise) and not s.orelse:
            guard = i
    if guard is None:
        return False
    # no rebinding of N between the guard and the loop
    for s in blk[guard + 1:idx]:
        for x in ast.walk(s):
            if isinstance(x, ast.Name) and x.id == name and isinstance(x.ctx, ast.Store):
                return False
    return True


def guard_continue(cont, loop, popped):
    """`continue` directly under `if <popped> in X:` at the top level of the loop body."""
    p = getattr(cont, '_parent', None)
    if isinstance(p, ast.If) and p in loop.body and isinstance(p.test, ast.Compare) \
            and isinstance(p.test.ops[0], ast.In) and _key_is(p.test.left, popped):
        return True
    return False


def r5_failed_result_pairing(chk, rule='C07.R5'):
    r = cr.infer(chk.model)
    cfg = r.cfg
    chk.doc(rule, 'FAILED[k]=exc is accompanied by RESULT[k]=failed|missing on the same path; del FAILED[k] is '
                      'accompanied by removing/overwriting RESULT[k] or by moving k into a work map whose drain '
                      'overwrites RESULT[k] unconditionally')
    drains = drain_summary(r)
    n = 0
    for st in walk_no_nested(r.fn):
        ss = cr.subscript_store(st)
        if ss and ss[0] == r.failed and isinstance(ss[1], ast.Name):
            n += 1
            k = ss[1].id
            blk = block_of(st)
            ok = False
            # same block, or the sibling `if k not in RESULT:` idiom in the enclosing block
            for cand in sibling_stmts(st):
                s2 = cr.subscript_store(cand)
                if s2 and s2[0] == r.result and _key_is(s2[1], k) and \
                        cr.status_of(s2[2], r.status_consts) in ('failed', 'missing'):
                    ok = True
                if isinstance(cand, ast.If) and isinstance(cand.test, ast.Compare) and len(cand.test.ops) == 1 and \
                        isinstance(cand.test.ops[0], ast.NotIn) and _key_is(cand.test.left, k) and \
                        _key_is(cand.test.comparators[0], r.result) and any(
                        cr.subscript_store(b) and cr.subscript_store(b)[0] == r.result and
                        _key_is(cr.subscript_store(b)[1], k) and
                        cr.status_of(cr.subscript_store(b)[2], r.status_consts) in ('failed', 'missing')
                        for b in cand.body):
                    ok = True
            chk.ob(rule, 'compile/%s[%s]=exc#%d' % (r.failed, k, n), ok, where(r.mod, st),
                   'failure recorded without a failed/missing status for the same module')
        for d, kx in cr.del_targets(st):
            if d == r.failed and isinstance(kx, ast.Name):
                n += 1
                k = kx.id
                ok, why = False, ''
                for cand0 in sibling_stmts(st):
                    cands = [cand0]
                    if isinstance(cand0, ast.If) and isinstance(cand0.test, ast.Compare) and \
                            isinstance(cand0.test.ops[0], ast.In) and _key_is(cand0.test.left, k) and \
                            _key_is(cand0.test.comparators[0], r.result):
                        cands = list(cand0.body)   # `if k in RESULT: del RESULT[k]`
                    for cand in cands:
                        s2 = cr.subscript_store(cand)
                        if s2 and s2[0] == r.result and _key_is(s2[1], k):
                            ok = True
                        if s2 and s2[0] in r.work and _key_is(s2[1], k) and drains.get(s2[0]):
                            ok = True
                        pc = cr.pop_call(cand)
                        if pc and pc[0] == r.result and _key_is(pc[1], k):
                            ok = True
                        for dd, kk in cr.del_targets(cand):
                            if dd == r.result and _key_is(kk, k):
                                ok = True
                chk.ob(rule, 'compile/del %s[%s]#%d' % (r.failed, k, n), ok, where(r.mod, st),
                       'failure forgotten but the recorded failed status stays in RESULT (stale status)')
        pc = cr.pop_call(st)
        if pc and pc[0] == r.failed and isinstance(pc[1], ast.Name):
            n += 1
            k = pc[1].id
            ok = False
            for cand in sibling_stmts(st):
                s2 = cr.subscript_store(cand)
                if s2 and s2[0] == r.result and _key_is(s2[1], k):
                    ok = True
                if s2 and s2[0] in r.work and _key_is(s2[1], k) and drains.get(s2[0]):
                    ok = True
                pc2 = cr.pop_call(cand)
                if pc2 and pc2[0] == r.result and _key_is(pc2[1], k):
                    ok = True
                for dd, kk in cr.del_targets(cand):
                    if dd == r.result and _key_is(kk, k):
                        ok = True
            chk.ob(rule, 'compile/%s.pop(%s)#%d' % (r.failed, k, n), ok, where(r.mod, st),
                   'failure forgotten but the recorded failed status stays in RESULT (stale status)')
    # the converse: a failed / missing status is never recorded without the module entering the failed map (the map,
    # not the status, is what the abort guard, the borrow stage and the final report consult)
    for st in walk_no_nested(r.fn):
        ss = cr.subscript_store(st)
        if not (ss and ss[0] == r.result and isinstance(ss[1], ast.Name) and
                cr.status_of(ss[2], r.status_consts) in ('failed', 'missing')):
            continue
        k = ss[1].id
        cands = []
        for cand in sibling_stmts(st):
            cands.append(cand)
            if isinstance(cand, ast.If) and isinstance(cand.test, ast.Compare) and \
                    isinstance(cand.test.ops[0], ast.NotIn) and _key_is(cand.test.left, k) and \
                    _key_is(cand.test.comparators[0], r.failed) and not cand.orelse:
                cands.extend(cand.body)   # `if k not in FAILED: FAILED[k] = exc`
        ok = any(cr.subscript_store(c) and cr.subscript_store(c)[0] == r.failed and _key_is(cr.subscript_store(c)[1], k)
                 for c in cands)
        nconv = locals().get('nconv', 0) + 1
        chk.ob(rule, 'compile/%s[%s]=%s needs %s[%s]#%d' % (r.result, k, cr.status_of(ss[2], r.status_consts), r.failed,
                                                          k, nconv), ok, where(r.mod, st),
               'the module is reported %s but is not entered into %s: the abort guard and the borrow stage do not see '
               'the failure' % (cr.status_of(ss[2], r.status_consts), r.failed))
    # removals must use the key variable under which failures are recorded in the same loop nest
    for st in walk_no_nested(r.fn):
        removed = [k for d, k in cr.del_targets(st) if d == r.failed]
        pc = cr.pop_call(st)
        if pc and pc[0] == r.failed:
            removed.append(pc[1])
        for k in removed:
            loops = cr.enclosing_loops(st, r.fn)
            outer = loops[-1] if loops else None
            store_keys = set()
            for s2 in walk_no_nested(outer) if outer is not None else []:
                ss = cr.subscript_store(s2)
                if ss and ss[0] == r.failed:
                    store_keys.add(norm(ss[1]))
            lv = loop_var(outer) if outer is not None else None
            if lv:
                store_keys.add(lv)
            ok = norm(k) in store_keys
            if not ok:
                # forgetting under a further name is harmless when it is guarded (`if k in FAILED: del FAILED[k]`,
                # FAILED.pop(k, None)) and the name the failure is recorded under is forgotten in the same block
                guarded = (pc and pc[0] == r.failed and len(cr.stmt_of(pc[1], r.fn).value.args) > 1) or any(
                    isinstance(a, ast.If) and isinstance(a.test, ast.Compare) and len(a.test.ops) == 1 and
                    isinstance(a.test.ops[0], ast.In) and norm(a.test.left) == norm(k) and
                    _key_is(a.test.comparators[0], r.failed) and any(st is b or in_subtree(st, b) for b in a.body)
                    for a in [getattr(st, '_parent', None)])
                sibs = []
                blk = getattr(getattr(st, '_parent', None), '_parent', None) if guarded and pc is None else \
                    getattr(st, '_parent', None)
                for field in ('body', 'orelse'):
                    for x in getattr(blk, field, []) or []:
                        for y in ast.walk(x):
                            for d2, k2 in (cr.del_targets(y) if isinstance(y, ast.Delete) else []):
                                if d2 == r.failed:
                                    sibs.append(norm(k2))
                            pc2 = cr.pop_call(y) if isinstance(y, ast.Expr) else None
                            if pc2 and pc2[0] == r.failed:
                                sibs.append(norm(pc2[1]))
                ok = bool(guarded) and any(x in store_keys for x in sibs)
            if not ok and isinstance(k, ast.Name):
                # `for k in (a, b): if k in FAILED: del FAILED[k]` - forgetting under several names is fine as long
                # as the name the failure is recorded under is one of them
                for lp in loops:
                    if isinstance(lp, ast.For) and isinstance(lp.target, ast.Name) and lp.target.id == k.id and \
                            isinstance(lp.iter, (ast.Tuple, ast.List)):
                        ok = any(norm(e) in store_keys for e in lp.iter.elts)
            chk.ob(rule, 'compile/remove %s[..]-key(%s)' % (r.failed, norm(k)), ok, where(r.mod, st),
                   'failure is forgotten under key `%s` but recorded under %s' % (norm(k), sorted(store_keys)))
    chk.floor(rule, 5, '4 FAILED stores + FAILED removals')


def block_of(st):
    p = getattr(st, '_parent', None)
    for field in ('body', 'orelse', 'finalbody', 'handlers'):
        seq = getattr(p, field, None)
        if isinstance(seq, list) and any(s is st for s in seq):
            return seq
    return [st]


def sibling_stmts(st):
    """Statements of the same block; when the block is the body of an
    `if k in/not in X` guard also the statements of the enclosing block."""
    blk = list(block_of(st))
    p = getattr(st, '_parent', None)
    if isinstance(p, ast.If) and isinstance(p.test, ast.Compare) and isinstance(p.test.ops[0], (ast.In, ast.NotIn)):
        blk += list(block_of(p))
    return blk


def drain_summary(r):
    """work map -> True when every key put into it is later given a RESULT
    status unconditionally (directly in the loop that drains it)."""
    out = {}
    for w in r.work:
        ok = False
        for loop in [n for n in walk_no_nested(r.fn) if isinstance(n, ast.For)]:
            it = loop.iter
            src = None
            if isinstance(it, ast.Call) and isinstance(it.func, ast.Attribute) and it.func.attr == 'copy' and \
                    isinstance(it.func.value, ast.Name):
                src = it.func.value.id
            elif isinstance(it, ast.Call) and dotted_name(it.func) in ('tuple', 'list') and it.args and \
                    isinstance(it.args[0], ast.Name):
                src = it.args[0].id
            elif isinstance(it, ast.Name):
                src = it.id
            if src != w or not isinstance(loop.target, ast.Name):
                continue
            k = loop.target.id
            cfg = r.cfg
            head = cfg.by_ast[id(loop)]
            stores = set(n for n in cfg.nodes if n.kind == 'stmt' and cr.subscript_store(n.ast) and
                         cr.subscript_store(n.ast)[0] == r.result and _key_is(cr.subscript_store(n.ast)[1], k))
            start = [m for m, l in head.succ if l == 'T']
            reach = cfg.reach(start, avoid=stores | set([head]),
                              edge_filter=lambda a, b, l: not (l == 'exc' and b is cfg.raise_exit))
            # does any path come back to the head (or leave the loop) without a RESULT store?
            back = any(any(m is head for m, l in x.succ) for x in reach) or any(
                x.ast is not None and not in_subtree(x.ast, loop) for x in reach)
            if not back:
                ok = True
        out[w] = ok
    return out


def r6_single_writer_site(chk):
    r = cr.infer(chk.model)
    cfg = r.cfg
    chk.doc('C07.R6', 'one putData site in compile(), inside a loop over the built map; statusCompiled is stored in '
                      'the try body after putData returned; the handler stores statusFailed with error=; the text '
                      'argument is the unmodified third component stored by the codegen/borrow stage')
    puts = r.calls.get('putData', [])
    chk.ob('C07.R6', 'compile/putData-sites', len(puts) == 1, where(r.mod, r.fn), '%d putData call sites' % len(puts))
    if len(puts) != 1:
        return
    call = puts[0]
    st = cr.stmt_of(call, r.fn)
    loop = cr.enclosing_loop(st, r.fn)
    loops = cr.enclosing_loops(st, r.fn)
    ok = len(loops) == 1 and isinstance(loops[0], ast.For)
    chk.ob('C07.R6', 'compile/putData-in-single-loop', ok, where(r.mod, call),
           'putData must sit in exactly one per-module loop (nesting depth %d)' % len(loops))
    if not ok:
        return
    loop = loops[0]
    k = loop.target.id if isinstance(loop.target, ast.Name) else None
    built = iter_source(loop)
    chk.ob('C07.R6', 'compile/putData-loop-over-built-map', built in r.work, where(r.mod, loop),
           'loop iterates %s' % norm(loop.iter))
    # first argument is the loop key
    chk.ob('C07.R6', 'compile/putData-name-arg', bool(call.args) and _key_is(call.args[0], k), where(r.mod, call),
           'first argument must be the module name of the iteration')
    # text argument provenance: unpacked from built[k] third component
    data_ok, data_detail = False, ''
    if len(call.args) >= 2 and isinstance(call.args[1], ast.Name):
        dv = call.args[1].id
        for s in loop.body:
            if isinstance(s, ast.Assign) and isinstance(s.targets[0], ast.Tuple) and \
                    isinstance(s.value, ast.Subscript) and _key_is(s.value.value, built) and \
                    _key_is(s.value.slice, k):
                elts = s.targets[0].elts
                if len(elts) == 3 and isinstance(elts[2], ast.Name) and elts[2].id == dv:
                    data_ok = True
        # and never reassigned in the loop
        for s in walk_no_nested(loop):
            if isinstance(s, (ast.Assign, ast.AugAssign)) and s not in loop.body[:1]:
                tg = s.targets if isinstance(s, ast.Assign) else [s.target]
                for t in tg:
                    if isinstance(t, ast.Name) and t.id == dv:
                        data_ok, data_detail = False, 'text variable reassigned at line %s' % s.lineno
    chk.ob('C07.R6', 'compile/putData-text-arg', data_ok, where(r.mod, call),
           data_detail or 'second argument must be the third component of %s[%s]' % (built, k))
    # compiled status after putData, in try body
    pn = cfg.node_of(st)
    trys = enclosing_trys(st, r.fn)
    comp_nodes = [n for n in cfg.nodes if n.kind == 'stmt' and cr.subscript_store(n.ast) and
                  cr.subscript_store(n.ast)[0] == r.result and
                  cr.status_of(cr.subscript_store(n.ast)[2], r.status_consts) == 'compiled']
    chk.ob('C07.R6', 'compile/compiled-stores', len(comp_nodes) == 1, where(r.mod, r.fn),
           '%d stores of the compiled status' % len(comp_nodes))
    for cn in comp_nodes:
        # the test node of `if writeMibs` dominates putData; compiled must be unreachable from putData's exc edge
        # and every path entry->compiled inside the iteration passes the putData node or the writeMibs-false edge
        exc_reach = cfg.reach([m for m, l in pn.succ if l == 'exc'], avoid=[cfg.by_ast[id(loop)]])
        ok1 = cn not in exc_reach
        same_try = bool(trys) and in_subtree(cn.ast, trys[0]) and any(in_subtree(cn.ast, s) for s in trys[0].body)
        # paths from loop head to compiled-store avoiding putData must go through a false edge of a test that
        # dominates putData (the writeMibs switch)
        head = cfg.by_ast[id(loop)]
        guards = [n for n in cfg.nodes if n.kind == 'test' and cfg.dominates(n, pn) and in_subtree(n.ast, loop)]
        avoid = set([pn]) | set(guards)
        bypass = cn in cfg.reach([m for m, l in head.succ if l == 'T'], avoid=avoid)
        chk.ob('C07.R6', 'compile/compiled-after-putData', ok1 and same_try and not bypass, where(r.mod, cn.ast),
               'compiled status reachable %s' % ('from a failing putData' if not ok1 else
                                                 'outside the try body' if not same_try else 'bypassing putData'))
    # handler stores failed with error=
    if trys:
        h = cr.handler_covering(chk.model, r.mod, trys[0], WIDE)
        ok = False
        if h is not None:
            for s in walk_no_nested(h):
                ss = cr.subscript_store(s)
                if ss and ss[0] == r.result and _key_is(ss[1], k) and cr.status_of(ss[2], r.status_consts) == 'failed' \
                        and isinstance(ss[2], ast.Call) and any(kw.arg == 'error' for kw in ss[2].keywords):
                    ok = True
        chk.ob('C07.R6', 'compile/write-failure-status', ok, where(r.mod, trys[0]),
               'writer failure must be recorded as failed with error=')
    # in every handler that files a module in the failed map, the failed status is stored on every path through the
    # handler (no `if name not in <result>` round it: a status recorded earlier, e.g. borrowed, would survive a failure)
    for h in [x for x in walk_no_nested(r.fn) if isinstance(x, ast.ExceptHandler)]:
        fstores = [s for s in walk_no_nested(h) if cr.subscript_store(s) and cr.subscript_store(s)[0] == r.failed]
        if not fstores:
            continue
        hn = cfg.by_ast.get(id(h))
        rstores = set(cfg.node_of(s) for s in walk_no_nested(h) if cr.subscript_store(s) and
                      cr.subscript_store(s)[0] == r.result and
                      cr.status_of(cr.subscript_store(s)[2], r.status_consts) == 'failed')
        rstores.discard(None)
        if hn is None:
            continue
        seen = cfg.reach([hn], avoid=rstores, skip_labels=('exc',))
        leaves = [n for n in seen if n.ast is not None and not in_subtree(n.ast, h)]
        chk.ob('C07.R6', 'compile/failed-status-on-every-path@%s' % handler_label(chk, r, h), not leaves, where(r.mod, h),
               'the handler files the module under %s but can be left without storing the failed status in %s' % (
                   r.failed, r.result))
    # failed entries carry the causing error everywhere
    for s in walk_no_nested(r.fn):
        ss = cr.subscript_store(s)
        if ss and ss[0] == r.result and cr.status_of(ss[2], r.status_consts) == 'failed':
            has = isinstance(ss[2], ast.Call) and any(
                kw.arg == 'error' and isinstance(kw.value, ast.Name) for kw in ss[2].keywords)
            h = enclosing_handler(s)
            good = has and h is not None and [kw for kw in ss[2].keywords if kw.arg == 'error'][0].value.id in \
                r.exc_vars.get(id(h), ())
            chk.ob('C07.R6', 'compile/failed-carries-error@%s' % handler_label(chk, r, h), good, where(r.mod, s),
                   'failed status must carry error=<the caught exception>')


def enclosing_handler(st):
    a = getattr(st, '_parent', None)
    while a is not None:
        if isinstance(a, ast.ExceptHandler):
            return a
        if isinstance(a, ast.FunctionDef):
            return None
        a = getattr(a, '_parent', None)
    return None


def handler_label(chk, r, h):
    if h is None:
        return 'no-handler'
    t = getattr(h, '_parent', None)
    calls = [n.func.attr for s in t.body for n in ast.walk(s)
             if isinstance(n, ast.Call) and isinstance(n.func, ast.Attribute) and n.func.attr in cr.PROTOCOL]
    return '+'.join(calls) or 'try'


def iter_source(loop):
    it = loop.iter
    if isinstance(it, ast.Call) and isinstance(it.func, ast.Attribute) and it.func.attr in ('copy', 'keys') and \
            isinstance(it.func.value, ast.Name):
        return it.func.value.id
    if isinstance(it, ast.Call) and dotted_name(it.func) in ('tuple', 'list', 'sorted') and it.args:
        a = it.args[0]
        if isinstance(a, ast.Name):
            return a.id
        if isinstance(a, ast.Call) and isinstance(a.func, ast.Attribute) and isinstance(a.func.value, ast.Name):
            return a.func.value.id
    if isinstance(it, ast.Name):
        return it.id
    return None


def r7_foreign_exceptions(chk):
    """(a) every raise in lexer / parser / codegen names a package error class;
    (c) jinja errors converted in both template back-ends;
    (d) guarded table lookups in the code generators."""
    model = chk.model
    chk.doc('C07.R7a', 'every `raise` in pysmi/lexer, pysmi/parser, pysmi/codegen names a PySmiError subclass '
                       '(NotImplementedError stubs of abstract bases excepted)')
    n = 0
    for rel, mod in sorted(model.modules.items()):
        if not (rel.startswith('pysmi/lexer/') or rel.startswith('pysmi/parser/') or rel.startswith('pysmi/codegen/')):
            continue
        chk.unit(rel)
        for node in ast.walk(mod.tree):
            if not isinstance(node, ast.Raise):
                continue
            fn = common.enclosing_function(node)
            qn = common.qualname(fn) if fn else '<module>'
            if node.exc is None:
                # bare re-raise inside a handler passes on whatever was raised; it creates no new exception type
                inside = False
                a_ = getattr(node, '_parent', None)
                while a_ is not None and not isinstance(a_, ast.FunctionDef):
                    if isinstance(a_, ast.ExceptHandler):
                        inside = True
                    a_ = getattr(a_, '_parent', None)
                chk.ob('C07.R7a', '%s:%s/bare-raise' % (rel, qn), inside, where(mod, node), 'bare raise outside a handler')
                continue
            exc = node.exc.func if isinstance(node.exc, ast.Call) else node.exc
            anc = model.exc_ancestors(mod, exc)
            name = anc[0] if anc else norm(exc)
            if name == 'NotImplementedError' and fn is not None and len(fn.body) == 1:
                continue
            if name == 'ImportError' and fn is None:
                continue  # import fallback at module level
            n += 1
            chk.ob('C07.R7a', '%s:%s/raise %s' % (rel, qn, name), 'PySmiError' in anc, where(mod, node),
                   'raises %s, not a PySmiError subclass' % name)
    chk.floor('C07.R7a', 25, 'raise sites in lexer/parser/codegen')

    chk.doc('C07.R7c', 'get_template/render sit in a try whose handler catches jinja2.exceptions.TemplateError '
                       '(the base) or wider and raises PySmiCodegenError; the statements between '
                       'IntermediateCodeGen.genCode and the try cannot raise foreign errors on a str/list mix-up')
    for rel, cname in (('pysmi/codegen/pysnmp.py', 'PySnmpCodeGen'), ('pysmi/codegen/jsondoc.py', 'JsonCodeGen')):
        owner, fn = model.method(rel, cname, 'genCode')
        mod = owner.mod
        for attr in ('get_template', 'render'):
            calls = [c for c in walk_no_nested(fn) if isinstance(c, ast.Call) and isinstance(c.func, ast.Attribute)
                     and c.func.attr == attr]
            if not calls:
                chk.ob('C07.R7c', '%s.genCode/%s' % (cname, attr), False, where(mod, fn), 'no %s call found' % attr)
            for c in calls:
                st = cr.stmt_of(c, fn)
                ok, detail = False, 'not inside a try'
                for t in enclosing_trys(st, fn):
                    for h in t.handlers:
                        names = cr.handler_type_names(model, mod, h)
                        if any(x in ('jinja2.exceptions.TemplateError', 'jinja2.TemplateError', 'Exception',
                                     'BaseException', 'TemplateError') for x in names):
                            rs = [x for x in walk_no_nested(h) if isinstance(x, ast.Raise) and x.exc is not None]
                            good = [x for x in rs if 'PySmiError' in model.exc_ancestors(
                                mod, x.exc.func if isinstance(x.exc, ast.Call) else x.exc)]
                            ok = bool(good)
                            detail = 'handler does not raise a package error'
                        else:
                            detail = 'handler catches only %s' % names
                chk.ob('C07.R7c', '%s.genCode/%s' % (cname, attr), ok, where(mod, c), '' if ok else detail)
        # searchPath must be a list when .insert is called on it
        for c in walk_no_nested(fn):
            if isinstance(c, ast.Call) and isinstance(c.func, ast.Attribute) and c.func.attr == 'insert' and \
                    isinstance(c.func.value, ast.Name):
                var = c.func.value.id
                init = [s for s in fn.body if isinstance(s, ast.Assign) and _key_is(s.targets[0], var)]
                ok = bool(init) and isinstance(init[0].value, (ast.List, ast.ListComp))
                chk.ob('C07.R7c', '%s.genCode/%s.insert' % (cname, var), ok, where(mod, c),
                       '%s is initialised as %s, not a list' % (var, norm(init[0].value)[:40] if init else '?'))
    chk.floor('C07.R7c', 6, 'get_template/render/insert in two back-ends')

    chk.doc('C07.R7d', 'a subscript load <table>[k] on symbolTable / symbolTable[m] / _importMap with a key derived '
                       'from MIB text is dominated by a membership test of the same key, or sits in a try that '
                       'converts to a package error (keys self.moduleName[0] and _symtable_* are own-module keys)')
    owner = model.cls('pysmi/codegen/intermediate.py', 'IntermediateCodeGen')
    mod = owner.mod
    cnt = 0
    for fname, fn in sorted(owner.methods.items()):
        for sub in walk_no_nested(fn):
            if not (isinstance(sub, ast.Subscript) and isinstance(sub.ctx, ast.Load)):
                continue
            base = norm(sub.value)
            if base not in ('self.symbolTable', 'self._importMap') and not (
                    isinstance(sub.value, ast.Subscript) and norm(sub.value.value) == 'self.symbolTable'):
                continue
            keytxt = norm(sub.slice)
            if isinstance(sub.slice, ast.Constant) or keytxt == 'self.moduleName[0]':
                continue
            cnt += 1
            guarded = common.guarded_by_membership(fn, sub) or any(
                any(h.type is None or cr.handler_type_names(model, mod, h)[0] in ('Exception', 'BaseException',
                                                                                    'KeyError', 'LookupError')
                    for h in t.handlers) for t in enclosing_trys(cr.stmt_of(sub, fn), fn))
            chk.ob('C07.R7d', 'IntermediateCodeGen.%s/%s[%s]' % (fname, base, keytxt), guarded, where(mod, sub),
                   'unguarded table lookup with a MIB-derived key raises KeyError for a MIB defect')
    chk.floor('C07.R7d', 3, 'table lookups in genNumericOid/getBaseType/genDefVal')


def r8_closure_discovery(chk):
    """Every module reachable through IMPORTS gets a status only if it is discovered: the work list must grow by
    the complete import list of every analysed module (same rule as C08.R1)."""
    from rules.C08 import r1_worklist_growth
    r1_worklist_growth(chk, rule='C07.R8')


def r9_wellformedness(chk):
    rels = sorted(r for r in chk.model.modules if r.startswith(('pysmi/compiler.py', 'pysmi/mibinfo.py', 'pysmi/codegen/', 'pysmi/parser/', 'pysmi/lexer/')))
    common.wellformedness(chk, 'C07.R9', rels, floor=100)
    common.part_handlers_return(chk, 'C07.R9', 'pysmi/codegen/intermediate.py', 'IntermediateCodeGen')
    common.part_handlers_return(chk, 'C07.R9', 'pysmi/codegen/symtable.py', 'SymtableCodeGen')
    common.contradictory_lookups(chk, 'C07.R9', sorted(r for r in chk.model.modules if r.startswith(('pysmi/', 'scripts/'))))




def t1_typestate(chk):
    """typestate analysis of compile() (rules/compile_ts.py): end-to-end bookkeeping invariants for an arbitrary
    module over every outcome of every component call"""
    from rules import compile_ts
    compile_ts.ts_rule(chk, 'C07.T1', ['escape', 'accounted', 'status-effect', 'once', 'verbatim', 'failed-pairing', 'stale-failure', 'failure-forgotten', 'missing-reported', 'borrow-status', 'own-key'])



def r10_generators_start_clean(chk):
    """compile() drives one symbol-table generator and one code generator through all modules of a call (and of later
    calls): whatever a failed module leaves behind in them reaches the next module - shared with C12.R2"""
    from rules.C12 import r2_generator_reset
    common.reuse(chk, r2_generator_reset, ('C12.R2',), 'C07.R10',
                 'both generators re-initialise, at the start of genCode, every attribute their handlers write '
                 '(postponed symbols, rows, columns, import map, records ...): one bad module must not make the '
                 'modules after it fail or come out differently (C12.R2)', floor=12)



def r11_format_arity(chk):
    """a message that cannot be built turns a package error into a TypeError that leaves compile()"""
    common.format_arity(chk, 'C07.R11', sorted(r for r in chk.model.modules if r.startswith('pysmi/')), floor=60)



def r_absent_values_C07_R12(chk):
    """optional clause parts are used where they are present, not where they are absent"""
    common.no_value_taken_from_an_absent_operand(chk, 'C07.R12', sorted(r for r in chk.model.modules if r.startswith('pysmi/')), floor=2)



def r13_handlers_do_something(chk):
    """a semantic defect that is caught and dropped is a module silently missing a default, a revision, a status"""
    # code generators, parser, lexer: here a dropped exception is a silently wrong document.  (The component protocol
    # code - compile(), readers, searchers, writers - legitimately passes over "not found" / clean-up failures; those
    # handlers are judged by the CFG rules and the typestate analysis.)
    rels = sorted(r for r in chk.model.modules if r.startswith(('pysmi/codegen/', 'pysmi/parser/', 'pysmi/lexer/')))
    common.handlers_do_something(chk, 'C07.R13', rels, floor=5)



def r14_parser_starts_each_module_clean(chk):
    """shared with C12.R1: compile() parses every module of a call with the same parser object"""
    from rules.C12 import r1_parser_reset
    common.reuse(chk, lambda c: r1_parser_reset(c), ('C12.R1',), 'C07.R14',
                 'the parser / lexer reset restores the start state and the line counter on every path (C12.R1): '
                 'compile() uses one parser for all modules of a call, so a lexer left inside a MACRO body or a comment by '
                 'one (bad or oddly terminated) module makes the next good module fail and go unwritten', floor=2)


RULES = [r9_wellformedness, r1_containment, r2_no_package_raise_escapes, r3_status_values, r4_no_silent_drop, r4b_popped_name_accounted,
         r5_failed_result_pairing, r6_single_writer_site, r7_foreign_exceptions,
         r8_closure_discovery, t1_typestate, r10_generators_start_clean, r11_format_arity, r_absent_values_C07_R12, r13_handlers_do_something, r14_parser_starts_each_module_clean]
