"""Model of the intermediate representation built by IntermediateCodeGen: per clause handler the record class,
the keys stored (with their guards and value expressions), the regSym call; per sub-part handler the keys of the
records it builds.  Shared by C03 C04 C06 C15 C16 C18."""
import ast

from vt.model import walk_no_nested, norm, dotted_name
from vt.runner import AnalysisError
from rules import common

INTER = 'pysmi/codegen/intermediate.py'
SYMTAB = 'pysmi/codegen/symtable.py'

CLAUSES = ('agentCapabilitiesClause', 'moduleIdentityClause', 'moduleComplianceClause', 'notificationGroupClause',
           'notificationTypeClause', 'objectGroupClause', 'objectIdentityClause', 'objectTypeClause',
           'trapTypeClause', 'typeDeclaration', 'valueDeclaration')


def handlers_table(ci):
    o, tbl = ci.find_attr('handlersTable')
    if not isinstance(tbl, ast.Dict):
        raise AnalysisError('%s.handlersTable is not a dict display' % ci.name)
    d = {}
    for k, v in zip(tbl.keys, tbl.values):
        if isinstance(k, ast.Constant):
            d[k.value] = v.id if isinstance(v, ast.Name) else norm(v)
    return d


class Store(object):
    def __init__(self, var, key, value, node, guards):
        self.var, self.key, self.value, self.node, self.guards = var, key, value, node, guards


def record_stores(fn):
    """stores `X['k'] = v` / OrderedDict(k=v) / OrderedDict({'k': v}) initialisers, with the enclosing if-tests"""
    out = []
    for n in walk_no_nested(fn):
        if isinstance(n, ast.Assign) and len(n.targets) == 1:
            t = n.targets[0]
            if isinstance(t, ast.Subscript) and isinstance(t.slice, ast.Constant) and isinstance(t.slice.value, str):
                base = t.value
                path = []
                while isinstance(base, ast.Subscript) and isinstance(base.slice, ast.Constant):
                    path.append(base.slice.value)
                    base = base.value
                if isinstance(base, ast.Name):
                    out.append(Store(base.id, tuple(reversed(path)) + (t.slice.value,), n.value, n, guards_of(n, fn)))
            if isinstance(t, ast.Name) and isinstance(n.value, ast.Call) and dotted_name(n.value.func) in (
                    'OrderedDict', 'dict'):
                for kw in n.value.keywords:
                    if kw.arg:
                        out.append(Store(t.id, (kw.arg,), kw.value, n, guards_of(n, fn)))
                for a in n.value.args:
                    if isinstance(a, ast.Dict):
                        for k, v in zip(a.keys, a.values):
                            if isinstance(k, ast.Constant):
                                out.append(Store(t.id, (k.value,), v, n, guards_of(n, fn)))
            if isinstance(t, ast.Name) and isinstance(n.value, ast.Dict):
                for k, v in zip(n.value.keys, n.value.values):
                    if isinstance(k, ast.Constant) and isinstance(k.value, str):
                        out.append(Store(t.id, (k.value,), v, n, guards_of(n, fn)))
        if isinstance(n, ast.Expr) and isinstance(n.value, ast.Call) and isinstance(n.value.func, ast.Attribute) and \
                n.value.func.attr == 'update' and isinstance(n.value.func.value, ast.Name):
            for kw in n.value.keywords:
                if kw.arg:
                    out.append(Store(n.value.func.value.id, (kw.arg,), kw.value, n, guards_of(n, fn)))
    return out


def guards_of(node, fn):
    out = []
    child, a = node, getattr(node, '_parent', None)
    while a is not None and a is not fn:
        if isinstance(a, ast.If):
            in_body = any(common._within(child, s) for s in a.body)
            out.append((a.test, in_body))
        child, a = a, getattr(a, '_parent', None)
    return list(reversed(out))


def conjuncts(test):
    if isinstance(test, ast.BoolOp) and isinstance(test.op, ast.And):
        out = []
        for v in test.values:
            out.extend(conjuncts(v))
        return out
    return [test]


class Clause(object):
    pass


def clause_model(model):
    cached = model.__dict__.get('_ir_clauses')
    if cached is not None:
        return cached
    ci = model.cls(INTER, 'IntermediateCodeGen')
    tbl = handlers_table(ci)
    out = {}
    for tag in CLAUSES:
        hname = tbl.get(tag)
        o, fn = ci.find_method(hname) if hname else (None, None)
        if fn is None:
            raise AnalysisError('IntermediateCodeGen has no handler for %s' % tag)
        c = Clause()
        c.tag, c.fn, c.name = tag, fn, hname
        c.dparam = fn.args.args[1].arg
        # unpack of data
        c.unpack = None
        for st in fn.body:
            if isinstance(st, ast.Assign) and isinstance(st.value, ast.Name) and st.value.id == c.dparam and \
                    isinstance(st.targets[0], ast.Tuple):
                c.unpack = [e.id if isinstance(e, ast.Name) else None for e in st.targets[0].elts]
        c.stores = [s for s in record_stores(fn)]
        c.regs = [n for n in walk_no_nested(fn) if isinstance(n, ast.Call) and isinstance(n.func, ast.Attribute) and
                  n.func.attr == 'regSym' and isinstance(n.func.value, ast.Name) and n.func.value.id == 'self']
        c.record_var = None
        if c.regs and len(c.regs[0].args) >= 2 and isinstance(c.regs[0].args[1], ast.Name):
            c.record_var = c.regs[0].args[1].id
        cls = [s for s in c.stores if s.var == c.record_var and s.key == ('class',)]
        c.classes = [s.value.value for s in cls if isinstance(s.value, ast.Constant)]
        out[tag] = c
    model.__dict__['_ir_clauses'] = out
    return out


def record_keys(model, method_names):
    """keys of the dict records built in the given IntermediateCodeGen methods: {var: set(keys)} merged"""
    ci = model.cls(INTER, 'IntermediateCodeGen')
    keys = set()
    for m in method_names:
        o, fn = ci.find_method(m)
        if fn is None:
            raise AnalysisError('IntermediateCodeGen.%s missing' % m)
        for s in record_stores(fn):
            keys.add(s.key)
        for n in ast.walk(fn):
            if isinstance(n, ast.Dict):
                for k in n.keys:
                    if isinstance(k, ast.Constant) and isinstance(k.value, str):
                        keys.add((k.value,))
    return keys


# ---------------------------------------------------------------------------------------------------------------------
def _stmt_of(node):
    from rules import common
    return common.stmt_of(node)


def elementwise_collectors(chk, rule, ci, methods, floor):
    """Handlers that turn a list of clause elements into a list of records: the accumulator is a list created empty
    before the loop, every iteration that does not raise adds to it (no path round the loop body avoids the add), and
    the accumulator itself is what the handler returns - so the output has one entry per input element, in order,
    duplicates included."""
    from vt.cfg import CFG
    from vt.runner import where
    chk.doc(rule, 'element-wise collectors (%s): accumulator = [] before the loop; on every non-raising path through '
                  'the loop body one element is appended; the accumulator is returned as it is (no keyed container, '
                  'no set(), no de-duplication)' % ', '.join(methods))
    n = 0
    for mname in methods:
        o, fn = ci.find_method(mname)
        if fn is None:
            chk.ob(rule, '%s/present' % mname, False, ci.mod.rel, 'handler %s is missing' % mname)
            continue
        loops = [s for s in fn.body if isinstance(s, ast.For)]
        rets = [s for s in walk_no_nested(fn) if isinstance(s, ast.Return) and s.value is not None]
        if not loops or not rets:
            chk.ob(rule, '%s/shape' % mname, False, where(o.mod, fn), 'no top-level loop or no returned value')
            continue
        loop = loops[0]
        # the accumulator: a name that is returned (bare, or as a member of a returned tuple) and grows inside the loop
        grown = {}
        for s in ast.walk(loop):
            if isinstance(s, ast.Call) and isinstance(s.func, ast.Attribute) and s.func.attr in ('append', 'extend') \
                    and isinstance(s.func.value, ast.Name):
                grown.setdefault(s.func.value.id, []).append(_stmt_of(s))
            if isinstance(s, ast.AugAssign) and isinstance(s.op, ast.Add) and isinstance(s.target, ast.Name):
                grown.setdefault(s.target.id, []).append(s)
        returned = []
        for r in rets:
            v = r.value
            els = v.elts if isinstance(v, ast.Tuple) else (v.values if isinstance(v, ast.Dict) else [v])
            for e in els:
                if isinstance(e, ast.Name) and e.id not in returned:
                    returned.append(e.id)
        acc = [x for x in returned if x in grown]   # the first one is the per-element list
        ok = len(acc) >= 1
        chk.ob(rule, '%s/accumulator-returned' % mname, ok, where(o.mod, fn),
               'the list filled by the loop (%s) must be what the handler returns (returns: %s)' % (
                   sorted(grown), [norm(r.value)[:50] for r in rets]))
        if not ok:
            continue
        a = acc[0]
        n += 1
        inits, init_vals = [], []
        for st in fn.body[:fn.body.index(loop)]:
            if isinstance(st, ast.Assign) and len(st.targets) == 1:
                t, v = st.targets[0], st.value
                if norm(t) == a:
                    inits.append(st)
                    init_vals.append(v)
                elif isinstance(t, ast.Tuple) and isinstance(v, ast.Tuple) and len(t.elts) == len(v.elts):
                    for te, ve in zip(t.elts, v.elts):
                        if norm(te) == a:
                            inits.append(st)
                            init_vals.append(ve)
        ok = len(inits) == 1 and isinstance(init_vals[0], ast.List) and not init_vals[0].elts
        chk.ob(rule, '%s/accumulator-is-empty-list' % mname, ok, where(o.mod, inits[0] if inits else fn),
               '%s starts as %s' % (a, norm(init_vals[0]) if init_vals else 'nothing'))
        others = [s for s in ast.walk(fn) if isinstance(s, (ast.Assign, ast.AugAssign, ast.Delete)) and s not in inits
                  and s not in grown[a] and any(isinstance(t, (ast.Name, ast.Subscript)) and norm(t).split('[')[0] == a
                                                for t in (s.targets if not isinstance(s, ast.AugAssign) else [s.target])
                                                if not isinstance(t, ast.Tuple))]
        chk.ob(rule, '%s/accumulator-only-grows' % mname, not others, where(o.mod, others[0] if others else fn),
               '%s is also written by %s' % (a, [norm(s)[:60] for s in others]))
        cfg = CFG(fn)
        it = cfg.node_of(loop)
        adds = set(cfg.node_of(s) for s in grown[a] if cfg.node_of(s) is not None)
        seen = cfg.reach_from_edges([(it, 'T')], avoid=adds)
        skipping = it in seen
        early = [x for x in ast.walk(loop) if isinstance(x, ast.Return)]
        stack = [(c, False) for c in loop.body]
        while stack:
            x, inner = stack.pop()
            if isinstance(x, ast.Break) and not inner:
                early.append(x)
            for c in ast.iter_child_nodes(x):
                stack.append((c, inner or isinstance(x, (ast.For, ast.While))))
        chk.ob(rule, '%s/loop-runs-to-exhaustion' % mname, not early, where(o.mod, early[0] if early else loop),
               'the loop can be left before the last element (%s): later elements are dropped' % (
                   norm(early[0]) if early else ''))
        chk.ob(rule, '%s/every-element-added' % mname, not skipping, where(o.mod, loop),
               'an iteration can finish without adding to %s: the element is dropped from the output' % a)
    chk.floor(rule, floor, 'collector handlers')

