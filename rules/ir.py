"""Model of the intermediate representation built by IntermediateCodeGen: per clause handler the record class,
the keys stored (with their guards and value expressions), the regSym call; per sub-part handler the keys of the
records it builds.  Shared by C03 C04 C06 C15 C16 C18."""
import ast

from vt.model import walk_no_nested, norm, dotted_name
from vt.runner import AnalysisError
from rules import common

INTER = 'pysmi/codegen/intermediate.py'
SYMTAB = 'pysmi/codegen/symtable.py'

CLAUSES = ('agentCapabilitiesClause', 'moduleIdentityClause', 'moduleComplianceClause', 'notificationGroupClause',
           'notificationTypeClause', 'objectGroupClause', 'objectIdentityClause', 'objectTypeClause',
           'trapTypeClause', 'typeDeclaration', 'valueDeclaration')


def handlers_table(ci):
    o, tbl = ci.find_attr('handlersTable')
    if not isinstance(tbl, ast.Dict):
        raise AnalysisError('%s.handlersTable is not a dict display' % ci.name)
    d = {}
    for k, v in zip(tbl.keys, tbl.values):
        if isinstance(k, ast.Constant):
            d[k.value] = v.id if isinstance(v, ast.Name) else norm(v)
    return d


class Store(object):
    def __init__(self, var, key, value, node, guards):
        self.var, self.key, self.value, self.node, self.guards = var, key, value, node, guards


def record_stores(fn):
    """stores `X['k'] = v` / OrderedDict(k=v) / OrderedDict({'k': v}) initialisers, with the enclosing if-tests"""
    out = []
    for n in walk_no_nested(fn):
        if isinstance(n, ast.Assign) and len(n.targets) == 1:
            t = n.targets[0]
            if isinstance(t, ast.Subscript) and isinstance(t.slice, ast.Constant) and isinstance(t.slice.value, str):
                base = t.value
                path = []
                while isinstance(base, ast.Subscript) and isinstance(base.slice, ast.Constant):
                    path.append(base.slice.value)
                    base = base.value
                if isinstance(base, ast.Name):
                    out.append(Store(base.id, tuple(reversed(path)) + (t.slice.value,), n.value, n, guards_of(n, fn)))
            if isinstance(t, ast.Name) and isinstance(n.value, ast.Call) and dotted_name(n.value.func) in (
                    'OrderedDict', 'dict'):
                for kw in n.value.keywords:
                    if kw.arg:
                        out.append(Store(t.id, (kw.arg,), kw.value, n, guards_of(n, fn)))
                for a in n.value.args:
                    if isinstance(a, ast.Dict):
                        for k, v in zip(a.keys, a.values):
                            if isinstance(k, ast.Constant):
                                out.append(Store(t.id, (k.value,), v, n, guards_of(n, fn)))
            if isinstance(t, ast.Name) and isinstance(n.value, ast.Dict):
                for k, v in zip(n.value.keys, n.value.values):
                    if isinstance(k, ast.Constant) and isinstance(k.value, str):
                        out.append(Store(t.id, (k.value,), v, n, guards_of(n, fn)))
        if isinstance(n, ast.Expr) and isinstance(n.value, ast.Call) and isinstance(n.value.func, ast.Attribute) and \
                n.value.func.attr == 'update' and isinstance(n.value.func.value, ast.Name):
            for kw in n.value.keywords:
                if kw.arg:
                    out.append(Store(n.value.func.value.id, (kw.arg,), kw.value, n, guards_of(n, fn)))
    return out


def guards_of(node, fn):
    out = []
    child, a = node, getattr(node, '_parent', None)
    while a is not None and a is not fn:
        if isinstance(a, ast.If):
            in_body = any(common._within(child, s) for s in a.body)
            out.append((a.test, in_body))
        child, a = a, getattr(a, '_parent', None)
    return list(reversed(out))


def conjuncts(test):
    if isinstance(test, ast.BoolOp) and isinstance(test.op, ast.And):
        out = []
        for v in test.values:
            out.extend(conjuncts(v))
        return out
    return [test]


class Clause(object):
    pass


def clause_model(model):
    cached = model.__dict__.get('_ir_clauses')
    if cached is not None:
        return cached
    ci = model.cls(INTER, 'IntermediateCodeGen')
    tbl = handlers_table(ci)
    out = {}
    for tag in CLAUSES:
        hname = tbl.get(tag)
        o, fn = ci.find_method(hname) if hname else (None, None)
        if fn is None:
            raise AnalysisError('IntermediateCodeGen has no handler for %s' % tag)
        c = Clause()
        c.tag, c.fn, c.name = tag, fn, hname
        c.dparam = fn.args.args[1].arg
        # unpack of data
        c.unpack = None
        for st in fn.body:
            if isinstance(st, ast.Assign) and isinstance(st.value, ast.Name) and st.value.id == c.dparam and \
                    isinstance(st.targets[0], ast.Tuple):
                c.unpack = [e.id if isinstance(e, ast.Name) else None for e in st.targets[0].elts]
        c.stores = [s for s in record_stores(fn)]
        c.regs = [n for n in walk_no_nested(fn) if isinstance(n, ast.Call) and isinstance(n.func, ast.Attribute) and
                  n.func.attr == 'regSym' and isinstance(n.func.value, ast.Name) and n.func.value.id == 'self']
        c.record_var = None
        if c.regs and len(c.regs[0].args) >= 2 and isinstance(c.regs[0].args[1], ast.Name):
            c.record_var = c.regs[0].args[1].id
        cls = [s for s in c.stores if s.var == c.record_var and s.key == ('class',)]
        c.classes = [s.value.value for s in cls if isinstance(s.value, ast.Constant)]
        out[tag] = c
    model.__dict__['_ir_clauses'] = out
    return out


def record_keys(model, method_names):
    """keys of the dict records built in the given IntermediateCodeGen methods: {var: set(keys)} merged"""
    ci = model.cls(INTER, 'IntermediateCodeGen')
    keys = set()
    for m in method_names:
        o, fn = ci.find_method(m)
        if fn is None:
            raise AnalysisError('IntermediateCodeGen.%s missing' % m)
        for s in record_stores(fn):
            keys.add(s.key)
        for n in ast.walk(fn):
            if isinstance(n, ast.Dict):
                for k in n.keys:
                    if isinstance(k, ast.Constant) and isinstance(k.value, str):
                        keys.add((k.value,))
    return keys
