"""C02 - the syntax tree is a faithful, layout-independent image of the MIB text."""
import ast
import re

from vt import rx
from vt.grammar import shipped_dialects, PARSER, LEXER
from vt.model import walk_no_nested, norm, dotted_name
from vt.shapes import Sym, Tup, Lst, Cat, Const, Idx, Slc, Cond, DictT, NONE, Opaque, transforms_in
from vt.runner import where, AnalysisError
from rules import common
from rules.C11 import lexer_model
from rules.C17 import shapes, dialect, dialect_list

EXPLANATION = (
    "Abstract interpretation of every grammar action (p_* body) for every production alternative of the three "
    "shipped dialects (vt/shapes.py): each alternative's value is a term over the values of its right-hand-side "
    "symbols. Rules: every value-carrying symbol (identifier/number/string token, nonterminal whose value is not "
    "always None) occurs exactly once in the term and in source order, except the audited discards; nonterminals "
    "that yield nothing are exactly the audited set; no truthiness test can drop the number 0 or an empty string; "
    "left-recursive list productions append the new item to the accumulated list in source order; every tagged "
    "tuple that reaches prepData has a handler of matching arity in both code generators and no untagged tuple can "
    "reach it; quoted texts lose exactly their two quote characters and only t_NUMBER rewrites a token value; "
    "regex analysis shows that blanks, tabs and line breaks can be consumed only by ignore/newline/comment/skip "
    "rules and by quoted strings; parse() returns the module list unchanged and independent of earlier parses.")
ASSUMPTIONS = [
    "that ply's LALR automaton accepts exactly the intended language is not judged here (C17 covers relative "
    "statements)",
    "audited discards (constructs the code base deliberately does not model) are listed in rules/C02.py:DISCARDS",
]
TECHNIQUE = 'abstract interpretation of grammar actions to terms + shape fixpoint; regex structure analysis; presence-scenario evaluation of action terms (every absent/present combination of optional parts); language probes of the QUOTED_STRING regex'

VALUE_TOKENS = ('LOWERCASE_IDENTIFIER', 'UPPERCASE_IDENTIFIER', 'NUMBER', 'NEGATIVENUMBER', 'NUMBER64',
                'NEGATIVENUMBER64', 'HEX_STRING', 'BIN_STRING', 'QUOTED_STRING')

# nonterminals whose value is deliberately not modelled (always None)
SILENT = {
    'empty': 'the empty production',
    'exportsClause': 'EXPORTS block is skipped by the lexer (statement: contents of EXPORTS do not matter)',
    'macroClause': 'MACRO definitions are skipped', 'macroName': 'MACRO definitions are skipped',
    'choiceClause': 'CHOICE blocks are skipped',
    'SubjectCategoriesPart': 'SPPI subject categories are not modelled', 'SubjectCategories': 'SPPI',
    'CategoryIDs': 'SPPI', 'CategoryID': 'SPPI',
    'typeTag': 'ASN.1 tags ([APPLICATION n] IMPLICIT) carry no SMI information',
    'ComplianceObject': 'OBJECT refinements in MODULE-COMPLIANCE are not modelled',
    'ModulePart_Capabilities': 'AGENT-CAPABILITIES SUPPORTS parts are not modelled',
    'Modules_Capabilities': 'AGENT-CAPABILITIES', 'Module_Capabilities': 'AGENT-CAPABILITIES',
    'CapabilitiesGroups': 'AGENT-CAPABILITIES', 'CapabilitiesGroup': 'AGENT-CAPABILITIES',
    'ModuleName_Capabilities': 'AGENT-CAPABILITIES', 'VariationPart': 'AGENT-CAPABILITIES',
    'Variations': 'AGENT-CAPABILITIES', 'Variation': 'AGENT-CAPABILITIES',
    'VariationAccessPart': 'AGENT-CAPABILITIES', 'VariationAccess': 'AGENT-CAPABILITIES',
}

# (lhs, dropped symbol) -> reason; value-carrying symbols an alternative deliberately leaves out of its value
DISCARDS = {
    ('module', 'exportsClause'): 'always None',
    ('moduleIdentityClause', 'SubjectCategoriesPart'): 'always None',
    ('agentCapabilitiesClause', 'ModulePart_Capabilities'): 'always None',
    ('valueofSimpleSyntax', 'objectIdentifier_defval'): 'numeric OID DEFVALs are tolerated but not modelled',
    ('sequenceSyntax', 'anySubType'): 'SEQUENCE member sub-types are not modelled (only the type name is used)',
    ('sequenceSimpleSyntax', 'anySubType'): 'SEQUENCE member sub-types are not modelled',
    ('sequenceApplicationSyntax', 'anySubType'): 'SEQUENCE member sub-types are not modelled',
    ('ComplianceGroup', 'Text'): 'GROUP descriptions are not modelled',
    ('typeDeclarationRHS', 'choiceClause'): 'always None',
    ('ObjectSyntax', 'typeTag'): 'always None',
    ('typeTag', 'NUMBER'): 'ASN.1 tags carry no SMI information',
    ('CategoryID', 'LOWERCASE_IDENTIFIER'): 'SPPI', ('CategoryID', 'NUMBER'): 'SPPI',
    ('declaration', 'macroClause'): 'always None',
    ('Compliance', 'ComplianceObject'): 'always None',
    ('subidentifier_defval', 'LOWERCASE_IDENTIFIER'): None,  # placeholder, used (kept for documentation)
}
# alternatives whose parts are deliberately listed out of source order
REORDER_OK = {('import', ('importIdentifiers', 'FROM', 'moduleName')): 'consumer importPart unpacks (module, symbols)'}


def all_shapes(chk):
    return [(n, shapes(chk.model, o)) for n, o in dialect_list(chk)]


def carries_value(gs, sym):
    if sym in gs.nonterminals:
        return not gs.av[sym].always_none()
    return sym in VALUE_TOKENS


def present_syms(t):
    """symbols used by the term in the branch where optional parts are present"""
    if isinstance(t, Cond):
        return present_syms(t.a)
    if isinstance(t, (Tup, Lst)):
        return [s for x in t.items for s in present_syms(x)]
    if isinstance(t, Cat):
        return present_syms(t.a) + present_syms(t.b)
    if isinstance(t, (Idx, Slc)):
        return present_syms(t.t)
    if isinstance(t, DictT):
        return present_syms(t.src)
    if isinstance(t, Sym):
        return [t.i]
    if isinstance(t, Opaque):
        return [s for x in t.parts for s in present_syms(x)]
    return []


def none_facts(term):
    """[(set of symbol indices known to be None, branch term)] for the conditional branches of `term`"""
    from vt.shapes import IsNone
    out = []

    def facts(t, positive):
        """indices i such that p[i] is None when test t has truth value `positive`"""
        if isinstance(t, IsNone) and isinstance(t.t, Sym):
            # `p is None` true -> None ; `p is not None` false -> None
            return set([t.t.i]) if positive != t.neg else set()
        if isinstance(t, Cond) and positive:
            # and-chain  (y if x else x): true only when both hold
            if t.b is t.test or repr(t.b) == repr(t.test):
                return facts(t.test, True) | facts(t.a, True)
        return set()

    def walk(t):
        if isinstance(t, Cond):
            fa, fb = facts(t.test, True), facts(t.test, False)
            if fa:
                out.append((fa, t.a))
            if fb:
                out.append((fb, t.b))
            walk(t.a)
            walk(t.b)
        elif isinstance(t, (Tup, Lst)):
            for x in t.items:
                walk(x)
        elif isinstance(t, Cat):
            walk(t.a)
            walk(t.b)
    walk(term)
    return out


def r1_nothing_dropped(chk, only_lhs=None, rule='C02.R1'):
    chk.unit(PARSER)
    chk.doc(rule, 'per production alternative (three dialects): every value-carrying right-hand-side symbol is '
                      'used exactly once in the value, in source order (audited discards excepted); the set of '
                      'nonterminals that never yield a value is exactly the audited set; a truthiness test never '
                      'decides over a value that can be the number 0 or an empty string')
    seen_alt = set()
    n_alt = 0
    for dname, gs in all_shapes(chk):
        if gs.unsupported:
            raise AnalysisError('grammar actions not evaluable: %s' % list(gs.unsupported.items())[:3])
        for p, expr in gs.nontoken.items():
            chk.ob(rule, '%s/%s non-token value %s' % (dname, p.fn.name, expr), False, '%s:%s' % (PARSER, p.fn.lineno),
                   'the value of `%s -> %s` is taken from the parser object (%s), not from the matched symbols: the '
                   'tree is no longer an image of the text alone, and an object shared between parses (a class-level '
                   'list or tuple holding one) is modified by the actions that extend it in place' % (
                       p.lhs, ' '.join(p.rhs), expr))
        silent = set(n for n in gs.nonterminals if gs.av[n].always_none())
        for n in sorted(silent - set(SILENT)):
            fn = gs.by_lhs[n][0].fn
            chk.ob(rule, '%s/silent-nonterminal %s' % (dname, n), False, '%s:%s' % (PARSER, fn.lineno),
                   'nonterminal %s never yields a value although it is not one of the audited unmodelled constructs: '
                   'whatever it matched is lost from the tree' % n)
        for n in sorted(set(SILENT) & gs.nonterminals - silent):
            chk.note('%s: audited silent nonterminal %s now yields a value' % (dname, n))
        for p in gs.d.prods:
            key = (p.owner, p.fn.name, p.rhs)
            if key in seen_alt:
                continue
            seen_alt.add(key)
            n_alt += 1
            if p.lhs in SILENT:
                continue
            if only_lhs is not None and p.lhs not in only_lhs:
                continue
            term = gs.terms[p]
            used = present_syms(term)
            tag = '%s.%s[%s]' % (p.owner, p.fn.name, ' '.join(p.rhs) or 'empty')
            problems = []
            for i, sym in enumerate(p.rhs, 1):
                if not carries_value(gs, sym):
                    continue
                c = used.count(i)
                if c == 0 and (p.lhs, sym) in DISCARDS:
                    continue
                if c == 0:
                    problems.append('%s (p[%d]) is dropped' % (sym, i))
                elif c > 1:
                    problems.append('%s (p[%d]) is used %d times' % (sym, i, c))
            vals = [i for i in used if carries_value(gs, p.rhs[i - 1])]
            if vals != sorted(vals) and (p.lhs, p.rhs) not in REORDER_OK:
                problems.append('parts are listed out of source order: %s' % ['p[%d]' % i for i in vals])
            # a part is not used on the branch where the action has just established that it is None
            for absent, branch in none_facts(term):
                hit = [i for i in present_syms(branch) if i in absent]
                if hit:
                    problems.append('p[%d] is placed in the tree on the branch where the test says it is None' % hit[0])
            tr = transforms_in(term)
            re_ = sorted(set(x[6:] for x in tr if x.startswith('order.')))
            tr = [x for x in tr if not x.startswith('order.')]
            if re_:
                problems.append('a list of parse values is passed through %s: its members are no longer the ones '
                                'written, in the order and number in which they were written' % '/'.join(
                                    'a comprehension that replaces or filters them' if x == 'comprehension' else x + '()'
                                    for x in re_))
            if tr:
                problems.append('a parse value is rewritten by str.%s(): the tree no longer shows what was written' %
                                '/'.join(sorted(set(tr))))
            chk.ob(rule, tag, not problems, '%s:%s' % (PARSER, p.fn.lineno),
                   '; '.join(problems) + ' -> value %s' % repr(term)[:100] if problems else '')
            # truthiness tests over lossy values
            for tv, av, node in gs.tests[p]:
                lossy = av.lossy_falsy()
                if lossy and not isinstance(tv, Const):
                    chk.ob(rule, tag + '/truthiness(%r)' % tv, False, '%s:%s' % (PARSER, p.fn.lineno),
                           'the action tests the truthiness of %r, which can be %s: that value is treated as absent'
                           % (tv, ' or '.join(lossy)))
    chk.floor(rule, 300 if only_lhs is None else 40, 'production alternatives')
    chk.note('%d distinct (function, alternative) pairs evaluated' % n_alt)


def list_part(t, one):
    """t denotes 'the list accumulated so far' (possibly inside a tag) or [] when absent"""
    if isinstance(t, Sym) and t.i == one:
        return True
    if isinstance(t, Idx) and isinstance(t.t, Sym) and t.t.i == one and t.i == 1:
        return True
    if isinstance(t, Cond):
        # (L if L else [])  /  (p1[1] if p1 else p1)
        if isinstance(t.b, Lst) and not t.b.items and list_part(t.a, one):
            return True
        if isinstance(t.test, Sym) and t.test.i == one and list_part(t.a, one) and list_part(t.b, one):
            return True
    return False


def present_test(t, k):
    """test `p[k]` or `p[k] is not None`"""
    from vt.shapes import IsNone
    return (isinstance(t, Sym) and t.i == k) or (isinstance(t, IsNone) and t.neg and isinstance(t.t, Sym) and
                                                  t.t.i == k)


def r2_list_idiom(chk, rule='C02.R2', only_lhs=None):
    chk.doc(rule, 'a left-recursive list production `X : X [sep] item | item` yields <accumulated list> + [item] '
                      '(optionally inside one constant tag) and [item]; a stray separator alternative returns the '
                      'list unchanged; the filtering variant (items that yield None are skipped) must keep the list '
                      'and still append every later item')
    n = 0
    seen = set()
    for dname, gs in all_shapes(chk):
        for p in gs.d.prods:
            if not p.rhs or p.rhs[0] != p.lhs or p.lhs in SILENT:
                continue
            if only_lhs is not None and p.lhs not in only_lhs:
                continue
            key = (p.owner, p.fn.name, p.rhs)
            if key in seen:
                continue
            seen.add(key)
            n += 1
            term = gs.terms[p]
            tag = '%s.%s[%s]' % (p.owner, p.fn.name, ' '.join(p.rhs))
            items = [i for i, s in enumerate(p.rhs, 1) if i > 1 and carries_value(gs, s)]
            ok, detail = False, ''
            if not items:
                ok = isinstance(term, Sym) and term.i == 1
                detail = 'a separator-only alternative must return the list unchanged'
            else:
                k = items[-1]

                base_tagged = any(isinstance(gs.terms[q], Tup) or (isinstance(gs.terms[q], Cond) and
                                                                   isinstance(gs.terms[q].a, Tup))
                                  for q in gs.by_lhs[p.lhs] if not (q.rhs and q.rhs[0] == p.lhs))

                def acc_ok(t):
                    # the accumulated list: p1 itself for plain lists, p1[1] (the list inside the tag) for tagged ones
                    if not list_part(t, 1):
                        return False
                    txt = repr(t)
                    return ('p1[1]' in txt) == base_tagged or (not base_tagged and txt == 'p1')

                def appended(t):
                    return isinstance(t, Cat) and acc_ok(t.a) and isinstance(t.b, Lst) and \
                        len(t.b.items) == 1 and isinstance(t.b.items[0], Sym) and t.b.items[0].i == k

                def tagged_appended(t):
                    return appended(t) or (isinstance(t, Tup) and len(t.items) == 2 and isinstance(t.items[0], Const)
                                           and appended(t.items[1]))
                if tagged_appended(term):
                    ok = True
                elif isinstance(term, Cond) and present_test(term.test, k) and \
                        tagged_appended(term.a) and isinstance(term.b, Sym) and term.b.i == 1:
                    ok = True  # filtering variant
                else:
                    detail = 'list production yields %s: items are lost, duplicated or reordered' % repr(term)[:110]
            chk.ob(rule, tag, ok, '%s:%s' % (PARSER, p.fn.lineno), '' if ok else detail)
            # base alternative(s)
            for q in gs.by_lhs[p.lhs]:
                if q.rhs and q.rhs[0] == p.lhs:
                    continue
                qk = (q.owner, q.fn.name, q.rhs, 'base')
                if qk in seen:
                    continue
                seen.add(qk)
                t = gs.terms[q]
                qi = [i for i, s in enumerate(q.rhs, 1) if carries_value(gs, s)]
                if len(qi) != 1:
                    continue

                def single(t):
                    return isinstance(t, Lst) and len(t.items) == 1 and isinstance(t.items[0], Sym) and \
                        t.items[0].i == qi[0]

                def tagged_single(t):
                    return single(t) or (isinstance(t, Tup) and len(t.items) == 2 and isinstance(t.items[0], Const)
                                         and single(t.items[1]))
                good = tagged_single(t) or (isinstance(t, Cond) and tagged_single(t.a) and (
                    t.b is NONE or (isinstance(t.b, Const) and t.b.v is None) or isinstance(t.b, Sym))) or (
                    isinstance(t, Cond) and isinstance(t.a, Cond) and tagged_single(t.a.a))
                chk.ob(rule, '%s.%s[%s]/base' % (q.owner, q.fn.name, ' '.join(q.rhs)), good,
                       '%s:%s' % (PARSER, q.fn.lineno), 'base case of the list yields %s' % repr(t)[:100])
    chk.floor(rule, 24 if only_lhs is None else 4, 'left-recursive list productions')


def r2b_operand_shapes(chk, rule='C02.R2b'):
    """`a + b` in a grammar action: both operands lists, or both strings - a tuple plus a list raises TypeError"""
    chk.doc(rule, 'operands of + in grammar actions have compatible shapes (list + list, str + str): anything else '
                  'raises TypeError while parsing, a foreign exception')
    seen = set()
    n = 0
    for dname, gs in all_shapes(chk):
        for p in gs.d.prods:
            key = (p.owner, p.fn.name, p.rhs)
            if key in seen:
                continue
            seen.add(key)

            def walk(t):
                if isinstance(t, Cat):
                    yield t
                    for x in (t.a, t.b):
                        for y in walk(x):
                            yield y
                elif isinstance(t, (Tup, Lst)):
                    for x in t.items:
                        for y in walk(x):
                            yield y
                elif isinstance(t, Cond):
                    for x in (t.a, t.b):
                        for y in walk(x):
                            yield y
                elif isinstance(t, (Idx, Slc)):
                    for y in walk(t.t):
                        yield y
            from vt.shapes import term_av, av_top
            for c in walk(gs.terms[p]):
                n += 1
                sa = lambda i, p=p: gs.sym_av(p.rhs[i - 1]) if 0 < i <= len(p.rhs) else av_top()
                a, b = term_av(c.a, sa), term_av(c.b, sa)

                def kinds(v):
                    k = set()
                    if v.lst:
                        k.add('list')
                    if v.s:
                        k.add('str')
                    if v.tuples:
                        k.add('tuple')
                    if v.i:
                        k.add('int')
                    if v.dct:
                        k.add('dict')
                    return k
                ka, kb = kinds(a), kinds(b)
                bad = not a.top and not b.top and ka and kb and not (ka & kb and len(ka | kb) == 1)
                # None operands are allowed only when guarded (Cond) - they show up as `none` with another kind
                chk.ob(rule, '%s.%s[%s]/%r' % (p.owner, p.fn.name, ' '.join(p.rhs), c), not bad,
                       '%s:%s' % (PARSER, p.fn.lineno), 'adds %s to %s: TypeError at parse time' % (sorted(ka), sorted(kb)))
    # subscript of a value that may be None (`p[1][1]` where the symbol can be absent): TypeError at parse time, unless
    # the access sits in the branch taken when that very value is true (`p[1] and p[1][1] or []`)
    from vt.shapes import term_av, av_top
    seen2 = set()
    m = 0
    for dname, gs in all_shapes(chk):
        for p in gs.d.prods:
            key = (p.owner, p.fn.name, p.rhs)
            if key in seen2:
                continue
            seen2.add(key)
            sa = lambda i, p=p: gs.sym_av(p.rhs[i - 1]) if 0 < i <= len(p.rhs) else av_top()

            def idxs(t, truthy):
                if isinstance(t, (Idx, Slc)):
                    yield t, truthy
                    for y in idxs(t.t, truthy):
                        yield y
                elif isinstance(t, Cat):
                    for x in (t.a, t.b):
                        for y in idxs(x, truthy):
                            yield y
                elif isinstance(t, (Tup, Lst)):
                    for x in t.items:
                        for y in idxs(x, truthy):
                            yield y
                elif isinstance(t, Cond):
                    for y in idxs(t.a, truthy | set([repr(t.test)])):
                        yield y
                    for y in idxs(t.b, truthy):
                        yield y
            for t, truthy in idxs(gs.terms[p], frozenset()):
                base = t.t
                if repr(base) in truthy:
                    continue
                v = term_av(base, sa)
                if v.top:
                    continue
                m += 1
                chk.ob(rule, '%s.%s[%s]/subscript %r' % (p.owner, p.fn.name, ' '.join(p.rhs), t), not v.none,
                       '%s:%s' % (PARSER, p.fn.lineno),
                       'subscripts a value that is None when the optional part is absent: TypeError at parse time')
    chk.floor(rule, 30, 'concatenations in grammar actions')


def handler_arity(fn):
    """('unpack', n) / ('index', max_index+1) / ('any', None) for a gen* handler(self, data, ...)"""
    dparam = fn.args.args[1].arg
    uses_len = any(isinstance(c, ast.Call) and dotted_name(c.func) == 'len' and c.args and
                   isinstance(c.args[0], ast.Name) and c.args[0].id == dparam for c in walk_no_nested(fn))
    unpack = None
    mx = -1
    whole = False
    for n in walk_no_nested(fn):
        if isinstance(n, ast.Assign) and isinstance(n.value, ast.Name) and n.value.id == dparam and \
                isinstance(n.targets[0], ast.Tuple) and not isinstance(getattr(n, '_parent', None), (ast.If,)):
            unpack = len(n.targets[0].elts)
        if isinstance(n, ast.Subscript) and isinstance(n.value, ast.Name) and n.value.id == dparam and \
                isinstance(n.slice, ast.Constant) and isinstance(n.slice.value, int):
            mx = max(mx, n.slice.value)
        if isinstance(n, ast.For) and isinstance(n.iter, ast.Name) and n.iter.id == dparam:
            whole = True
    if uses_len or whole:
        return 'any', None
    if unpack is not None:
        return 'unpack', unpack
    if mx >= 0:
        return 'index', mx + 1
    return 'none', 0


def r3_producer_consumer(chk, rule='C02.R3'):
    model = chk.model
    chk.doc(rule, 'every tuple that can reach prepData (the clause tuple and, recursively, tuple-valued components '
                  'that are not inside a list) has a constant tag that is a key of both handlersTables, and the '
                  'handler unpacks / indexes exactly the number of components the grammar supplies; 1-tuples are '
                  'unwrapped; untagged tuples of 2+ components must not occur there')
    gens = [model.cls('pysmi/codegen/symtable.py', 'SymtableCodeGen'),
            model.cls('pysmi/codegen/intermediate.py', 'IntermediateCodeGen')]
    tables = []
    for ci in gens:
        o, tbl = ci.find_attr('handlersTable')
        if not isinstance(tbl, ast.Dict):
            raise AnalysisError('%s.handlersTable is not a dict display' % ci.name)
        d = {}
        for k, v in zip(tbl.keys, tbl.values):
            if isinstance(k, ast.Constant) and isinstance(v, ast.Name):
                d[k.value] = ci.find_method(v.id)[1]
        tables.append((ci, d))
    seen = set()
    for dname, gs in all_shapes(chk):
        decl = gs.av.get('declaration')
        if decl is None:
            raise AnalysisError('no declaration nonterminal')

        def visit(av, path, top):
            for (ar, tag), items in sorted(av.tuples.items(), key=lambda kv: (kv[0][0], str(kv[0][1]))):
                if ar == 1:
                    visit(items[0], path, False)
                    continue
                if ar == 0:
                    continue
                key = (tag, ar, path if tag is None else '')
                if tag is None:
                    if key not in seen:
                        seen.add(key)
                        chk.ob(rule, 'untagged-tuple@%s' % path, False, PARSER,
                               'an untagged %d-tuple %s can reach prepData at %s: its first element is used as a '
                               'handler name and raises KeyError' % (ar, av.describe()[:60], path))
                    continue
                if key not in seen:
                    seen.add(key)
                    for ci, tbl in tables:
                        h = tbl.get(tag)
                        if h is None:
                            chk.ob(rule, '%s/handler(%s)' % (ci.name, tag), False, ci.mod.rel,
                                   'the grammar builds a %r tuple but %s.handlersTable has no such key' % (tag, ci.name))
                            continue
                        kind, nn = handler_arity(h)
                        n_data = ar - 1
                        ok = kind == 'any' or kind == 'none' or (kind == 'unpack' and nn == n_data) or (
                            kind == 'index' and nn <= n_data)
                        chk.ob(rule, '%s/handler(%s)/arity%d' % (ci.name, tag, n_data), ok, where(ci.mod, h),
                               'grammar supplies %d component(s) for %r but %s %s %d' % (
                                   n_data, tag, h.name, 'unpacks' if kind == 'unpack' else 'indexes up to', nn or 0))
                for j, it in enumerate(items[1:], 1):
                    visit(it, '%s[%d]' % (tag, j), False)
        visit(decl, 'declaration', True)
    chk.floor(rule, 60, 'tag/arity pairs x two generators')


def r3b_prepdata(chk):
    """R3 models prepData; this rule pins the model to the code"""
    model = chk.model
    chk.doc('C02.R3b', 'both prepData(pdata): walk pdata in order; a non-tuple is kept as it is; a 1-tuple is replaced '
                       'by its element; any other tuple t is replaced by handlersTable[t[0]](self, prepData(t[1:]))')
    for rel, cname in (('pysmi/codegen/symtable.py', 'SymtableCodeGen'),
                       ('pysmi/codegen/intermediate.py', 'IntermediateCodeGen')):
        ci = model.cls(rel, cname)
        o, fn = ci.find_method('prepData')
        chk.subject(fn, '%s.prepData' % cname)
        p = fn.args.args[1].arg
        loops = [n for n in fn.body if isinstance(n, ast.For)]
        ok = len(loops) == 1 and _name(loops[0].iter) == p and isinstance(loops[0].target, ast.Name)
        chk.ob('C02.R3b', '%s.prepData/loop' % cname, ok, where(ci.mod, fn), 'one loop over the argument in order')
        if not ok:
            continue
        el = loops[0].target.id
        leaves = []   # (conditions, appended expression)

        def walk(stmts, conds):
            for s in stmts:
                if isinstance(s, ast.If):
                    walk(s.body, conds + [(norm(s.test), True)])
                    walk(s.orelse, conds + [(norm(s.test), False)])
                elif isinstance(s, ast.Expr) and isinstance(s.value, ast.Call) and \
                        isinstance(s.value.func, ast.Attribute) and s.value.func.attr == 'append':
                    leaves.append((tuple(conds), norm(s.value.func.value), s.value.args[0]))
                else:
                    leaves.append((tuple(conds), None, s))
        walk(loops[0].body, [])
        it, ln = 'isinstance(%s, tuple)' % el, 'len(%s) == 1' % el
        got = dict((c, a) for c, lst, a in leaves)
        acc = set(lst for c, lst, a in leaves)
        want_keys = set([((it, False),), ((it, True), (ln, True)), ((it, True), (ln, False))])
        ok = set(got) == want_keys and len(acc) == 1 and None not in acc
        chk.ob('C02.R3b', '%s.prepData/cases' % cname, ok, where(ci.mod, fn), 'cases: %s' % sorted(got))
        if ok:
            chk.ob('C02.R3b', '%s.prepData/non-tuple-kept' % cname, norm(got[((it, False),)]) == el, where(ci.mod, fn),
                   norm(got[((it, False),)]))
            chk.ob('C02.R3b', '%s.prepData/1-tuple-unwrapped' % cname, norm(got[((it, True), (ln, True))]) == '%s[0]' % el,
                   where(ci.mod, fn), norm(got[((it, True), (ln, True))]))
            d = got[((it, True), (ln, False))]
            okd = isinstance(d, ast.Call) and norm(d.func) == 'self.handlersTable[%s[0]]' % el and len(d.args) >= 2 and \
                norm(d.args[0]) == 'self' and isinstance(d.args[1], ast.Call) and \
                norm(d.args[1].func) == 'self.prepData' and norm(d.args[1].args[0]) == '%s[1:]' % el
            chk.ob('C02.R3b', '%s.prepData/tagged-dispatch' % cname, okd, where(ci.mod, fn), norm(d)[:100])
            rets = [x for x in walk_no_nested(fn) if isinstance(x, ast.Return)]
            chk.ob('C02.R3b', '%s.prepData/returns-list' % cname, len(rets) == 1 and norm(rets[0].value) == list(acc)[0],
                   where(ci.mod, fn), '')


def _name(e):
    return e.id if isinstance(e, ast.Name) else None


def r4_token_values(chk, rule='C02.R4'):
    model = chk.model
    lm = lexer_model(chk)
    mod = model.mod(LEXER)
    chk.doc(rule, 'Text / ExtUTCTime strip exactly the first and last character of the quoted string; among the '
                      'lexer rules only t_NUMBER assigns t.value (to int(t.value)); HEX/BIN strings, identifiers and '
                      'quoted strings are passed through verbatim')
    for dname, gs in all_shapes(chk)[:1]:
        for p in gs.d.prods:
            if p.lhs in ('Text', 'ExtUTCTime'):
                t = gs.terms[p]
                ok = isinstance(t, Slc) and isinstance(t.t, Sym) and t.lo == 1 and t.hi == -1
                chk.ob(rule, '%s.%s' % (p.owner, p.fn.name), ok, '%s:%s' % (PARSER, p.fn.lineno),
                       'quoted text becomes %s instead of p[1][1:-1]' % repr(t))
    n = 0
    for s in sorted(lm.states):
        for r in lm.rules[s]:
            if r.fn is None or s not in r.states:
                continue
            tok = r.fn.args.args[-1].arg
            for x in walk_no_nested(r.fn):
                tg = []
                if isinstance(x, ast.Assign):
                    tg = x.targets
                elif isinstance(x, ast.AugAssign):
                    tg = [x.target]
                for t in tg:
                    if norm(t) == '%s.value' % tok:
                        n += 1
                        ok = r.name == 't_NUMBER' and isinstance(x, ast.Assign) and norm(x.value) == 'int(%s.value)' % tok
                        chk.ob(rule, 'rule %s/value-rewrite' % r.name, ok, where(mod, x),
                               'the token text is rewritten (%s): the tree no longer shows what was written' % norm(x)[:60])
    chk.floor(rule, 3, 'Text, ExtUTCTime, t_NUMBER')


def r5_layout(chk):
    model = chk.model
    lm = lexer_model(chk)
    mod = model.mod(LEXER)
    chk.doc('C02.R5', 'INITIAL ignores blank and tab; rules that can consume a blank, tab, CR or LF never return a '
                      'token (newline, comment, skipped bodies) - quoted strings excepted; `--` enters the comment '
                      'state, which the first line break leaves; skip states return only their terminator keyword')
    chk.ob('C02.R5', 'INITIAL/ignore', set(' \t') <= set(lm.ignore['INITIAL']), LEXER,
           'blank and tab must be ignored between tokens: t_ignore = %r' % lm.ignore['INITIAL'])
    done = set()
    for s in sorted(lm.states):
        for r in lm.rules[s]:
            if r.name in done or s not in r.states:
                continue
            done.add(r.name)
            p = r.parsed(lm.flags)
            ws = [c for c in ' \t\r\n' if rx.can_consume(p, c, lm.flags)]
            returns = r.fn is None or any(isinstance(x, ast.Return) and x.value is not None
                                          for x in walk_no_nested(r.fn))
            if ws:
                ok = not returns or r.tokname == 'QUOTED_STRING'
                chk.ob('C02.R5', 'rule %s/layout-consumer' % r.name, ok, where(mod, r.fn) if r.fn else LEXER,
                       'rule can consume %r and returns a token: layout changes the token stream' % ''.join(ws))
            elif s != 'INITIAL' and returns:
                ok = r.tokname in ('END',)
                chk.ob('C02.R5', 'rule %s/skip-state-token' % r.name, ok, where(mod, r.fn) if r.fn else LEXER,
                       'skip state %s returns token %s' % (s, r.tokname))
    # comment protocol
    begin = [r for r in lm.rules['INITIAL'] if r.pattern == '--']
    ok = len(begin) == 1 and begin[0].fn is not None and any(
        isinstance(c, ast.Call) and norm(c.func).endswith('lexer.begin') and c.args and
        norm(c.args[0]) == "'comment'" for c in walk_no_nested(begin[0].fn)) and not any(
        isinstance(x, ast.Return) and x.value is not None for x in walk_no_nested(begin[0].fn))
    chk.ob('C02.R5', 'comment/begin', ok, LEXER, '`--` must enter the comment state and return nothing')
    nl = [r for r in lm.rules.get('comment', []) if rx.matches_exactly(r.pattern, lm.flags, '\n')]
    ok = len(nl) == 1 and nl[0].fn is not None and any(
        isinstance(c, ast.Call) and norm(c.func).endswith('lexer.begin') and c.args and
        norm(c.args[0]) == "'INITIAL'" for c in walk_no_nested(nl[0].fn)) and \
        rx.matches_exactly(nl[0].pattern, lm.flags, '\r') and rx.matches_exactly(nl[0].pattern, lm.flags, '\r\n')
    chk.ob('C02.R5', 'comment/end-at-line-break', ok, LEXER, 'LF, CR and CRLF must each end a comment')
    body = [r for r in lm.rules.get('comment', []) if r not in nl]
    ok = all(not rx.can_consume(r.parsed(lm.flags), '\n', lm.flags) and
             not rx.can_consume(r.parsed(lm.flags), '\r', lm.flags) for r in body)
    chk.ob('C02.R5', 'comment/body-stops-at-line-break', ok, LEXER, 'comment body must not swallow the line break')
    # skip states: enter on keyword, leave on terminator
    for state, opener, closer in (('macro', 'MACRO', 'END'), ('exports', 'EXPORTS', ';'), ('choice', 'CHOICE', '}')):
        op = [r for r in lm.rules['INITIAL'] if r.pattern == opener]
        ok = len(op) == 1 and op[0].fn is not None and any(
            isinstance(c, ast.Call) and norm(c.func).endswith('lexer.begin') and c.args and
            norm(c.args[0]) == repr(state) for c in walk_no_nested(op[0].fn))
        chk.ob('C02.R5', '%s/begin' % state, ok, LEXER, '%s must enter state %s' % (opener, state))
        cl = [r for r in lm.rules.get(state, []) if rx.matches_exactly(r.pattern, lm.flags, closer)
              and not rx.matches_exactly(r.pattern, lm.flags, 'x')]
        ok = len(cl) >= 1 and cl[0].fn is not None and any(
            isinstance(c, ast.Call) and norm(c.func).endswith('lexer.begin') and c.args and
            norm(c.args[0]) == "'INITIAL'" for c in walk_no_nested(cl[0].fn))
        chk.ob('C02.R5', '%s/end' % state, ok, LEXER, '%r must leave state %s' % (closer, state))
    chk.floor('C02.R5', 15, 'layout rules')


def r6_entry_point(chk, rule='C02.R6'):
    model = chk.model
    owner, fn = model.method(PARSER, 'SmiV2Parser', 'parse')
    mod = owner.mod
    chk.doc(rule, 'parse() returns the second component of the mibFile node (the module list) unchanged; the '
                      'mibFile and modules actions keep modules in source order (R1/R2)')
    ycalls = [c for c in walk_no_nested(fn) if isinstance(c, ast.Call) and isinstance(c.func, ast.Attribute) and
              c.func.attr == 'parse' and norm(c.func.value) == 'self.parser']
    tree = None
    if ycalls:
        st = common.stmt_of(ycalls[0])
        if isinstance(st, ast.Assign) and isinstance(st.targets[0], ast.Name):
            tree = st.targets[0].id
            chk.ob(rule, 'SmiV2Parser.parse/text-arg', bool(ycalls[0].args) and
                   norm(ycalls[0].args[0]) == fn.args.args[1].arg, where(mod, ycalls[0]),
                   'the text given to parse() must reach yacc unchanged')
            tp = fn.args.args[1].arg
            rebound = [x for x in walk_no_nested(fn) if isinstance(x, (ast.Assign, ast.AugAssign)) and any(
                isinstance(t, ast.Name) and t.id == tp for t in (x.targets if isinstance(x, ast.Assign) else [x.target]))]
            chk.ob(rule, 'SmiV2Parser.parse/text-not-rewritten', not rebound, where(mod, rebound[0]) if rebound else
                   where(mod, fn), 'parse() rewrites its text before lexing (%s): characters inside quoted strings and the '
                   'line numbers of everything after the edit are no longer those of the text that was given' % (
                       norm(rebound[0])[:70] if rebound else ''))
    rets = [x for x in walk_no_nested(fn) if isinstance(x, ast.Return) and x.value is not None and
            not (isinstance(x.value, ast.List) and not x.value.elts)]
    ok = bool(tree) and len(rets) == 1 and norm(rets[0].value) == '%s[1]' % tree
    chk.ob(rule, 'SmiV2Parser.parse/returns-module-list', ok, where(mod, fn),
           'returns: %s' % [norm(x.value) for x in rets])
    for dname, gs in all_shapes(chk)[:1]:
        for p in gs.d.prods:
            if p.lhs == 'mibFile' and p.rhs == ('modules',):
                t = gs.terms[p]
                ok = isinstance(t, Tup) and len(t.items) == 2 and isinstance(t.items[1], Sym) and t.items[1].i == 1
                chk.ob(rule, 'p_mibFile', ok, '%s:%s' % (PARSER, p.fn.lineno), repr(t))
            if p.lhs == 'module':
                t = gs.terms[p]
                ok = repr(t) == '(p1, p2, p7, p8)'
                chk.ob(rule, 'p_module', ok, '%s:%s' % (PARSER, p.fn.lineno), 'module tuple is %r' % t)


def r7_history_independence(chk):
    from rules.C12 import r1_parser_reset
    r1_parser_reset(chk, rule='C02.R7')


def r8_number_tokens(chk):
    """numbers including 64-bit values are tokens: the classifier's limits and branches (same rule as C05.R1)"""
    from vt.runner import Check
    from rules.C05 import r1_number_classifier
    chk.doc('C02.R8', 't_NUMBER classifies by 2^32-1 / 2^64-1 into the four numeric token types (C05.R1)')
    tmp = Check(chk.prop, chk.tier, chk.model, chk.repo)
    r1_number_classifier(tmp)
    for o in tmp.obligations:
        chk.ob('C02.R8', o.key, o.ok, o.where, o.detail)



def r9_identifier_classes(chk):
    """Identifiers reach the tree as written only if the lexer takes each one as ONE token of the right class.  The
    classes (SMI: upper-case identifiers start with an upper-case letter, lower-case ones with a lower-case letter; pysmi
    CHANGES 0.1.4: "tokens starting from a digit [belong] to a lower-cased class", e.g. 802dot3(10006), 3com) are
    checked by asking each rule's regular expression - as data, with the `re` engine - about a table of probe words,
    and by the order of the rule functions (ply tries them in definition order, first match wins)."""
    import re as _re
    from rules.C11 import lexer_model
    lm = lexer_model(chk)
    mod = chk.model.mod(LEXER)
    chk.doc('C02.R9', 'lexer, INITIAL state: LOWERCASE_IDENTIFIER matches a, ifIndex, if-index, a1, 3com, 802dot3, '
                      '100baseStatus in full and none of A, Abc, 12, -a; UPPERCASE_IDENTIFIER matches A, IF-MIB, '
                      'DisplayString, A1 and none of a, ifIndex, 12; NUMBER matches 0, 12, -1 and no word containing a '
                      'letter; the identifier rules are defined before t_NUMBER, so a digit-leading name is one token')
    table = {
        't_LOWERCASE_IDENTIFIER': (['a', 'ifIndex', 'if-index', 'a1', '3com', '802dot3', '100baseStatus'],
                                   ['A', 'Abc', '12', '-a']),
        't_UPPERCASE_IDENTIFIER': (['A', 'IF-MIB', 'DisplayString', 'A1'], ['a', 'ifIndex', '12']),
        't_NUMBER': (['0', '12', '-1'], ['a', '1a', 'A1', '3com']),
    }
    rules_ = dict((r.name, r) for r in lm.rules['INITIAL'])
    order = [r.name for r in lm.rules['INITIAL'] if r.fn is not None]
    order.sort(key=lambda n: rules_[n].fn.lineno)
    for name, (yes, no) in sorted(table.items()):
        r = rules_.get(name)
        if r is None:
            chk.ob('C02.R9', name, False, LEXER, 'rule missing')
            continue
        try:
            rx_ = _re.compile(r.pattern, lm.flags)
        except _re.error as e:
            chk.ob('C02.R9', name, False, where(mod, r.fn), 'regex does not compile: %s' % e)
            continue
        miss = [w for w in yes if not rx_.fullmatch(w)]
        extra = [w for w in no if rx_.fullmatch(w)]
        chk.ob('C02.R9', name + '/class', not miss and not extra, where(mod, r.fn),
               'regex %r: does not take %s as one token; wrongly takes %s' % (r.pattern, miss, extra))
    ok = all(n in order for n in table) and order.index('t_LOWERCASE_IDENTIFIER') < order.index('t_NUMBER') and \
        order.index('t_UPPERCASE_IDENTIFIER') < order.index('t_NUMBER')
    chk.ob('C02.R9', 'identifier rules before t_NUMBER', ok, LEXER,
           'ply tries function rules in definition order: with t_NUMBER first, 3com is split into 3 and com')



def r10_class_tables_not_mutated(chk):
    """the keyword table decides which words are identifiers: a dialect that edits the shared table changes what every
    other dialect's lexer hands to the parser (shared with C11.R11)"""
    common.no_mutation_of_class_tables_through_aliases(chk, 'C02.R10', sorted(
        r for r in chk.model.modules if r.startswith(('pysmi/lexer/', 'pysmi/parser/'))), floor=2)


def r11_parts_reach_the_tree(chk, rule='C02.R11', only_lhs=None, floor=60):
    """whether a clause that is written reaches the tree must not depend on another clause being written too"""
    common.parts_reach_the_tree_whenever_present(chk, rule, all_shapes(chk), only_lhs=only_lhs, floor=floor,
                                                 carries=carries_value)


def r12_groupby_input_sorted(chk):
    """repeated FROM clauses, repeated keys of any list the parser groups: grouping must not depend on adjacency"""
    common.groupby_input_is_sorted(chk, 'C02.R12', sorted(r for r in chk.model.modules if r.startswith((
        'pysmi/parser/', 'pysmi/codegen/'))), 'grammar actions')



def r13_quoted_text_ends_at_the_next_quote(chk, rule='C02.R13'):
    """SMI texts have no escape sequences: the token is everything from one quote to the next"""
    lm = lexer_model(chk)
    chk.doc(rule, 'the QUOTED_STRING rule matches exactly: a quote, any characters other than a quote (line breaks and '
                  'backslashes included), a quote - decided by probing the regex constant: it matches "", "a", a text '
                  'ending in a backslash, a text with line breaks, and it matches nothing that holds a third quote or '
                  'lacks the closing one.  A rule that treats backslash-quote as an escape lets a text ending in a '
                  'backslash run on into the following declarations')
    rs = [r for r in lm.rules['INITIAL'] if r.tokname == 'QUOTED_STRING']
    chk.ob(rule, 'QUOTED_STRING/rule-found', len(rs) == 1, LEXER, '%d rules' % len(rs))
    if len(rs) != 1:
        return
    r = rs[0]
    yes = ['""', '"a"', '"a\\"', '"\\"', '"a\nb"', '"a\r\nb"', '"\\n"', '"C:\\MIBS\\"', "\"it's\"", '"a -- b"']
    no = ['"a" b "c"', '"a\\" b "c"', '"a', 'a"', '"a""b"', '"a\\""']
    ok_y = [p_ for p_ in yes if not rx.matches_exactly(r.pattern, lm.flags, p_)]
    ok_n = [p_ for p_ in no if rx.matches_exactly(r.pattern, lm.flags, p_)]
    chk.ob(rule, 'QUOTED_STRING/every-text-is-one-token', not ok_y, where(chk.model.mod(LEXER), r.fn) if r.fn else LEXER,
           'regex %r does not match the text(s) %r as one token' % (r.pattern, ok_y))
    chk.ob(rule, 'QUOTED_STRING/ends-at-the-next-quote', not ok_n, where(chk.model.mod(LEXER), r.fn) if r.fn else LEXER,
           'regex %r matches %r as one token: a quote inside the match means the text did not end at its closing quote' % (
               r.pattern, ok_n))



RULES = [r1_nothing_dropped, r2_list_idiom, r2b_operand_shapes, r3b_prepdata, r3_producer_consumer, r4_token_values, r5_layout, r6_entry_point,
         r7_history_independence, r8_number_tokens, r9_identifier_classes, r10_class_tables_not_mutated, r11_parts_reach_the_tree, r12_groupby_input_sorted, r13_quoted_text_ends_at_the_next_quote]
